import ast, asyncio, copy
from typing import Iterable, Optional, Any
from func_adl import EventDataset, ObjectStream, func_adl_callable
from func_adl.ast.meta_data import remove_empty_metadata, extract_metadata
from func_adl.util_ast import as_ast

class Jet:
    def pt(self, scale: float = 1.0, mode: int = 3) -> float: ...
    def two(self, a: int, b: int = 7, c: int = 9) -> float: ...
class Event:
    def Jets(self, name: str = "def", cut: float = 5.0) -> Iterable[Jet]: ...
class DS(EventDataset[Event]):
    def __init__(self): super().__init__(Event)
    async def execute_result_async(self, a, title=None): return a
class UDS(EventDataset):
    async def execute_result_async(self, a, title=None): return a

print("--- C07 multi-param defaults")
s = DS().Select("lambda e: e.Jets()")
print(ast.unparse(s.query_ast))
s = DS().Select("lambda e: e.Jets('x')")
print(ast.unparse(s.query_ast))
s = DS().Select("lambda e: e.Jets(cut=3.0)")
print(ast.unparse(s.query_ast))
s = DS().SelectMany("lambda e: e.Jets()").Select("lambda j: j.two(1)")
print(ast.unparse(s.query_ast))
try:
    s = DS().SelectMany("lambda e: e.Jets()").Select("lambda j: j.two(b=1)")
    print(ast.unparse(s.query_ast))
except Exception as e: print("EXC", type(e), e)
s = DS().SelectMany("lambda e: e.Jets()").Select("lambda j: j.two(1, c=5)")
print(ast.unparse(s.query_ast))

print("--- C13 quoting")
for v in ["a'b", "a\\b", "a\nb", 'x"y', "'); import os; ('"]:
    try:
        r = as_ast(v); print(repr(v), '->', ast.dump(r))
    except Exception as e: print(repr(v), "EXC", type(e).__name__, e)
for v in [{"a": "it's"}, ["x'y"], float('inf'), float('nan'), b'ab', None, True, 1e100, -3]:
    try:
        r = as_ast(v); print(repr(v), '->', ast.unparse(r), ast.literal_eval(r) if not isinstance(r,(ast.Name,)) else 'NAME')
    except Exception as e: print(repr(v), "EXC", type(e).__name__, e)

print("--- C11/C15 remove_empty_metadata mutation")
s0 = UDS().MetaData({}).Select("lambda e: e.x")
before = ast.dump(s0.query_ast)
r = s0.value()
print(before == ast.dump(s0.query_ast)); print(before); print(ast.dump(s0.query_ast))
