import ast, logging
from typing import Iterable, Any, NamedTuple
from dataclasses import dataclass
from func_adl import EventDataset, ObjectStream
from func_adl.util_ast import parse_as_ast
from func_adl.ast.syntatic_sugar import resolve_syntatic_sugar
class UDS(EventDataset):
    async def execute_result_async(self, a, title=None): return a
def T(label, f):
    try:
        r = f()
        print(label, "=>", ast.unparse(r.query_ast) if hasattr(r, 'query_ast') else ast.unparse(r))
    except Exception as e:
        print(label, "=> EXC", type(e).__name__, str(e)[:150])

print("## C10 untyped pass-through")
for src in ["lambda e: -e.x", "lambda e: not e.x", "lambda e: -e.x()", "lambda e: -e[0]", "lambda e: -(e.a, e.b)", "lambda e: -[1,2]",
            "lambda e: {'a b': e.x}", "lambda e: {'class': e.x}", "lambda e: {'a': e.x}.a", "lambda e: {'a': e.x}['a']", "lambda e: {1: e.x}",
            "lambda e: {'a': e.x}.b", "lambda e: {'a': e.x}['b']", "lambda e: {'a': e.x}.zip", "lambda e: e.x.value", "lambda e: e.value.attr",
            "lambda e: (e.a, e.b)[0]", "lambda e: (e.a, e.b)[-1]", "lambda e: (e.a, e.b)[-3]", "lambda e: (e.a,e.b)[e.i]", "lambda e: (e.a,e.b)[5]",
            "lambda e: e.x if e.y else e.z", "lambda e: 1 if e.y else 'a'", "lambda e: 1 if e.y else 2.0","lambda e: e.f(lambda q: q.t)", "lambda e: e.f(a=1, b=e.x)",
            "lambda e: None", "lambda e: e.x is None", "lambda e: 1+2j", "lambda e: ...", "lambda e: b'a'", "lambda e: e.x[1:2]", "lambda e: e.x[1:2, 3]",
            "lambda e: ~e.x", "lambda e: +e.x", "lambda e: e.a @ e.b", "lambda e: e.a < e.b < e.c", "lambda e: e.a and e.b or not e.c",
            "lambda e: [e.a for x in e.b]", "lambda e: f'{e.a}'", "lambda e: (x := e.a)", "lambda e: {e.a, e.b}", "lambda e: e.f(*e.args, **e.kw)",
            "lambda e: abs(e.x)", "lambda e: abs()", "lambda e: len(e.x, 1)", "lambda e: -abs(e.x)", "lambda e: {'a': 1, 'a': 2}", "lambda e: {**e.d}",
            "lambda e: {'a': e.x}.a.b", "lambda e: {'a':{'b': e.x}}.a.b", "lambda e: {'a': e.x}[e.k]", "lambda e: (lambda q: q)(e)"]:
    T(src, lambda: UDS().Select(src))
for src in ["lambda e: e.a > 1", "lambda e: e.a > 1 and e.b", "lambda e: not e.a", "lambda e: not (e.a > 1)", "lambda e: e.a", "lambda e: True", "lambda e: e.a in e.b", "lambda e: (e.a > 1) if e.c else (e.b > 1)"]:
    T("Where "+src, lambda: UDS().Where(src))
