import ast
from func_adl.ast import simplify_chained_calls, change_extension_functions_to_calls
def S(src):
    a = change_extension_functions_to_calls(ast.parse(src).body[0].value)
    try:
        print(src, "\n   =>", ast.unparse(simplify_chained_calls().visit(a)))
    except Exception as e:
        print(src, "\n   => EXC", type(e).__name__, e)
print("# shadow in Where_of_Where")
S("ds.Where(lambda e: e.jets.Where(lambda e: e.pt > 1).Count() > 0).Where(lambda e: e.met > 2)")
print("# scope extrusion: Select_of_SelectMany / SelectMany_of_SelectMany / Where_of_SelectMany (g refers outer e, f rebinding e)")
S("ds.Select(lambda e: e.jets.SelectMany(lambda e: e.tracks).Select(lambda t: t.pt + e.met))")
S("ds.Select(lambda e: e.jets.SelectMany(lambda e: e.tracks).SelectMany(lambda t: t.hits.Select(lambda h: h.x + e.met)))")
S("ds.Select(lambda e: e.jets.SelectMany(lambda e: e.tracks).Where(lambda t: t.pt > e.met))")
print("# Select_of_Select with f rebinding e, g referencing outer e: uses fresh -> ok?")
S("ds.Select(lambda e: e.jets.Select(lambda e: e.pt).Select(lambda p: p + e.met))")
print("# user names arg_N collide with generated")
import func_adl.ast.function_simplifier as fs
fs.argument_var_counter = 0
S("ds.Select(lambda arg_2: arg_2.jets.Select(lambda j: j.pt + arg_2.met).Select(lambda p: p * 2))")
print("# First push-through when value becomes First after substitution")
S("ds.Select(lambda e: (lambda x: x.pt)(e.jets.First()))")
S("ds.Select(lambda e: (e.jets.First(), e.met)[0].pt)")
S("ds.Select(lambda e: {'j': e.jets.First()}.j.pt)")
