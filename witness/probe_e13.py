import ast, copy
from typing import Iterable
from func_adl import EventDataset, func_adl_callback, func_adl_callable
def rewrite(s, a):
    n = copy.copy(a)
    n.func = ast.Attribute(value=a.func.value, attr=a.func.attr + "_rw", ctx=ast.Load())
    return s.MetaData({"rw": a.func.attr}), n
def frewrite(s, a):
    return s.MetaData({"f": 1}), ast.Call(ast.Name("MyF_rw", ast.Load()), a.args, [])
@func_adl_callable(frewrite)
def MyF(x: float) -> float: ...
class Jet:
    @func_adl_callback(rewrite)
    def pt(self) -> float: ...
    def eta(self) -> float: ...
class Event:
    def Jets(self, name: str = "def") -> Iterable[Jet]: ...
    @func_adl_callback(rewrite)
    def met(self) -> float: ...
class DS(EventDataset[Event]):
    def __init__(self): super().__init__(Event)
    async def execute_result_async(self, a, title=None): return a
for src in ["lambda e: e.met()", "lambda e: e.met() + 1", "lambda e: e.Jets().Select(lambda j: j.pt())", "lambda e: e.Jets().Select(lambda j: j.pt() + 1)",
            "lambda e: e.Jets().Select(lambda j: MyF(j.eta()))", "lambda e: e.Jets().Select(lambda j: MyF(j.eta()) + 1)", "lambda e: MyF(e.met())",
            "lambda e: e.Jets().Where(lambda j: j.pt() > 1)", "lambda e: e.Jets().Select(lambda j: (j.pt(), j.eta()))"]:
    try:
        print(src, "=>", ast.unparse(DS().Select(src).query_ast))
    except Exception as ex:
        print(src, "=> EXC", type(ex).__name__, str(ex)[:150])
