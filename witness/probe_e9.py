import ast
from func_adl import EventDataset
class UDS(EventDataset):
    async def execute_result_async(self, a, title=None): return a
for src in ["lambda e: e.jets[0]()", "lambda e: e.attr[float]('a')", "lambda e: e[0]()", "lambda e: f(e)[0](1)", "lambda e: e.x().y[1](2)", "lambda e: abs(x=e.x)", "lambda e: abs(e.x, 2)", "lambda e: len(e.x)"]:
    try:
        print(src, "=>", ast.unparse(UDS().Select(src).query_ast))
    except Exception as ex:
        print(src, "=> EXC", type(ex).__name__, str(ex)[:120])
