import ast, asyncio, copy
from func_adl import EventDataset, ObjectStream, find_EventDataset
from func_adl.ast.meta_data import lookup_query_metadata, extract_metadata, remove_empty_metadata
from func_adl.ast import aggregate_node_transformer, change_extension_functions_to_calls
from func_adl.ast.ast_hash import calc_ast_hash
class UDS(EventDataset):
    async def execute_result_async(self, a, title=None): return a
print("## C16")
ds = UDS()
s1 = ds.QMetaData({"a": 1})
s2 = s1.QMetaData({"b": 2})
print("a after b:", lookup_query_metadata(s2, "a"), lookup_query_metadata(s2, "b"))
s3 = s1.Select("lambda e: e.x").QMetaData({"b": 3})
print("inherit:", lookup_query_metadata(s3, "a"), lookup_query_metadata(s3, "b"))
s4 = s3.QMetaData({"a": 9})
print("overwrite:", lookup_query_metadata(s4, "a"), lookup_query_metadata(s4, "b"), "s3 still", lookup_query_metadata(s3, "a"))
sib1 = s1.QMetaData({"k": 1}); sib2 = s1.QMetaData({"k": 2})
print("siblings:", lookup_query_metadata(sib1, "k"), lookup_query_metadata(sib2, "k"), lookup_query_metadata(s1, "k"))
print("root ds polluted?", lookup_query_metadata(ds, "a"))
s5 = ds.QMetaData({"v": None})
print("None value:", lookup_query_metadata(s5, "v"))
s6 = s1.QMetaData({"a": 1})
print(ast.dump(s4.query_ast) == ast.dump(ds.Select("lambda e: e.x").query_ast), calc_ast_hash(s4.query_ast) == calc_ast_hash(ds.Select("lambda e: e.x").query_ast))
# QMetaData in lambda inside?
s7 = ds.QMetaData({"a": 1}).QMetaData({"a": 2}).QMetaData({"a": 1})
print("a=1,2,1 ->", lookup_query_metadata(s7, "a"))
print(s7.value() is not None)
print("## C15")
a = ast.parse("Select(MetaData(MetaData(ds, {'o': 1}), {'i': 2}), lambda e: MetaData(e.jets, {'l': 3}).Select(lambda j: MetaData(j, {})))").body[0].value
before = ast.dump(a)
n, md = extract_metadata(a)
print(ast.unparse(n), md, "input unchanged:", before == ast.dump(a))
a = ast.parse("Select(MetaData(MetaData(ds, {}), {'i': 2}), lambda e: MetaData(e.jets, {}).Select(lambda j: MetaData(MetaData(j, {}), {})))").body[0].value
before = ast.dump(a)
n = remove_empty_metadata(a)
print(ast.unparse(n), "input unchanged:", before == ast.dump(a))
a = ast.parse("MetaData(ds, {}, 1)").body[0].value
print(ast.unparse(remove_empty_metadata(a)))
a = ast.parse("x.MetaData({})").body[0].value
print(ast.unparse(remove_empty_metadata(a)), extract_metadata(a))
try:
    a = ast.parse("MetaData(ds, {'a': e.x})").body[0].value
    print(ast.unparse(remove_empty_metadata(a)))
except Exception as e: print("EXC", type(e).__name__, e)
print("## C19")
def A(src):
    try:
        print(src, "=>", ast.unparse(aggregate_node_transformer().visit(ast.parse(src).body[0].value)))
    except Exception as e: print(src, "=> EXC", type(e).__name__, e)
A("len(x)"); A("Count(x)"); A("Sum(x)"); A("Max(x)"); A("Min(x)"); A("Sum(x, y)"); A("Sum()"); A("len(x, y)"); A("len()"); A("x.Count()"); A("Sum"); A("f(Sum)"); A("len(len(x))"); A("Sum(Select(x, lambda j: len(j.t)))"); A("Sum(x, start=1)"); A("Max(*x)"); A("Count(x, k=1)")
print("## C17")
def E(src):
    a = ast.parse(src).body[0].value
    r = change_extension_functions_to_calls(a)
    r2 = change_extension_functions_to_calls(r)
    print(src, "=>", ast.unparse(r), "| idem", ast.dump(r)==ast.dump(r2))
E("ds.Select(lambda e: e.jets.Where(lambda j: j.pt > 1).Count())")
E("ds.Select(f=lambda e: e)")
E("ds.Foo(lambda e: e.jets.First().pt)")
E("ds.Select.Where(x)")
E("ds.Select")
E("a.b.Select(lambda x: x.Sum())")
E("ds.AsAwkwardArray('a')"); E("ds.ResultParquet('a')"); E("ds.MetaData({})")
E("f(x.Select(y))(z)")
print("## C20")
print(calc_ast_hash(ast.parse("f('a')")))
try: print(calc_ast_hash(ast.parse("f('μ€')")))
except Exception as e: print("EXC", type(e).__name__, e)
print(calc_ast_hash(ast.parse("f(1)")) == calc_ast_hash(ast.parse("f(1.0)")), calc_ast_hash(ast.parse("f(1)")) == calc_ast_hash(ast.parse("f(True)")), calc_ast_hash(ast.parse("f( 1 )")) == calc_ast_hash(ast.parse("f(1)")))
print("## C12")
class D2(EventDataset):
    def __init__(self, name): super().__init__(); self.name=name; self.calls=[]
    async def execute_result_async(self, a, title=None):
        self.calls.append((ast.unparse(a), title)); return self.name
d1, d2 = D2("one"), D2("two")
q1 = d1.Select("lambda e: e.a").AsAwkwardArray(["x"]); q2 = d2.Where("lambda e: e.b > 1").MetaData({}).AsParquetFiles("f.pq")
print(q1.value(title="T"), q2.value(), d1.calls, d2.calls)
print(find_EventDataset(q1.query_ast)._eds_object is d1)
try: find_EventDataset(ast.parse("Select(EventDataset(), lambda e: EventDataset())"))
except Exception as e: print("EXC", e)
try: find_EventDataset(ast.parse("Select(x, lambda e: e)"))
except Exception as e: print("EXC", str(e)[:60])
try: print(ObjectStream(ast.parse("Select(x, lambda e: e)").body[0].value).value())
except Exception as e: print("EXC", type(e).__name__, str(e)[:60])
