import ast, logging, math
from typing import Iterable, Any, NamedTuple, TypeVar, Generic, Tuple, List
from dataclasses import dataclass, field
from func_adl import EventDataset, ObjectStream, func_adl_callback, func_adl_callable, func_adl_parameterized_call, register_func_adl_os_collection
from func_adl.type_based_replacement import ObjectStreamInternalMethods
from func_adl.ast.meta_data import lookup_query_metadata
log=[]
def cb_cls(s, a):
    log.append(("cls", ast.unparse(a))); return s.MetaData({"cls": 1}), a
def cb_m(s, a):
    log.append(("meth", ast.unparse(a))); return s.MetaData({"m": 1}), a
class Track:
    def pt(self) -> float: ...
@func_adl_callback(cb_cls)
class Jet:
    @func_adl_callback(cb_m)
    def pt(self) -> float: ...
    def eta(self) -> float: ...
    def tracks(self) -> Iterable[Track]: ...
    def n(self) -> int: ...
class Event:
    def Jets(self, name: str = "def") -> Iterable[Jet]: ...
    def met(self) -> float: ...
class DS(EventDataset[Event]):
    def __init__(self): super().__init__(Event)
    async def execute_result_async(self, a, title=None): return a
def t(label):
    def deco(f):
        log.clear()
        try:
            r = f()
            print(label, "=>", ast.unparse(r.query_ast), "| type", r.item_type, "| log", log)
        except Exception as e:
            print(label, "=> EXC", type(e).__name__, str(e)[:200])
    return deco
@t("depth1 callback")
def _(): return DS().SelectMany("lambda e: e.Jets()").Select("lambda j: j.pt()")
@t("depth2 callback")
def _(): return DS().Select("lambda e: e.Jets().Select(lambda j: j.pt())")
@t("depth3 callback")
def _(): return DS().Select("lambda e: e.Jets().Select(lambda j: j.tracks().Select(lambda t: t.pt() + j.pt()))")
@t("where nested")
def _(): return DS().Select("lambda e: e.Jets().Where(lambda j: j.pt() > 1).Select(lambda j: j.eta())")
@t("where in where")
def _(): return DS().Where("lambda e: e.Jets().Where(lambda j: j.pt() > 1).Count() > 2")
@t("types: count")
def _(): return DS().Select("lambda e: e.Jets().Count()")
@t("types: First")
def _(): return DS().Select("lambda e: e.Jets().First()")
@t("types: First.pt")
def _(): return DS().Select("lambda e: e.Jets().First().pt()")
@t("types: subscript")
def _(): return DS().Select("lambda e: e.Jets()[0]")
@t("types: len")
def _(): return DS().Select("lambda e: len(e.Jets())")
@t("types: binop int/int")
def _(): return DS().Select("lambda e: e.Jets().Count() / 2")
@t("types: binop int*int")
def _(): return DS().Select("lambda e: e.Jets().Count() * 2")
@t("types: binop int+float")
def _(): return DS().Select("lambda e: e.Jets().Count() + e.met()")
@t("types: compare")
def _(): return DS().Select("lambda e: e.met() > 1")
@t("types: unary")
def _(): return DS().Select("lambda e: -e.met()")
@t("types: not")
def _(): return DS().Select("lambda e: not e.met()")
@t("types: dict field")
def _(): return DS().Select("lambda e: {'a': e.met(), 'j': e.Jets()}").Select("lambda d: d.j")
@t("types: dict field2")
def _(): return DS().Select("lambda e: {'a': e.met(), 'j': e.Jets()}").Select("lambda d: d['a']")
@t("types: dict field3 nested sel")
def _(): return DS().Select("lambda e: {'a': e.met(), 'j': e.Jets()}").Select("lambda d: d.j.Select(lambda j: j.pt())")
@t("types: tuple")
def _(): return DS().Select("lambda e: (e.met(), e.Jets())").Select("lambda d: d[1]")
@t("types: tuple inline")
def _(): return DS().Select("lambda e: (e.met(), e.Jets())[1]")
@t("types: selectmany")
def _(): return DS().SelectMany("lambda e: e.Jets()")
@t("types: selectmany nested")
def _(): return DS().SelectMany("lambda e: e.Jets().Select(lambda j: j.tracks())")
@t("types: selectmany nested2")
def _(): return DS().Select("lambda e: e.Jets().SelectMany(lambda j: j.tracks())")
@t("types: where non-bool")
def _(): return DS().Where("lambda e: e.met()")
@t("types: ifexp")
def _(): return DS().Select("lambda e: e.met() if e.met() > 1 else 0")
@t("types: ifexp int/int")
def _(): return DS().Select("lambda e: 1 if e.met() > 1 else 0")
@t("types: and")
def _(): return DS().Select("lambda e: e.met() > 1 and e.met() < 2")
@t("types: abs")
def _(): return DS().Select("lambda e: abs(e.Jets().Count())")
@t("types: mod / floor / pow")
def _(): return DS().Select("lambda e: (e.Jets().Count() % 2, e.Jets().Count() // 2, e.Jets().Count() ** 2, e.met() // 2)")
@t("types: bool + bool")
def _(): return DS().Select("lambda e: (e.met() > 1) + (e.met() > 2)")
@t("types: str const")
def _(): return DS().Select("lambda e: 'a' + 'b'")
@t("unknown method")
def _(): return DS().Select("lambda e: e.nope()")
