import ast, logging, math
from typing import Iterable, Any, NamedTuple
from dataclasses import dataclass
from enum import Enum
from func_adl import EventDataset, ObjectStream
import numpy as np
class UDS(EventDataset):
    async def execute_result_async(self, a, title=None): return a
def P(label, r):
    print(label, "=>", ast.unparse(r.query_ast))
j = 5
x = 7
class K:
    c = 3
    class In:
        d = 4
class Col(Enum):
    red = 1
lst = [1, 2]
dct = {'a': 1}
nn = None
obj = object()
npv = np.float64(2.0)
ds = UDS()
tests = []
def t(label):
    def deco(f):
        try:
            P(label, f())
        except Exception as e:
            print(label, "=> EXC", type(e).__name__, str(e)[:160])
    return deco
@t("global shadowed by comp target")
def _():
    return ds.Select(lambda e: [j.pt() for j in e.jets])
@t("global shadowed by nested lambda")
def _():
    return ds.Select(lambda e: e.jets.Select(lambda j: j.pt()))
@t("global used")
def _():
    return ds.Select(lambda e: e.pt > j)
@t("class const")
def _():
    return ds.Select(lambda e: e.pt > K.c + K.In.d)
@t("math.pi")
def _():
    return ds.Select(lambda e: e.pt > math.pi)
@t("math.sin call")
def _():
    return ds.Select(lambda e: math.sin(e.pt))
@t("enum")
def _():
    return ds.Select(lambda e: e.c == Col.red)
@t("attr named id")
def _():
    return ds.Select(lambda e: e.x.id)
@t("attr named ctx")
def _():
    return ds.Select(lambda e: e.x.ctx)
@t("attr named lineno")
def _():
    return ds.Select(lambda e: e.lineno)
@t("attr named value.real")
def _():
    return ds.Select(lambda e: e.value.real)
@t("kwonly lambda param")
def _():
    return ds.Select(lambda e: e.jets.Select(lambda q, *, x=1: q + x))
@t("default lambda param uses global")
def _():
    return ds.Select(lambda e: e.jets.Select(lambda q, y=x: q + y))
@t("vararg lambda param shadows global x")
def _():
    return ds.Select(lambda e: e.jets.Select(lambda *x: x))
@t("list capture")
def _():
    return ds.Select(lambda e: e.pt in lst)
@t("dict capture")
def _():
    return ds.Select(lambda e: e.pt in dct)
@t("none capture")
def _():
    return ds.Select(lambda e: e.pt == nn)
@t("object capture")
def _():
    return ds.Select(lambda e: e.pt == obj)
@t("closure frozen")
def _():
    y = 10
    s = ds.Select(lambda e: e.pt > y)
    y = 20
    return s
@t("unbound free var at call")
def _():
    return ds.Select(lambda e: e.pt > late_defined)
@t("numpy scalar")
def _():
    return ds.Select(lambda e: e.pt > np.float64(2.0))
@t("numpy scalar captured")
def _():
    return ds.Select(lambda e: e.pt > npv)
@t("comp cond uses global")
def _():
    return ds.Select(lambda e: [q for q in e.jets if q.pt > x])
@t("comp target x shadows global x")
def _():
    return ds.Select(lambda e: [x for x in e.jets if x.pt > 1])
@t("builtin len")
def _():
    return ds.Select(lambda e: len(e.x))
@t("module captured")
def _():
    return ds.Select(lambda e: math)
@t("class captured bare")
def _():
    return ds.Select(lambda e: K)
@t("type call int(e.x)")
def _():
    return ds.Select(lambda e: int(e.x))
@t("class attr on instance obj.real")
def _():
    return ds.Select(lambda e: j.real + e.x)
@t("str method 'abc'.upper")
def _():
    return ds.Select(lambda e: lst.count)
@t("tuple capture")
def _():
    tt = (1, 2)
    return ds.Select(lambda e: e.x in tt)
@t("param same as global in outer lambda")
def _():
    return ds.Select(lambda x: x.pt + j)
@t("bool capture")
def _():
    b = True
    return ds.Where(lambda e: b)
