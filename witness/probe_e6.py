import ast, logging, math
from typing import Iterable, Any, NamedTuple
from dataclasses import dataclass, field
from func_adl import EventDataset, ObjectStream
from func_adl.ast.syntatic_sugar import resolve_syntatic_sugar
class UDS(EventDataset):
    async def execute_result_async(self, a, title=None): return a
ds = UDS()
def R(src):
    try:
        print(src, "=>", ast.unparse(resolve_syntatic_sugar(ast.parse(src).body[0].value)))
    except Exception as e:
        print(src, "=> EXC", type(e).__name__, str(e)[:160])
R("[j.pt for j in jets]")
R("[j.pt for j in jets if j.a if j.b]")
R("[j.pt + t.x for j in jets for t in j.tracks]")
R("[j.pt for j in jets for t in j.tracks if t.x > j.y]")
R("[[t.x for t in j.tracks] for j in jets]")
R("[j for j in [k for k in jets if k.a] if j.b]")
R("[j.pt for j in jets if [t for t in j.tracks if t.q]]")
R("{j.pt for j in jets}")
R("{j.pt: 1 for j in jets}")
R("[a+b for (a,b) in jets]")
R("(j.pt for j in jets)")
R("sum(j.pt for j in jets)")
R("[j.pt async for j in jets]")
def t(label):
    def deco(f):
        try:
            print(label, "=>", ast.unparse(f().query_ast))
        except Exception as e:
            print(label, "=> EXC", type(e).__name__, str(e)[:160])
    return deco
@dataclass
class DC:
    x: int
    y: int = 5
    z: int = field(default=7)
class NT(NamedTuple):
    x: int
    y: int = 5
@t("dc positional")
def _():
    return ds.Select(lambda e: DC(e.a, e.b))
@t("dc kw")
def _():
    return ds.Select(lambda e: DC(y=e.a, x=e.b))
@t("dc mixed")
def _():
    return ds.Select(lambda e: DC(e.a, z=e.b))
@t("dc default omitted")
def _():
    return ds.Select(lambda e: DC(e.a))
@t("dc missing required")
def _():
    return ds.Select(lambda e: DC(y=e.a))
@t("dc dup: positional and kw same")
def _():
    return ds.Select(lambda e: DC(e.a, x=e.b))
@t("dc surplus")
def _():
    return ds.Select(lambda e: DC(e.a, e.b, e.c, e.d))
@t("dc unknown kw")
def _():
    return ds.Select(lambda e: DC(e.a, w=e.b))
@t("nt positional")
def _():
    return ds.Select(lambda e: NT(e.a, e.b))
@t("nt kw")
def _():
    return ds.Select(lambda e: NT(y=e.a, x=e.b))
@t("nt .x")
def _():
    return ds.Select(lambda e: NT(y=e.a, x=e.b).x)
@t("dc star args")
def _():
    return ds.Select(lambda e: DC(*e.a))
@t("dc **kw")
def _():
    return ds.Select(lambda e: DC(**e.a))
@t("dc nested in comp")
def _():
    return ds.Select(lambda e: [DC(j.a, y=j.b) for j in e.jets if j.c])
