import ast, logging
from func_adl.ast import simplify_chained_calls, aggregate_node_transformer, change_extension_functions_to_calls
from func_adl.ast.function_simplifier import FuncADLIndexError
def S(src):
    a = ast.parse(src).body[0].value
    a = change_extension_functions_to_calls(a)
    try:
        r = simplify_chained_calls().visit(a)
        try:
            print(src, "\n   =>", ast.unparse(r))
        except Exception as e:
            print(src, "\n   => UNPARSE-FAIL", type(e).__name__, e, ast.dump(r)[:200])
    except Exception as e:
        print(src, "\n   => EXC", type(e).__name__, e)

print("## C14 SelectMany of SelectMany")
S("ds.SelectMany(lambda e: e.jets).SelectMany(lambda j: (j.a, j.tracks)[1])")
S("ds.SelectMany(lambda e: e.jets).Select(lambda j: (j.a, j.tracks)[1])")
S("ds.Select(lambda e: (e.jets, e.met)).SelectMany(lambda t: t[0].Select(lambda j: j.pt + t[1]))")
S("ds.Select(lambda e: {'j': e.jets, 'm': e.met}).Where(lambda t: t.m > 1).Select(lambda t: t.j.Select(lambda j: j.pt + t.m))")
S("ds.Where(lambda e: (e.a, e.b)[0] > 1)")
S("ds.SelectMany(lambda e: e.jets).SelectMany(lambda j: j.tracks).Select(lambda t: (t.a, t.b)[0])")
print("## C18 totality")
S("ds.Select(lambda e: (e.a, e.b)[e.i])")
S("ds.Select(lambda e: (e.a, e.b)[-1])")
S("ds.Select(lambda e: (e.a, e.b)[0:1])")
S("ds.Select(lambda e: (e.a, e.b)[2])")
S("ds.Select(lambda e: [e.a, e.b][e.i])")
S("ds.Select(lambda e: [e.a, e.b][-1])")
S("ds.Select(lambda e: [e.a, e.b][0:1])")
S("ds.Select(lambda e: {'a': e.a}['b'])")
S("ds.Select(lambda e: {'a': e.a}.b)")
S("ds.Select(lambda e: {'a': e.a}[e.k])")
S("ds.Select(lambda e: {'a': e.a}['a'])")
S("ds.Select(lambda e: {e.k: e.a}['a'])")
S("ds.Select(lambda e: {**e.d, 'a': 1}['a'])")
S("ds.Select(lambda e: (e.a, e.b)['x'])")
S("ds.Select(lambda e: (e.a, e.b)[1.0])")
S("ds.Select(lambda e: (e.a, e.b)[True])")
print("## C02 capture")
S("ds.Select(lambda e: (lambda x: e.jets.Select(lambda x: x.pt))(e.met))")
S("ds.Select(lambda y: (lambda x: y.s.Select(lambda y: x + y))(y))")
S("ds.Select(lambda e: e.jets.Select(lambda j: j.pt + e.met).Select(lambda p: p.things.Select(lambda e: e + p)))")
S("ds.Select(lambda e: e.jets.Select(lambda e: e.pt))")
S("ds.Select(lambda e: e.jets).Select(lambda e: e.Select(lambda e: e.pt))")
S("ds.Select(lambda x: (lambda a, b: a - b)(b=x.p, a=x.q))")
S("ds.Select(lambda x: (lambda a, b: a - b)(x.p, b=x.q))")
S("ds.Select(lambda x: (lambda a, b=2: a - b)(x.p))")
S("ds.Select(lambda x: (lambda a: a + 1)())")
S("ds.Select(lambda e: e.jets.First().pt(1, k=2))")
S("ds.Select(lambda e: e.jets.Select(lambda j: (j.a, j.b)).First()[1])")
S("ds.Where(lambda e: True)")
S("ds.Where(lambda e: e.a > 1).Where(lambda e: e.b > 2)")
S("ds.Select(lambda e: e.a).Where(lambda a: a > 1).Select(lambda a: a + 1)")
