import ast, logging
from typing import Iterable
from func_adl import EventDataset
class Jet:
    def pt(self, scale: float = 1.0) -> float: ...
class Event:
    def Jets(self, name: str = "def") -> Iterable[Jet]: ...
    def pt(self) -> int: ...
class DS(EventDataset[Event]):
    def __init__(self): super().__init__(Event)
    async def execute_result_async(self, a, title=None): return a
for src in ["lambda e: e.Jets().Select(lambda j: j.pt())", "lambda e: e.Jets().Select(lambda e: e.pt())", "lambda e: e.Jets().Where(lambda e: e.pt() > 1)"]:
    try:
        s = DS().Select(src); print(src, "=>", ast.unparse(s.query_ast), s.item_type)
    except Exception as ex: print(src, "=> EXC", type(ex).__name__, ex)
