import ast, logging, math
from typing import Iterable, Any, NamedTuple
from dataclasses import dataclass
from func_adl import EventDataset, ObjectStream
class UDS(EventDataset):
    async def execute_result_async(self, a, title=None): return a
ds = UDS()
def t(label):
    def deco(f):
        try:
            print(label, "=>", ast.unparse(f().query_ast))
        except Exception as e:
            print(label, "=> EXC", type(e).__name__, str(e)[:160])
    return deco
def ident(a):
    return a
def add1(a):
    return a + 1
def two(a, b):
    return a - b
def dflt(a, b=2):
    return a - b
def inner_shadow(a):
    return a.jets.Select(lambda a: a.pt)
def inner_capture(a):
    return a.jets.Select(lambda j: j.pt + a.met)
def calls_helper(a):
    return add1(a) * 2
def docstr(a):
    "doc"
    return a + 1
def multi(a):
    b = a + 1
    return b
lam_helper = lambda q: q * 3
@t("identity helper")
def _():
    return ds.Select(lambda e: ident(e.x))
@t("add1")
def _():
    return ds.Select(lambda e: add1(e.x))
@t("two positional")
def _():
    return ds.Select(lambda e: two(e.x, e.y))
@t("two keyword reorder")
def _():
    return ds.Select(lambda e: two(b=e.x, a=e.y))
@t("two mixed")
def _():
    return ds.Select(lambda e: two(e.x, b=e.y))
@t("default omitted")
def _():
    return ds.Select(lambda e: dflt(e.x))
@t("inner shadow")
def _():
    return ds.Select(lambda e: inner_shadow(e))
@t("inner capture; arg mentions j")
def _():
    return ds.Select(lambda j: inner_capture(j))
@t("arg mentions bound name")
def _():
    return ds.Select(lambda j: j.things.Select(lambda q: inner_capture(q)))
@t("helper calling helper")
def _():
    return ds.Select(lambda e: calls_helper(e.x))
@t("docstring helper")
def _():
    return ds.Select(lambda e: docstr(e.x))
@t("multi-statement helper")
def _():
    return ds.Select(lambda e: multi(e.x))
@t("lambda helper")
def _():
    return ds.Select(lambda e: lam_helper(e.x))
@t("helper passed directly")
def _():
    return ds.Select(add1)
@t("helper as arg, not called")
def _():
    return ds.Select(lambda e: e.jets.Select(add1))
@t("param named like helper")
def _():
    return ds.Select(lambda add1: add1.x)
@t("swap args")
def _():
    return ds.Select(lambda a, : two(a.y, a.x))
def swap(a, b):
    return two(b, a)
@t("helper w/ param names same as other helper, swapped")
def _():
    return ds.Select(lambda e: swap(e.x, e.y))
def nest(b):
    return two(b, 1)
@t("nested helper arg name clash: nest(e.a) -> two(b:=e.a, 1) a-b")
def _():
    return ds.Select(lambda e: nest(e.q))
def uses_b(a):
    return two(a, a)
@t("simultaneous subst: two(b, a) with outer a,b")
def _():
    return ds.Select(lambda a: a.s.Select(lambda b: two(b, a)))
