import ast
from func_adl import EventDataset
class UDS(EventDataset):
    async def execute_result_async(self, a, title=None): return a
ds = UDS()
x = 7
def f():
    x = 10
    return ds.Select(lambda e: e.pt > x)
print(ast.unparse(f().query_ast))
def g(x):
    return ds.Select(lambda e: e.pt > x)
print(ast.unparse(g(99).query_ast))
