#!/venv/bin/python
"""Confirm sub-agent mutants: patch applies to /repo HEAD, 412 tests pass with it, demo fails with it and passes without.
usage: verify_seeded.py <outdir> [ids...]   (outdir has Cxx/patchN.diff, demoN.py, metaN.json)"""
import json, os, subprocess, sys, tempfile, shutil, concurrent.futures as cf
OUT = sys.argv[1]
ids = sys.argv[2:] or sorted(os.listdir(OUT))
def sh(cmd, cwd, env=None, timeout=600):
    e = dict(os.environ); e.update(env or {})
    r = subprocess.run(cmd, shell=True, cwd=cwd, env=e, capture_output=True, text=True, timeout=timeout)
    return r.returncode, (r.stdout + r.stderr)
def one(pid, i):
    d = os.path.join(OUT, pid)
    patch = os.path.join(d, f"patch{i}.diff"); demo = os.path.join(d, f"demo{i}.py")
    if not (os.path.exists(patch) and os.path.exists(demo)):
        return pid, i, "missing", ""
    wt = tempfile.mkdtemp(prefix=f"vs_{pid}_{i}_", dir="/tmp")
    try:
        shutil.rmtree(wt)
        rc, o = sh(f"git -C /repo worktree add -q --detach {wt} HEAD", "/")
        if rc: return pid, i, "worktree-fail", o
        env = {"PYTHONPATH": wt}
        rc0, o0 = sh(f"/venv/bin/python {demo}", wt, env)
        rc, o = sh(f"git apply {patch}", wt)
        if rc: return pid, i, "apply-fail", o
        rct, ot = sh("/venv/bin/python -m pytest -q -p no:cacheprovider -x 2>&1 | tail -1", wt, env)
        rc1, o1 = sh(f"/venv/bin/python {demo}", wt, env)
        ok = rc0 == 0 and rc1 != 0 and "412 passed" in ot
        return pid, i, ("OK" if ok else "BAD"), f"clean rc={rc0} patched rc={rc1} tests={ot.strip()}\n  patched: {o1.strip()[-300:]}"
    finally:
        sh(f"git -C /repo worktree remove --force {wt}", "/")
        shutil.rmtree(wt, ignore_errors=True)
jobs = [(p, i) for p in ids for i in (1, 2, 3) if i < 3 or os.path.exists(os.path.join(OUT, p, "patch3.diff"))]
with cf.ThreadPoolExecutor(8) as ex:
    for pid, i, st, info in ex.map(lambda a: one(*a), jobs):
        print(pid, i, st, info.replace("\n", "\n     "), flush=True)
