#!/venv/bin/python
"""Register the confirmed sub-agent mutants of one round: register_round.py <outdir> <round> <first index> <verify log>
(outdir has Cxx/patchN.diff, demoN.py, metaN.json; N=1,2[,3] become seeded/Cxx-<first>, Cxx-<first+1>[, Cxx-<first+2>])"""
import json, os, re, shutil, subprocess, sys
VERIF = os.path.dirname(os.path.dirname(os.path.abspath(__file__)))
out, rnd, first, vlog = sys.argv[1], int(sys.argv[2]), int(sys.argv[3]), sys.argv[4]
head = subprocess.run("git -C /repo rev-parse --short HEAD", shell=True, capture_output=True, text=True).stdout.strip()
conf = {}
for ln in open(vlog):
    mm = re.match(r"^(C\d\d) (\d) (\w[\w-]*) (.*)$", ln.rstrip())
    if mm:
        conf[(mm.group(1), int(mm.group(2)))] = (mm.group(3), mm.group(4))
vp = os.path.join(VERIF, "sa/selftest/variants.json")
d = json.load(open(vp))
names = {v["name"] for v in d["variants"]}
n = 0
for pid in sorted(x for x in os.listdir(out) if re.fullmatch(r"C\d\d", x)):
    for i in (1, 2, 3):
        if i == 3 and not os.path.exists(os.path.join(out, pid, "patch3.diff")):
            continue
        st, info = conf.get((pid, i), ("missing", ""))
        if st != "OK":
            print("skip", pid, i, st)
            continue
        k = first + i - 1
        dst = os.path.join(VERIF, "seeded", f"{pid}-{k}")
        os.makedirs(dst, exist_ok=True)
        shutil.copy(os.path.join(out, pid, f"patch{i}.diff"), os.path.join(dst, "patch.diff"))
        shutil.copy(os.path.join(out, pid, f"demo{i}.py"), os.path.join(dst, "demo.py"))
        meta = json.load(open(os.path.join(out, pid, f"meta{i}.json")))
        m2 = {"property": pid, "round": rnd, "origin": f"independent sub-agent (round {rnd}) given only the property text and its own worktree of /repo HEAD {head}", "files": meta.get("files", []), "summary": meta.get("summary", ""), "needs": meta.get("needs", ""), "confirmed_by": "tools/verify_seeded.py", "confirmation": f"{st} {info}", "demo_clean": meta.get("demo_clean", ""), "demo_patched": meta.get("demo_patched", "")}
        json.dump(m2, open(os.path.join(dst, "meta.json"), "w"), indent=1)
        name = f"seeded-{pid}-{k}"
        if name not in names:
            d["variants"].append({"name": name, "kind": "seeded", "patch": f"seeded/{pid}-{k}/patch.diff", "expect": [pid], "note": meta.get("summary", "")[:200], "round": rnd})
            n += 1
json.dump(d, open(vp, "w"), indent=1)
print(n, "registered;", len(d["variants"]), "variants")
