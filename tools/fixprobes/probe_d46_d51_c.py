import ast, enum, sys, logging
from typing import Any, TypeVar, Generic, Iterable
from dataclasses import dataclass
out = []
# 1 fixup
from func_adl.type_based_replacement import fixup_ast_from_modifications, remap_by_types
orig = ast.parse("f(a, b)").body[0].value
new = ast.parse("g(a, c, d, k=1)").body[0].value
new._old_ast = orig
top_orig = ast.parse("h(f(a,b))").body[0].value
r = fixup_ast_from_modifications(new, top_orig)
out.append(("fixup", ast.unparse(orig), r is top_orig, ast.unparse(r)))
r2 = fixup_ast_from_modifications(ast.parse("q(1)").body[0].value, top_orig)
out.append(("fixup-none", r2 is top_orig))
# 2 mixin
from func_adl.util_types import get_method_and_class
T = TypeVar("T")
class Named:
    pass
class Jet:
    def pt(self) -> float: ...
class Coll(Generic[T]):
    def get(self) -> T: ...
class JetColl(Named, Coll[Jet]):
    pass
m = get_method_and_class(JetColl, "get")
out.append(("mro", m[0].__name__ if m else None))
# 3 normalized
U = TypeVar("U")
class MyColl: pass
class Evt:
    def coll(self, n: int = 3) -> U: ...
    def jets(self) -> JetColl: ...
from func_adl import ObjectStream
from func_adl.util_ast import parse_as_ast, as_ast, rewrite_func_as_lambda
s = ObjectStream[Evt](ast.Name(id="e", ctx=ast.Load()), Evt)
try:
    q = s.Select(lambda e: e.coll())
    out.append(("norm", ast.unparse(q.query_ast)))
except Exception as ex:
    out.append(("norm-exc", type(ex).__name__, str(ex)))
try:
    q = s.Select(lambda e: e.jets().get().pt())
    out.append(("mixin-q", ast.unparse(q.query_ast), str(q.item_type)))
except Exception as ex:
    out.append(("mixin-exc", type(ex).__name__, str(ex)))
# 4 dataclass
from func_adl.ast.syntatic_sugar import resolve_syntatic_sugar
@dataclass
class P:
    x: float
    y: float
for src in ["lambda e: P(e.a, x=e.b)", "lambda e: P(*e.a)", "lambda e: P(e.a, y=e.b)", "lambda e: P(e.a, z=e.b)"]:
    try:
        a = ast.parse(src).body[0].value
        for n in ast.walk(a):
            if isinstance(n, ast.Call) and isinstance(n.func, ast.Name) and n.func.id == "P":
                n.func = ast.Constant(value=P)
        out.append(("dc", src, ast.unparse(resolve_syntatic_sugar(a))))
    except Exception as ex:
        out.append(("dc-exc", src, type(ex).__name__, str(ex)))
# 5 as_ast
class Col(str, enum.Enum):
    PT = "pt"
class L(list): pass
for v in [Col.PT, [Col.PT, "a'b"], (1, Col.PT), {Col.PT: [Col.PT]}, "x\U0001f600", 1.5, None, L([1]), {1, 2}, True, (), [], {}]:
    try:
        out.append(("as_ast", repr(v), ast.dump(as_ast(v))))
    except Exception as ex:
        out.append(("as_ast-exc", repr(v), type(ex).__name__))
# 6 decorated / annotations
import functools
for src in ["@deco\ndef f(j): return j.pt()", "def f(j: Jet, *a: int, k: int = 2, **kw: float) -> float:\n    'doc'\n    return j.pt()",
            "def f(j):\n  x = 1\n  return x", "def f(j):\n  pass", "def f(a, /, b=1): return a+b"]:
    fd = ast.parse(src).body[0]
    try:
        out.append(("rw", src, ast.unparse(rewrite_func_as_lambda(fd))))
    except Exception as ex:
        out.append(("rw-exc", src, type(ex).__name__, str(ex)))
for o in out:
    print(o)
