import ast, sys, typing, traceback
from dataclasses import dataclass
from typing import Iterable, TypeVar, Generic, Any, List, Sequence as TSeq
import collections.abc
from func_adl import ObjectStream
from func_adl.util_ast import parse_as_ast
from func_adl.util_types import get_inherited, get_method_and_class, is_iterable, unwrap_iterable, get_class_name, resolve_type_vars, build_type_dict_from_type
from func_adl.type_based_replacement import remap_by_types, remap_from_lambda

def show(label, f):
    try:
        r = f()
        if isinstance(r, ast.AST):
            r = ast.dump(r)
        print(label, "->", r)
    except Exception as e:
        print(label, "!!", type(e).__name__, str(e).replace("\n", "|")[:300])

# ---- fix 1: dataclass methods
@dataclass
class DC:
    x: int
    y: float
    def eta(self) -> float: ...
    z = 5

class Evt:
    def dc(self) -> DC: ...
    def dcs(self) -> Iterable[DC]: ...

def remap(lam_text):
    s = ObjectStream[Evt](ast.Name(id="e", ctx=ast.Load()), Evt)
    lam = ast.parse(lam_text).body[0].value
    ns, nb, t = remap_from_lambda(s, lam, {})
    return ast.dump(nb) + " :: " + str(t)

for txt in ["lambda e: e.dc().x", "lambda e: e.dc().eta()", "lambda e: e.dc().eta", "lambda e: e.dc().z",
            "lambda e: e.dc().nothere", "lambda e: e.dc().nothere()", "lambda e: e.dcs().Select(lambda d: d.eta())",
            "lambda e: e.dcs().Select(lambda d: d.q)", "lambda e: {'a': e.dc()}.a.eta()", "lambda e: {'a': 1}.b", "lambda e: {'a': 1}.zip",
            "lambda e: e.dc().__class__", "lambda e: e.dc().__init__"]:
    show("DC " + txt, lambda: remap(txt))

# ---- fix 2: typing alias only for collections.abc
T = TypeVar("T")
class Collection(Generic[T]):
    def mine(self) -> T: ...
class Sequence(Generic[T]):
    def first(self) -> T: ...
class Container(Generic[T]):
    def c(self) -> int: ...
class MyC(Collection[int]): ...
class MyS(Sequence[float]): ...
class MyCt(Container[str]): ...
class RealS(collections.abc.Sequence): ...
class RealI(collections.abc.Iterable): ...
class RealTS(typing.Sequence[int]): ...
class RealTI(typing.Iterable[float]): ...
class Plain: ...
class Deep(MyC): ...
U = TypeVar("U")
class GC(Collection[U]): ...
class GS(Sequence[U]):
    def own(self) -> U: ...
class GCt(Container[U]): ...
class GRS(typing.Sequence[U]): ...
class GRI(typing.Iterable[U]): ...
class GRC(typing.Collection[U]): ...
class GDeep(GC[U]): ...

for c in [GC[int], GS[float], GCt[str], GRS[int], GRI[float], GRC[int], GDeep[int], GC, GRS, MyC, MyS, MyCt, RealS, RealI, RealTS, RealTI, Plain, Deep, Collection[int], Sequence[float], typing.Sequence[int], typing.List[int], int, Iterable[int], Any, Collection, object]:
    show("INH %s" % (c,), lambda: get_inherited(c))
    show("ITER %s" % (c,), lambda: is_iterable(c))
    show("UNW %s" % (c,), lambda: unwrap_iterable(c))
    show("NAME %s" % (c,), lambda: get_class_name(c))
    show("TD %s" % (c,), lambda: build_type_dict_from_type(c))
    for m in ["mine", "first", "c", "__len__", "nope"]:
        show("MC %s %s" % (c, m), lambda: get_method_and_class(c, m))

# ---- fix 3: lambdas wrapped on several lines
class S:
    def __init__(self): self.got = []
    def Select(self, f, *a):
        self.got.append(f); return self
    def Where(self, f, *a):
        self.got.append(f); return self
    def SelectMany(self, f):
        self.got.append(f); return self

def P(f, name="Select"):
    return ast.unparse(parse_as_ast(f, name))

def run(label, s, names=None):
    for i, f in enumerate(s.got):
        nm = names[i] if names else "Select"
        show("SRC %s[%d]" % (label, i), lambda: P(f, nm))
        show("SRCn %s[%d]" % (label, i), lambda: ast.unparse(parse_as_ast(f)))

ds = S()
ds.Select(lambda e: e.jets.Select(
    lambda j: j.pt)).Select(
    lambda e: e.met)
run("chain1", ds)

ds = S()
ds.Select(lambda e: e.jets.Select(
    lambda j: j.pt)).Select(lambda e: e.met)
run("chain2", ds)

ds = S()
ds.Select(lambda e: e.a).Select(lambda e: e.b)
run("oneline", ds)

ds = S()
(ds
 .Select(lambda e: e.a)
 .Select(lambda e: e.b)
 .Where(lambda e: e.c > 1)
)
run("paren", ds, ["Select", "Select", "Where"])

ds = S()
ds.Select(lambda e: e.a).Select(lambda f: f.b).Select(
    lambda e: e.c).Select(lambda e:
        e.d)
run("mixed", ds)

ds = S()
ds.Select(lambda e: e.a).Select(lambda e: e.a)
run("same", ds)

ds = S()
ds.Select(lambda e: e.a).Select(lambda e: e.b2)
run("ambig", ds)

ds = S()
ds.Select(lambda e: e.jets.Select(
    lambda j: j.pt)).Where(
    lambda e: e.met > 1).Select(lambda e:
    e.met * 2).SelectMany(lambda e: (
        e.x))
run("chain3", ds, ["Select", "Where", "Select", "SelectMany"])

ds = S()
ds.Select(lambda e: e.jets.Select(lambda j: j.pt).Select(
    lambda p: p * 2)).Select(
    lambda e: e.met,
)
run("nested", ds)

def deffn(e):
    return e.x + 1
ds = S()
ds.Select(deffn)
run("def", ds)

g = lambda e: e.zz
ds = S(); ds.Select(g)
run("assigned", ds)

ds = S()
ds.Select(lambda e: e.jets.Select(
    lambda j: j.pt)).Select(
    lambda e: e.jets.Select(
        lambda j: j.eta))
run("chain4", ds)

def wrap(f, g):
    return (f, g)
a, b = wrap(lambda x: x.a,
            lambda x: x.b)
show("wrap a", lambda: ast.unparse(parse_as_ast(a)))
show("wrap b", lambda: ast.unparse(parse_as_ast(b)))
show("wrap a n", lambda: ast.unparse(parse_as_ast(a, "wrap")))
show("wrap b n", lambda: ast.unparse(parse_as_ast(b, "wrap")))
show("str", lambda: ast.unparse(parse_as_ast("lambda x: x + 1")))
