import ast, sys, typing, dataclasses
from typing import Iterable, TypeVar, Generic, List
from func_adl import ObjectStream
from func_adl.util_ast import parse_as_ast, function_call
from func_adl.type_based_replacement import remap_by_types
from func_adl.util_types import get_inherited, get_method_and_class, unwrap_iterable

out = []
def rec(label, f):
    try:
        r = f()
        out.append((label, "ok", r))
    except Exception as e:
        out.append((label, "exc", type(e).__name__ + ": " + str(e)))

def d(a):
    return ast.dump(a)

class Jet:
    def pt(self) -> float: ...
class Evt:
    @property
    def jets(self) -> Iterable[Jet]: ...
    @property
    def met(self) -> float: ...

class ds_c(ObjectStream[Evt]):
    def __init__(self):
        super().__init__(ast.Name(id="ds"), Evt)

ds = ds_c()

# --- fix 3: wrapped chain
def f1():
    r = ds.Select(lambda e: e.jets.Select(
        lambda j: j.pt())).Select(
        lambda e: e.met)
    return d(r.query_ast)
rec("wrapped chain", f1)

def f2():
    r = (ds
         .Select(lambda e: e.jets)
         .Select(lambda e: e.Select(lambda j: j.pt()))
         .Where(lambda e: e.Count() > 0))
    return d(r.query_ast)
rec("paren chain", f2)

def f3():
    r = ds.Select(lambda e: e.met).Select(lambda e: e + 1)
    return d(r.query_ast)
rec("two on a line", f3)

def f4():
    r = ds.Select(lambda e: e.met).Select(lambda e: e.met)
    return d(r.query_ast)
rec("two identical on a line", f4)

def f5():
    r = ds.Select(lambda e: e.met).Select(lambda e: e + 2)
    return d(r.query_ast)
rec("two different same-args one line", f5)

def f6():
    r = ds.Select(
        lambda e:
        e.met
    ).Select(
        lambda e: e * 2)
    return d(r.query_ast)
rec("multi-line lambda", f6)

def f7():
    r = ds.Select(lambda e: e.jets.Select(
        lambda j: j.pt())).Where(
        lambda e: e.Count() > 1).Select(lambda q: q.Count()
        ).Select(lambda x: x + 1)
    return d(r.query_ast)
rec("wrapped chain 2", f7)

def f8():
    g = lambda x: x + 1
    h = lambda x, y: x + y
    return d(parse_as_ast(g)) + d(parse_as_ast(h))
rec("bare lambdas", f8)

def f9():
    def foo(x):
        return x + 1
    return d(parse_as_ast(foo))
rec("def", f9)

def f10():
    def foo(x): return (lambda y: y)(x)
    return d(parse_as_ast(foo))
rec("oneline def with lambda", f10)

def f11():
    fs = [lambda a: a + 1,
          lambda a: a + 2,
          lambda b: b + 3]
    return [ (lambda: d(parse_as_ast(f)))() for f in fs[2:]]
rec("list of lambdas, 3rd", f11)

def f11b():
    fs = [lambda a: a + 1,
          lambda a: a + 2,
          lambda b: b + 3]
    return d(parse_as_ast(fs[1]))
rec("list of lambdas, 2nd", f11b)

def f11c():
    fs = [lambda a: a + 1,
          lambda a: a + 2,
          lambda b: b + 3]
    return d(parse_as_ast(fs[0]))
rec("list of lambdas, 1st", f11c)

def f12():
    r = ds.Select(lambda e: e.met).Select(lambda e: e.met, )
    return d(parse_as_ast(lambda e: e.met, "Select"))
rec("caller name", f12)

def f13():
    return d(parse_as_ast(lambda e: e.met, "NoSuch"))
rec("caller name wrong", f13)

def f14():
    return d(parse_as_ast((lambda e: e.met), None))
rec("caller none", f14)

def f15():
    r = ds.Select(lambda e: e.jets.Select(
        lambda j: j.pt())).Select(
        lambda e: e.met,
    )
    return d(r.query_ast)
rec("wrapped chain trailing comma", f15)

def f16():
    r = ds.Select(lambda e: e.jets.Select(
        lambda j: j.pt())).Select(
        lambda e: e.Select(lambda j: j + 1)).Select(lambda e: e.Count())
    return d(r.query_ast)
rec("wrapped chain 3", f16)

def f17():
    r = ds.Select(lambda e: e.jets.Select(
        lambda j: j.pt())).Select(lambda e: e.Count()).Select(
        lambda e: e + 1).Select(lambda e: e + 2)
    return d(r.query_ast)
rec("wrapped chain 4", f17)

# --- fix 1: dataclass methods
@dataclasses.dataclass
class DC:
    x: int
    y: float
    def eta(self) -> float: ...

class ds_dc(ObjectStream[DC]):
    def __init__(self):
        super().__init__(ast.Name(id="ds"), DC)

def g1():
    s, a, t = remap_by_types(ds_dc(), "e", DC, ast.parse("e.eta()").body[0].value)
    return d(a), str(t)
rec("dc method", g1)
def g2():
    s, a, t = remap_by_types(ds_dc(), "e", DC, ast.parse("e.x").body[0].value)
    return d(a), str(t)
rec("dc field", g2)
def g3():
    s, a, t = remap_by_types(ds_dc(), "e", DC, ast.parse("e.zz").body[0].value)
    return d(a), str(t)
rec("dc missing", g3)
def g4():
    s, a, t = remap_by_types(ds_dc(), "e", DC, ast.parse("e.zz()").body[0].value)
    return d(a), str(t)
rec("dc missing call", g4)
def g5():
    r = ds_dc().Select(lambda e: e.eta()).Select(lambda v: v + 1)
    return d(r.query_ast)
rec("dc method stream", g5)
def g6():
    r = ds_dc().Select(lambda e: {"a": e.x, "b": e.y}).Select(lambda v: v.a + v.b)
    return d(r.query_ast)
rec("dict", g6)
def g7():
    r = ds_dc().Select(lambda e: {"a": e.x, "b": e.y}).Select(lambda v: v.c)
    return d(r.query_ast)
rec("dict missing", g7)
def g8():
    r = ds_dc().Select(lambda e: {"a": e.x, "b": e.y}).Select(lambda v: v.keys)
    return d(r.query_ast)
rec("dict attr", g8)

# --- fix 2: user's generic Collection etc.
T = TypeVar("T")
class Collection(Generic[T]):
    def first(self) -> T: ...
class Sequence(Generic[T]):
    def first(self) -> T: ...
class MyList(Collection[T]):
    pass
class MySeq(Sequence[int]):
    pass
import collections.abc
class RealSeq(collections.abc.Sequence):
    pass
class RealIt(typing.Iterable[int]):
    pass
class RealIt2(collections.abc.Iterable):
    pass

for label, t in [("MyList[int]", MyList[int]), ("MySeq", MySeq), ("RealSeq", RealSeq),
                 ("RealIt", RealIt), ("RealIt2", RealIt2), ("List[int]", List[int]), ("int", int),
                 ("Collection[int]", Collection[int]), ("Iterable[float]", Iterable[float])]:
    rec("inh " + label, lambda t=t: str(get_inherited(t)))
    rec("meth " + label, lambda t=t: str(get_method_and_class(t, "first")))
    rec("unwrap " + label, lambda t=t: str(unwrap_iterable(t)))

for o in out:
    print(o)
