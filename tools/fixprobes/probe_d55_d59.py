"""behaviour of the repairs D55-D59 through public functions (unary not, kw-only dataclass fields, bare Iterable, keyword
lambda to a nested stream operator, variadic parameters)"""
import ast, logging
from dataclasses import dataclass, field
from typing import Iterable, NamedTuple
from func_adl import ObjectStream
from func_adl.ast.syntatic_sugar import resolve_syntatic_sugar
from func_adl.type_based_replacement import remap_by_types
from func_adl.util_ast import parse_as_ast

logging.disable(logging.CRITICAL)


def show(tag, f):
    try:
        print(tag, f())
    except BaseException as ex:  # noqa
        print(tag, "EXC", type(ex).__name__, str(ex)[:160])


class Jet:
    def pt(self, unit: str = "GeV") -> float: ...


class Track:
    def va(self, a: int = 1, *rest) -> float: ...
    def vk(self, a: int = 1, **opts) -> float: ...
    def req(self, a: int, *rest) -> float: ...
    def kwo(self, a: int = 1, *rest, k: int = 2) -> float: ...


class Event:
    def EventNumber(self) -> int: ...
    def met(self) -> float: ...
    def good(self) -> bool: ...
    def things(self) -> Iterable: ...
    def Jets(self) -> Iterable[Jet]: ...
    def Tracks(self) -> Iterable[Track]: ...


ds = ObjectStream[Event](ast.Name("ds"), Event)
# D55
for q in ("lambda e: not e.EventNumber()", "lambda e: not e.good()", "lambda e: -e.met()", "lambda e: -e.EventNumber()", "lambda e: ~e.EventNumber()", "lambda e: not (e.met() > 1)", "lambda e: +e.met()"):
    show("sel " + q, lambda: ds.Select(q).item_type)
    show("whr " + q, lambda: ast.unparse(ds.Where(q).query_ast))


# D56
@dataclass
class Mid:
    x: int
    y: int = field(default=0, kw_only=True)
    z: int = 0


@dataclass(kw_only=True)
class AllKw:
    a: int
    b: int = 1


@dataclass
class Plain:
    a: int
    b: int = 1


class NT(NamedTuple):
    a: int
    b: int = 2


def m1(e): return Mid(e.a, e.b, e.c)
def m2(e): return Mid(e.a, e.b, y=e.c)
def m3(e): return Mid(e.a, y=e.c)
def m4(e): return Mid(e.a, e.b)
def m5(e): return AllKw(e.a)
def m6(e): return AllKw(a=e.a, b=e.b)
def m7(e): return Plain(e.a, e.b)
def m8(e): return Plain(e.a, e.b, e.c)
def m9(e): return NT(e.a, e.b)
def m10(e): return NT(e.a, e.b, e.c)
def m11(e): return Plain(e.a, a=e.b)
def m12(e): return Mid(x=e.a, z=e.b, y=e.c)


for f in (m1, m2, m3, m4, m5, m6, m7, m8, m9, m10, m11, m12):
    show("dc " + f.__name__, lambda: ast.unparse(resolve_syntatic_sugar(parse_as_ast(f))))


# D57
def follow(src, ev=Event):
    s = ObjectStream[ev](ast.Name("e"), ev)
    n, a, t = remap_by_types(s, {"e": ev}, ast.parse(src).body[0].value)
    return ast.unparse(a), str(t)


for q in ("e.things().Count()", "e.things().First()", "e.things()[0]", "e.things().Select(lambda t: t.x)", "e.things().Where(lambda t: t.x > 1)", "e.Jets().First().pt()"):
    show("bare " + q, lambda: follow(q))
show("bare SelectMany", lambda: str(ds.SelectMany(lambda e: e.things()).item_type))
show("SelectMany jets", lambda: str(ds.SelectMany(lambda e: e.Jets()).item_type))
# D58
for q in ("e.Jets().Select(f=lambda j: j.pt())", "e.Jets().Select(lambda j: j.pt())", "e.Jets().Where(filter=lambda j: j.pt() > 1).Count()", "e.Jets().Where(lambda j: j.pt() > 1).Count()", "e.Jets().Where(filter=lambda j: j.pt() > 1)", "e.Jets().Select(f=lambda j: j.pt()).Count()", "e.Jets().Count()", "e.Jets().First()", "e.Jets().Select(g=lambda j: j.pt())", "e.Jets().SelectMany(func=lambda j: e.Jets())", "e.Jets().Select(lambda j: j.pt(), 1)"):
    show("kw " + q, lambda: follow(q))
# D59
for q in ("lambda e: e.Tracks().Select(lambda t: t.va())", "lambda e: e.Tracks().Select(lambda t: t.va(1, 2, 3))", "lambda e: e.Tracks().Select(lambda t: t.vk())", "lambda e: e.Tracks().Select(lambda t: t.vk(x=2))", "lambda e: e.Tracks().Select(lambda t: t.req())", "lambda e: e.Tracks().Select(lambda t: t.req(5))", "lambda e: e.Tracks().Select(lambda t: t.kwo())", "lambda e: e.Tracks().Select(lambda t: t.kwo(k=5))", "lambda e: e.Tracks().Select(lambda t: t.va(a=4))"):
    show("var " + q, lambda: ast.unparse(ds.Select(q).query_ast))
