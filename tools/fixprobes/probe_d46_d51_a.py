"""Behaviour of the six fixes HEAD~5..HEAD - prints one line per probe."""
import ast
import functools
import logging
from dataclasses import dataclass
from enum import Enum
from typing import Any, Generic, Iterable, Tuple, TypeVar

from func_adl import ObjectStream, func_adl_callback
from func_adl.ast.syntatic_sugar import resolve_syntatic_sugar
from func_adl.type_based_replacement import (
    fixup_ast_from_modifications,
    remap_by_types,
    remap_from_lambda,
)
from func_adl.util_ast import as_ast, parse_as_ast, rewrite_func_as_lambda
from func_adl.util_types import get_method_and_class

logging.disable(logging.CRITICAL)
out = []


def probe(label, f):
    try:
        out.append(f"{label}: {f()}")
    except Exception as e:
        out.append(f"{label}: EXC {type(e).__name__}: {e}")


# 1 fixup_ast_from_modifications copies all arguments
def t1():
    orig = ast.parse("e.f(a, b)").body[0].value
    new = ast.parse("e.g(c, b, d, k=1)").body[0].value
    new._old_ast = orig
    wrapper = ast.parse("x").body[0]
    wrapper.value = new
    top = ast.parse("top()").body[0].value
    r = fixup_ast_from_modifications(wrapper, top)
    return ast.unparse(orig) + " | " + ast.unparse(r)


probe("fixup", t1)


def cb_replace(s: ObjectStream, a: ast.Call) -> Tuple[ObjectStream, ast.Call]:
    new_a = ast.Call(
        func=a.func, args=[ast.Constant(99)] + list(a.args[1:]) + [ast.Constant(7)], keywords=[]
    )
    return s.MetaData({"m": 1}), new_a


class Jet1:
    @func_adl_callback(cb_replace)
    def pt(self, x: int) -> float:
        ...


class Evt1:
    def Jets(self) -> Iterable[Jet1]:
        ...


def t1b():
    s = ObjectStream[Evt1](ast.Name("e", ast.Load()), Evt1)
    q = s.Select(lambda e: e.Jets().Select(lambda j: j.pt(1)))
    return ast.unparse(q.query_ast)


probe("fixup-query", t1b)

# 2 get_method_and_class with mixin
T = TypeVar("T")


class Named:
    def name(self) -> str:
        ...


class Coll(Generic[T]):
    def get(self) -> T:
        ...


class Jet:
    def pt(self) -> float:
        ...


class JetColl(Named, Coll[Jet]):
    pass


class Over(Named, Coll[Jet]):
    def get(self) -> Jet:
        ...


probe("gmc-mixin", lambda: get_method_and_class(JetColl, "get")[0].__name__)
probe("gmc-name", lambda: get_method_and_class(JetColl, "name")[0].__name__)
probe("gmc-over", lambda: get_method_and_class(Over, "get")[0].__name__)
probe("gmc-none", lambda: get_method_and_class(JetColl, "nope"))


class Evt2:
    def jets(self) -> JetColl:
        ...


def t2():
    s = ObjectStream[Evt2](ast.Name("e", ast.Load()), Evt2)
    q = s.Select(lambda e: e.jets().get().pt())
    return f"{q.item_type} {ast.unparse(q.query_ast)}"


probe("gmc-query", t2)

# 3 normalised call kept without return type
U = TypeVar("U")


class MyColl(Generic[U]):
    pass


class Evt3:
    def coll(self, n: int = 3) -> MyColl[U]:  # type: ignore
        ...

    def plain(self, n: int = 3, m: int = 4) -> float:
        ...


def t3(src):
    def f():
        s = ObjectStream[Evt3](ast.Name("e", ast.Load()), Evt3)
        _, new_a, rt = remap_by_types(s, {"e": Evt3}, ast.parse(src).body[0].value)
        return f"{ast.unparse(new_a)} -> {rt}"

    return f


probe("norm-coll", t3("e.coll()"))
probe("norm-coll-kw", t3("e.coll(n=5)"))
probe("norm-plain", t3("e.plain(m=1)"))
probe("norm-unknown", t3("e.nothing(1)"))
probe("norm-any", lambda: ast.unparse(remap_by_types(ObjectStream[Any](ast.Name("e", ast.Load())), {"e": Any}, ast.parse("e.x(1).y()").body[0].value)[1]))


# 4 dataclass twice / star
@dataclass
class P:
    x: float
    y: float = 0.0


def t4(fn):
    def f():
        a = parse_as_ast(fn)
        return ast.unparse(resolve_syntatic_sugar(a))

    return f


probe("dc-ok", t4(lambda e: P(e.a, y=e.b).x))
probe("dc-kw", t4(lambda e: P(y=e.a, x=e.b).x))
probe("dc-twice", t4(lambda e: P(e.a, x=e.b).x))
probe("dc-twice2", t4(lambda e: P(e.a, e.c, y=e.b).x))
probe("dc-star", t4(lambda e: P(*e.a).x))
probe("dc-star2", t4(lambda e: P(e.b, *e.a).x))
probe("dc-unknown", t4(lambda e: P(e.a, z=e.b).x))
probe("dc-toomany", t4(lambda e: P(e.a, e.b, e.c).x))


# 5 as_ast
class Col(str, Enum):
    PT = "pt"
    CODE = "e.Jets()"


class Col2(str, Enum):
    PT = "pt"

    def __repr__(self):
        return "Col2.PT"


class SubList(list):
    pass


for label, v in [
    ("enum", Col.PT),
    ("enum-code", Col.CODE),
    ("enum2", Col2.PT),
    ("list-enum", [Col.PT, "x"]),
    ("tuple-enum", (Col.PT,)),
    ("tuple0", ()),
    ("tuple2", ("a", 1)),
    ("dict-enum", {Col.PT: [Col2.PT, (1, 2)]}),
    ("str", "it's \"q\"\n"),
    ("int", 5),
    ("float", 1.5),
    ("none", None),
    ("bool", True),
    ("bytes", b"ab"),
    ("sublist", SubList([1, "a"])),
    ("set", {1}),
    ("nested", [1, [2, {"a": (3,)}]]),
    ("neg", -1),
    ("complex", 1j),
]:
    probe("as_ast-" + label, lambda v=v: ast.dump(as_ast(v)))


# 6 decorated / annotations
def in_gev(f):
    @functools.wraps(f)
    def w(*a, **k):
        return f(*a, **k) / 1000.0

    return w


@in_gev
def jet_pt(j):
    return j.pt()


def ann(j: Jet, k: int = 3, *rest: int, kw: float = 2.0, **more: str) -> float:
    return j.pt() + k


def pos(j: Jet, /, k: "int"):
    return j.pt() + k


def t6(src):
    def f():
        fd = ast.parse(src).body[0]
        lam = rewrite_func_as_lambda(fd)
        return ast.unparse(lam) + " || " + ast.unparse(fd)

    return f


probe("deco-raw", t6("@in_gev\ndef jet_pt(j):\n    return j.pt()"))
probe("ann-raw", t6("def ann(j: Jet, k: int = 3, *rest: int, kw: float = 2.0, **more: str) -> float:\n    return j.pt() + k"))
probe("pos-raw", t6("def pos(j: Jet, /, k: 'int'):\n    return j.pt() + k"))
probe("plain-raw", t6("def f(j, k=1):\n    'doc'\n    return j.pt() + k"))
def q1():
    return ast.unparse(parse_as_ast(lambda j: jet_pt(j)))


def q2():
    return ast.unparse(parse_as_ast(lambda j: ann(j)))


def q3():
    return ast.unparse(parse_as_ast(lambda j: pos(j, 2)))


def q4():
    s = ObjectStream[Evt2](ast.Name("e", ast.Load()), Evt2)
    return ast.unparse(s.Select(lambda e: ann(e.jets().get(), 5)).query_ast)


probe("deco-q", q1)
probe("ann-q", q2)
probe("pos-q", q3)
probe("ann-stream", q4)

print("\n".join(out))
