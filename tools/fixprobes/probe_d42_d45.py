import ast, sys
from func_adl.ast.function_simplifier import make_args_unique, simplify_chained_calls
from func_adl.ast.meta_data import remove_empty_metadata
from func_adl.util_ast import parse_as_ast
import func_adl.ast.function_simplifier as fs

out = []
def reset(): fs.argument_var_counter = 0
for src in ["lambda a: (lambda *a: a)(1)", "lambda a: (lambda **a: a)(x=1)", "lambda a: (lambda a, /: a)(1)",
            "lambda a: (lambda *, a: a)(a=1)", "lambda a, b: (lambda b, /, *a, c, **d: a+b+c+d)(1) + a + b",
            "lambda a: (lambda a: a)(a) + (lambda b: a)(1)"]:
    reset()
    out.append(ast.unparse(make_args_unique(ast.parse(src).body[0].value)))
for src in ["(lambda a: (lambda *a: a)(1))(5)", "Select(Select(jets, lambda j: j.pt), lambda p: (lambda *p: p)(1))"]:
    reset()
    try:
        out.append(ast.unparse(simplify_chained_calls().visit(ast.parse(src).body[0].value)))
    except Exception as e:
        out.append("EXC " + repr(e))
for src in ["MetaData(jets, {'a': x})", "MetaData(jets, {})", "MetaData(jets, inf)", "MetaData(MetaData(jets, {}), {'a': 1})",
            "MetaData(jets, dict())", "MetaData(jets, [])", "MetaData(jets)", "Select(MetaData(jets, {}), lambda j: MetaData(j, {}))"]:
    try:
        out.append(ast.unparse(remove_empty_metadata(ast.parse(src).body[0].value)))
    except Exception as e:
        out.append("EXC " + repr(e))

g_cut = 30
def passes(j): return j.pt > g_cut
def passes2(j): return passes(j) and j.eta < g_cut
def rec(j): return rec(j.parent) if j.pt > g_cut else j
def mutual_a(j): return mutual_b(j) + 1
def mutual_b(j): return mutual_a(j) + g_cut
def mk():
    local_cut = 55
    def inner(j): return j.pt > local_cut + g_cut
    return inner
inner = mk()
def cap(f):
    try:
        out.append(ast.unparse(parse_as_ast(f, "cap")))
    except Exception as e:
        out.append("EXC " + repr(e))
cap(lambda j: passes(j))
cap(lambda j: passes2(j))
cap(lambda j: rec(j))
cap(lambda j: mutual_a(j))
cap(lambda j: inner(j))
cap(lambda j: passes(j) and passes(j.other))
cap(lambda j: unknown_thing(j))
cap(lambda j: abs(j.pt) > g_cut)
print("\n".join(out))
