import ast, copy, enum, functools, logging, dataclasses
from typing import Any, Callable, Iterable, Tuple, TypeVar, Generic, NamedTuple
from func_adl import ObjectStream, func_adl_callback
from func_adl.type_based_replacement import remap_by_types, func_adl_callable
from func_adl.util_ast import as_ast, parse_as_ast, rewrite_func_as_lambda
from func_adl.util_types import get_method_and_class
from func_adl.ast.syntatic_sugar import resolve_syntatic_sugar

logging.disable(logging.CRITICAL)
out = []
def rec(label, f):
    try:
        out.append(f"{label}: {f()}")
    except Exception as e:
        out.append(f"{label}: EXC {type(e).__name__} {e}")

def L(s): return ast.parse(s).body[0].value

# --- fix 1: all args copied back
T = TypeVar("T")
def replace_arg(s, a: ast.Call):
    new_a = copy.copy(a)
    new_a.args = [ast.Constant(value="replaced")] + list(a.args[1:])
    return s.MetaData({"k": "v"}), new_a

class Jet:
    def pt(self) -> float: ...
    @func_adl_callback(replace_arg)
    def tag(self, name: str, extra: int = 2) -> float: ...

class Named:
    def name(self) -> str: ...

class Coll(Generic[T]):
    def get(self, i: int = 0) -> T: ...

class JetColl(Named, Coll[Jet]):
    pass

U = TypeVar("U")
class MyColl: ...
class Event:
    def Jets(self, bank: str = "default") -> Iterable[Jet]: ...
    def jc(self) -> JetColl: ...
    def coll(self, n: int = 3) -> U: ...
    def first(self) -> Jet: ...

def remap(src, var="e", typ=Event):
    objs = ObjectStream(ast.Name(id=var, ctx=ast.Load()), typ)
    new_objs, new_s, t = remap_by_types(objs, {var: typ}, L(src))
    return f"{ast.unparse(new_s)} | {ast.unparse(new_objs.query_ast)} | {t}"

rec("f1a", lambda: remap("e.Jets().Select(lambda j: j.tag('user'))"))
rec("f1b", lambda: remap("e.first().tag('user')"))
rec("f1c", lambda: remap("e.Jets().Select(lambda j: j.tag('user', 5) + 1)"))
rec("f1d", lambda: remap("ds.Select(lambda e: e.Jets().Select(lambda j: j.tag('user')))", "ds", Iterable[Event]))
# --- fix 2: MRO
rec("f2a", lambda: get_method_and_class(JetColl, "get")[0].__name__)
rec("f2b", lambda: get_method_and_class(JetColl, "name")[0].__name__)
rec("f2c", lambda: get_method_and_class(JetColl, "nope"))
rec("f2d", lambda: remap("e.jc().get().pt()"))
# --- fix 3: normalised call kept
rec("f3a", lambda: remap("e.coll()"))
rec("f3b", lambda: remap("e.coll(n=7)"))
# --- fix 4: dataclass
@dataclasses.dataclass
class P:
    x: int
    y: int
class NT(NamedTuple):
    x: int
    y: int
def sugar(src, **kw):
    a = L(src)
    class R(ast.NodeTransformer):
        def visit_Name(self, n):
            if n.id in kw:
                return ast.Constant(value=kw[n.id])
            return n
    a = R().visit(a)
    return ast.unparse(resolve_syntatic_sugar(a))
rec("f4a", lambda: sugar("P(e.a, x=e.b)", P=P))
rec("f4b", lambda: sugar("P(*e.a)", P=P))
rec("f4c", lambda: sugar("P(e.a, y=e.b)", P=P))
rec("f4d", lambda: sugar("NT(e.a, x=e.b)", NT=NT))
rec("f4e", lambda: sugar("NT(*e.a)", NT=NT))
rec("f4f", lambda: sugar("P(e.a, z=e.b)", P=P))
rec("f4g", lambda: sugar("P(e.a, e.b, e.c)", P=P))
rec("f4h", lambda: sugar("P(y=e.a, x=e.b)", P=P))
# --- fix 5: as_ast
class Col(str, enum.Enum):
    PT = "pt"
class S2(str):
    def __repr__(self): return "S2!"
rec("f5a", lambda: ast.dump(as_ast(Col.PT)))
rec("f5b", lambda: ast.dump(as_ast([Col.PT, 1, "a"])))
rec("f5c", lambda: ast.dump(as_ast((Col.PT, 2.5))))
rec("f5d", lambda: ast.dump(as_ast({Col.PT: S2("x"), "k": [1, (2, "b")]})))
rec("f5e", lambda: ast.dump(as_ast("it's \\ \"q\"")))
rec("f5f", lambda: ast.dump(as_ast(5)))
rec("f5g", lambda: ast.dump(as_ast(-1.5)))
rec("f5h", lambda: ast.dump(as_ast(None)))
rec("f5i", lambda: ast.dump(as_ast([])))
rec("f5j", lambda: ast.dump(as_ast(())))
rec("f5k", lambda: ast.dump(as_ast({})))
rec("f5l", lambda: ast.dump(as_ast(S2("zz"))))
rec("f5m", lambda: ast.dump(as_ast(True)))
# --- fix 6: decorated / annotations
def in_gev(f):
    @functools.wraps(f)
    def w(*a, **k): return f(*a, **k) / 1000.0
    return w
@in_gev
def jet_pt(j): return j.pt()
def plain(j: Jet, k: int = 3, *rest: int, kw: float = 2.0, **more: Any) -> float: return j.pt() + k + kw
def posonly(j: Jet, /, k: int = 1): return j.pt() + k
def FD(src): return ast.parse(src).body[0]
rec("f6a", lambda: ast.unparse(rewrite_func_as_lambda(FD("@deco\ndef f(j): return j.pt()"))))
rec("f6b", lambda: ast.unparse(rewrite_func_as_lambda(FD("def f(j: Jet, k: int = 3, *rest: int, kw: float = 2.0, **more: Any) -> float: return j.pt() + k"))))
rec("f6c", lambda: ast.unparse(rewrite_func_as_lambda(FD("def f(j: Jet, /, k: int = 1, *, z: int): return j.pt() + k"))))
rec("f6d", lambda: ast.unparse(rewrite_func_as_lambda(FD("def f(j):\n  'doc'\n  return j.pt()"))))
rec("f6e", lambda: ast.unparse(rewrite_func_as_lambda(FD("def f(j):\n  x = 1\n  return j.pt()"))))
rec("f6f", lambda: ast.unparse(rewrite_func_as_lambda(FD("def f(j):\n  j.pt()"))))
def cap(label, f):
    rec(label, lambda: ast.unparse(parse_as_ast(f)))
cap("f6g", lambda j: jet_pt(j))
cap("f6h", lambda j: plain(j))
cap("f6i", lambda j: posonly(j, 2))
fd = FD("def f(j: Jet, k: int = 3): return j.pt() + k")
rec("f6j", lambda: (rewrite_func_as_lambda(fd), ast.unparse(fd))[1])
print("\n".join(out))
