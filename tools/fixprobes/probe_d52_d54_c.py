import ast, sys, typing, collections.abc
from dataclasses import dataclass
from typing import Iterable, TypeVar, Generic
from func_adl import ObjectStream, func_adl_callable
from func_adl.util_ast import parse_as_ast
from func_adl.util_types import get_inherited
from func_adl.type_based_replacement import remap_by_types

out = []
def rec(label, f):
    try:
        r = f()
    except Exception as e:
        r = f"EXC {type(e).__name__}: {e}"
    out.append(f"{label}: {r}")

class Cap:
    def __init__(self): self.got = []
    def Select(self, f):
        try:
            self.got.append(ast.dump(parse_as_ast(f, "Select")))
        except Exception as e:
            self.got.append(f"EXC {type(e).__name__}: {e}")
        return self
    def Where(self, f):
        try:
            self.got.append(ast.dump(parse_as_ast(f, "Where")))
        except Exception as e:
            self.got.append(f"EXC {type(e).__name__}: {e}")
        return self

ds = Cap()
ds.Select(lambda e: e.jets.Select(
    lambda j: j.pt)).Select(
    lambda e: e.met)
out.append(("wrapped1", ds.got))

ds = Cap()
ds.Select(lambda e: e.a).Select(lambda f: f.b)
out.append(("oneline", ds.got))

ds = Cap()
ds.Select(lambda e: e.a).Select(lambda e: e.b)
out.append(("oneline-dup", ds.got))

ds = Cap()
(ds
 .Select(lambda e: e.a)
 .Where(lambda e: e.b > 1)
 .Select(lambda e: (e.c,
                    e.d))
 .Select(lambda e: e.x.Select(lambda q: q.y
                              + 1))
 )
out.append(("paren-chain", ds.got))

ds = Cap()
ds.Select(lambda e: e.jets.Where(
    lambda j: j.pt > 1).Select(lambda j:
    j.eta)).Where(lambda e: e.x).Select(
    lambda e: e.met).Select(lambda e: e.z)
out.append(("wrapped2", ds.got))

ds = Cap()
ds.Select(
    lambda e: e.a1
).Select(
    lambda e: e.a2
)
out.append(("black-style", ds.got))

ds = Cap()
ds.Select(lambda e: [
    e.a, e.b]).Select(lambda e: {
    'x': e.c}).Select(
    lambda e: e.q)
out.append(("wrapped3", ds.got))

def named(x): return x + 1
rec("def", lambda: ast.dump(parse_as_ast(named)))
def ident(*a): return a
f1 = ident(lambda x: x * 2)[0]
rec("assigned", lambda: ast.dump(parse_as_ast(f1)))
g1, g2 = ident(lambda x: x * 3, lambda y: y * 4)
rec("assigned2", lambda: ast.dump(parse_as_ast(g2)))
rec("assigned2b", lambda: ast.dump(parse_as_ast(g1)))

# util_types fix
T = TypeVar("T")
class Collection(Generic[T]):
    def mine(self) -> int: ...
class Sequence(Collection[T]):
    def other(self) -> float: ...
class MyIt(collections.abc.Iterable):
    pass
class MyIt2(Iterable[int]):
    pass
for t in [Sequence[int], Sequence, Collection[int], MyIt, MyIt2, typing.List[int], Iterable[int]]:
    rec(f"inherit {t}", lambda: repr(get_inherited(t)))

# dataclass fix
@dataclass
class Jet:
    pt: float
    def eta(self) -> float: ...
    @property
    def prop(self) -> int: ...
class Evt:
    def jet(self) -> Jet: ...
def do(src):
    s = ObjectStream[Evt](ast.Name(id="e", ctx=ast.Load()))
    def go():
        _, new_a, rt = remap_by_types(s, {"e": Evt}, ast.parse(src.split(":",1)[1].strip()).body[0].value)
        return ast.dump(new_a) + " -> " + str(rt)
    rec("dc " + src, go)
do("lambda e: e.jet().pt")
do("lambda e: e.jet().pt + e.jet().eta()")
do("lambda e: e.jet().__class__")
do("lambda e: e.jet().eta()")
do("lambda e: e.jet().prop")
do("lambda e: e.jet().nothere")
do("lambda e: e.jet().nothere()")

for o in out:
    print(o)
