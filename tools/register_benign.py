#!/venv/bin/python
"""Confirm and register behaviour-preserving refactorings: register_benign.py <dir> <round>
(<dir> has <name>.diff and <name>.json; each is applied to a fresh worktree of /repo HEAD, the 412 tests must pass)"""
import json, os, shutil, subprocess, sys, tempfile, glob
VERIF = os.path.dirname(os.path.dirname(os.path.abspath(__file__)))
src, rnd = sys.argv[1], int(sys.argv[2])
vp = os.path.join(VERIF, "sa/selftest/variants.json")
d = json.load(open(vp))
names = {v["name"] for v in d["variants"]}
for patch in sorted(glob.glob(os.path.join(src, "*.diff"))):
    base = os.path.basename(patch)[:-5]
    name = f"benign-{base}"
    wt = tempfile.mkdtemp(prefix="rb_", dir="/tmp"); shutil.rmtree(wt)
    try:
        subprocess.run(f"git -C /repo worktree add -q --detach {wt} HEAD", shell=True, check=True)
        r = subprocess.run(f"git apply {patch}", shell=True, cwd=wt, capture_output=True, text=True)
        if r.returncode:
            print(name, "APPLY-FAIL", r.stderr[:200]); continue
        t = subprocess.run("/venv/bin/python -m pytest -q -p no:cacheprovider 2>&1 | tail -1", shell=True, cwd=wt, env=dict(os.environ, PYTHONPATH=wt), capture_output=True, text=True).stdout.strip()
        if "412 passed" not in t:
            print(name, "TESTS-FAIL", t); continue
    finally:
        subprocess.run(f"git -C /repo worktree remove --force {wt}", shell=True)
        shutil.rmtree(wt, ignore_errors=True)
    dst = os.path.join(VERIF, "sa/selftest/benign", name + ".diff")
    shutil.copy(patch, dst)
    meta = {}
    if os.path.exists(patch[:-5] + ".json"):
        try: meta = json.load(open(patch[:-5] + ".json"))
        except Exception: meta = {}
    if name not in names:
        d["variants"].append({"name": name, "kind": "benign", "patch": f"sa/selftest/benign/{name}.diff", "expect": [], "note": (str(meta.get("style", "")) + ": " + str(meta.get("summary", "")))[:300], "round": rnd})
    print(name, "OK", t)
json.dump(d, open(vp, "w"), indent=1)
