#!/venv/bin/python
"""debug aid: run one rule module against a scratch copy with one variant applied and print the traceback: tb.py <variant> Cxx"""
import importlib, os, shutil, sys, traceback
sys.path.insert(0, os.path.dirname(os.path.dirname(os.path.abspath(__file__))))
from sa import selftest
from sa.model import get_model
from sa.report import Run
v = [x for x in selftest.load_variants() if x["name"] == sys.argv[1]][0]
sc = selftest._make_scratch(os.environ.get("FUNC_ADL_REPO", "/repo"))
try:
    selftest._apply(sc, os.path.join(selftest.VERIF, v["patch"]), bool(v.get("reverse")))
    m = get_model(sc)
    mod = importlib.import_module("sa.rules." + sys.argv[2].lower())
    run = Run(sys.argv[2], m)
    try:
        mod.check(run)
    except Exception:
        traceback.print_exc()
    for f in run.findings:
        print(f.rule, f.construct, f.message[:300])
finally:
    shutil.rmtree(sc, ignore_errors=True)
