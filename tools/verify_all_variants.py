#!/venv/bin/python
"""Every variant still is what it claims to be on /repo HEAD: applies, the 412 tests pass (reverts excepted: they
re-introduce a defect the tests do not see either - checked too), seeded demonstrations exit 0 without and non-zero with the change."""
import json, os, subprocess, shutil, tempfile, sys, concurrent.futures as cf
VERIF = os.path.dirname(os.path.dirname(os.path.abspath(__file__)))
v = json.load(open(os.path.join(VERIF, "sa/selftest/variants.json")))["variants"]
def sh(c, cwd, env=None):
    e = dict(os.environ); e.update(env or {})
    r = subprocess.run(c, shell=True, cwd=cwd, capture_output=True, text=True, env=e); return r.returncode, r.stdout + r.stderr
def one(x):
    wt = tempfile.mkdtemp(prefix="va_", dir="/tmp"); shutil.rmtree(wt)
    sh(f"git -C /repo worktree add -q --detach {wt} HEAD", "/")
    try:
        env = {"PYTHONPATH": wt}
        p = os.path.join(VERIF, x["patch"])
        demo = os.path.join(os.path.dirname(p), "demo.py") if x["kind"] == "seeded" else None
        rc0 = sh(f"/venv/bin/python {demo}", wt, env)[0] if demo else 0
        rc, o = sh(f"git apply {'-R ' if x.get('reverse') else ''}{p}", wt)
        if rc: return x["name"], "APPLY-FAIL"
        rc, t = sh("/venv/bin/python -m pytest -q -p no:cacheprovider 2>&1 | tail -1", wt, env)
        if "412 passed" not in t: return x["name"], "TESTS " + t.strip()[-60:]
        if demo:
            rc1 = sh(f"/venv/bin/python {demo}", wt, env)[0]
            if not (rc0 == 0 and rc1 != 0): return x["name"], f"DEMO clean={rc0} patched={rc1}"
        return x["name"], "OK"
    finally:
        sh(f"git -C /repo worktree remove --force {wt}", "/"); shutil.rmtree(wt, ignore_errors=True)
with cf.ThreadPoolExecutor(12) as ex:
    res = list(ex.map(one, v))
retired = {x["name"] for x in v if x["kind"] == "retired"}
bad = [r for r in res if r[1] != "OK" and r[0] not in retired]
print(len(res), "variants;", len(bad), "bad;", len([r for r in res if r[1] != "OK" and r[0] in retired]), "retired ones are (as recorded) no longer what they were")
for b in bad: print(*b)
