#!/venv/bin/python
"""apply one variant to a scratch copy and print the findings of the given checks: try_variant.py <variant> C01 C02 .."""
import json, os, sys, shutil, subprocess, tempfile
sys.path.insert(0, os.path.dirname(os.path.dirname(os.path.abspath(__file__))))
from sa import selftest
name = sys.argv[1]; props = sys.argv[2:]
v = [x for x in selftest.load_variants(retired=True) if x["name"] == name][0]
scratch = selftest._make_scratch(os.environ.get("FUNC_ADL_REPO", "/repo"))
try:
    ok = selftest._apply(scratch, os.path.join(selftest.VERIF, v["patch"]), bool(v.get("reverse")))
    print("applied:", ok)
    for p in props:
        st, fs = selftest.analyse(p, scratch)
        print(p, st)
        for f in fs:
            print("  ", f["rule"], f["construct"].split(":")[-1], "|", f["message"][:300])
            print("      at:", f["statement"][:120])
            if f.get("term"): print("      term:", f["term"][:300])
    if "--keep" in sys.argv: print(scratch)
finally:
    if "--keep" not in sys.argv: shutil.rmtree(scratch, ignore_errors=True)
