#!/venv/bin/python
"""Re-base variant patches that no longer apply to /repo HEAD (because a later fix: commit touched nearby lines):
apply with `patch -F3` in a scratch worktree and store the resulting `git diff`. Reverse ("revert-") variants are skipped."""
import json, os, subprocess, sys, tempfile, shutil
VERIF = os.path.dirname(os.path.dirname(os.path.abspath(__file__)))
v = json.load(open(os.path.join(VERIF, "sa/selftest/variants.json")))["variants"]
def sh(cmd, cwd):
    r = subprocess.run(cmd, shell=True, cwd=cwd, capture_output=True, text=True); return r.returncode, r.stdout + r.stderr
changed = []
for x in v:
    if x.get("reverse"):
        continue
    patch = os.path.join(VERIF, x["patch"])
    rc, _ = sh(f"git apply --check {patch}", "/repo")
    if rc == 0:
        continue
    wt = tempfile.mkdtemp(prefix="rebase_", dir="/tmp"); shutil.rmtree(wt)
    sh(f"git worktree add -q --detach {wt} HEAD", "/repo")
    try:
        rc, out = sh(f"patch -p1 -F3 --no-backup-if-mismatch < {patch}", wt)
        if rc != 0:
            print("CANNOT", x["name"], out[-200:]); continue
        rc, t = sh("/venv/bin/python -m pytest -q -p no:cacheprovider -x 2>&1 | tail -1", wt)
        if "412 passed" not in t:
            print("CANNOT", x["name"], "tests after fuzzy apply:", t.strip()[-80:]); continue
        sh("git add -A -N .", wt)  # new files of the variant belong to the diff
        rc, diff = sh("git diff", wt)
        open(patch, "w").write(diff)
        changed.append((x["name"], t.strip()))
    finally:
        sh(f"git worktree remove --force {wt}", "/repo"); shutil.rmtree(wt, ignore_errors=True)
for c in changed: print("rebased", *c)
print(len(changed), "rebased")
