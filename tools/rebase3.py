#!/venv/bin/python
"""Re-base variant patches onto /repo HEAD by a three-way merge (git merge-file) against the commit they were written for:
rebase3.py <old-commit>   - for every non-reverse variant whose patch no longer applies to HEAD."""
import json, os, subprocess, sys, tempfile, shutil
VERIF = os.path.dirname(os.path.dirname(os.path.abspath(__file__)))
OLD = sys.argv[1]
v = json.load(open(os.path.join(VERIF, "sa/selftest/variants.json")))["variants"]
def sh(cmd, cwd):
    r = subprocess.run(cmd, shell=True, cwd=cwd, capture_output=True, text=True); return r.returncode, r.stdout + r.stderr
done = conflict = 0
for x in v:
    if x.get("reverse"):
        continue
    patch = os.path.join(VERIF, x["patch"])
    if sh(f"git apply --check {patch}", "/repo")[0] == 0:
        continue
    old = tempfile.mkdtemp(prefix="rb3o_", dir="/tmp"); shutil.rmtree(old)
    new = tempfile.mkdtemp(prefix="rb3n_", dir="/tmp"); shutil.rmtree(new)
    sh(f"git worktree add -q --detach {old} {OLD}", "/repo"); sh(f"git worktree add -q --detach {new} HEAD", "/repo")
    try:
        rc, out = sh(f"git apply {patch}", old)
        if rc:
            print("OLD-APPLY-FAIL", x["name"]); continue
        rc, files = sh("git status --porcelain", old)
        bad = False
        for ln in files.splitlines():
            st, path = ln[:2], ln[3:]
            if st.strip() == "??":  # new file
                os.makedirs(os.path.dirname(os.path.join(new, path)) or new, exist_ok=True)
                if os.path.isdir(os.path.join(old, path)):
                    shutil.copytree(os.path.join(old, path), os.path.join(new, path), dirs_exist_ok=True)
                else:
                    shutil.copy(os.path.join(old, path), os.path.join(new, path))
                continue
            if st.strip() == "D":
                os.remove(os.path.join(new, path)); continue
            base = os.path.join(old, ".base_tmp"); open(base, "w").write(subprocess.run(f"git show {OLD}:{path}", shell=True, cwd="/repo", capture_output=True, text=True).stdout)
            rc, out = sh(f"git merge-file -q {os.path.join(new, path)} {base} {os.path.join(old, path)}", new)
            os.remove(base)
            if rc != 0:
                bad = True
        if bad:
            conflict += 1; print("CONFLICT", x["name"]); continue
        rc, t = sh("/venv/bin/python -m pytest -q -p no:cacheprovider -x 2>&1 | tail -1", new)
        if "412 passed" not in t:
            print("TESTS", x["name"], t.strip()); continue
        sh("git add -A -N .", new)
        rc, diff = sh("git diff HEAD", new)
        open(patch, "w").write(diff); done += 1
        print("rebased", x["name"])
    finally:
        for d in (old, new):
            sh(f"git worktree remove --force {d}", "/repo"); shutil.rmtree(d, ignore_errors=True)
print(done, "rebased;", conflict, "conflicts")
