#!/venv/bin/python
"""Regenerate /verif/MANIFEST.json from the rule modules that exist (and validate it)."""
import importlib
import json
import os
import sys

VERIF = os.path.dirname(os.path.dirname(os.path.abspath(__file__)))
sys.path.insert(0, VERIF)

TECH = {
    "C01": "provenance-term conformance of the operator builders + dominance chain of the lambda pipeline (AST dataflow)",
    "C02": "fusion-law table conformance on provenance terms; binder-discipline / freshness / beta-guard rules over the simplifier's CFG and call graph",
    "C03": "guard-dominance (unique-or-raise), filter shape and bracket-counter pairing rules on the source-recovery code",
    "C04": "binder-completeness of the capture substituter, constant-guard facts, scope-merge order, gate dominance (CFG facts + terms)",
    "C05": "beta-reduction hygiene rules on the helper inliner (visit-vs-generic_visit root, shadow frames, positional guard)",
    "C06": "desugaring-shape conformance on provenance terms + refusal dominance",
    "C07": "loop path rule (slot index advanced once per parameter), keyword/default dataflow, operator-exemption and env-merge order",
    "C08": "finite-domain abstract evaluation of the type decision lists + operator item-type terms",
    "C09": "stream-threading dataflow through callback sites, who-may-call, metadata re-application shape",
    "C10": "totality of type-table reads, identity-returning visitors, guarded partial operations, refusal inventory over the call graph",
    "C11": "interprocedural ownership / mutation-effect analysis over the call graph with visitor dispatch",
    "C12": "who-may-call, exactly-once path rule, argument provenance, statelessness via effect analysis",
    "C13": "taint rule: values reach parser sinks only through an escaping function; entry-point argument provenance",
    "C14": "unvisited-subtree taint on simplifier handlers + dispatch-on-visited-value rule",
    "C15": "dominance (outer before inner), visit-vs-generic_visit, guard facts, mutation-effect analysis of the cleaner",
    "C16": "copy-before-attach ownership rule, data dependence of the stored dict, membership-fact and per-key path rules",
    "C17": "term conformance of the rewrite, guard facts, bottom-up dominance, name-table agreement",
    "C18": "guard-before-use facts on selector handlers, well-typed node construction, exception inventory",
    "C19": "dispatch/guard facts, visited-argument terms, fold literals interpreted on a finite integer grid",
    "C20": "determinism whitelist over callees and names read, single-source dataflow, codec totality",
}
DESIGN_REF = "DESIGN.md section 3"
NOTE = (
    "Trusted base: CPython's ast parser; documented semantics of ast.NodeTransformer.generic_visit (in place), copy.copy, ast.dump; "
    "only source text of /repo/func_adl is read (nothing imported or executed). Rules are necessary conditions: a pass means every "
    "enumerated obligation was discharged on the current source, not that the behavioural statement is proved."
)


def main() -> int:
    props = [json.loads(l) for l in open(os.path.join(VERIF, "properties.jsonl"))]
    checks = []
    na = []
    reasons = json.load(open(os.path.join(VERIF, "tools", "not_applicable.json"))) if os.path.exists(os.path.join(VERIF, "tools", "not_applicable.json")) else {}
    for p in props:
        pid = p["id"]
        path = os.path.join(VERIF, "sa", "rules", f"{pid.lower()}.py")
        if not os.path.exists(path) or pid in reasons:
            na.append({"property_id": pid, "reason": reasons.get(pid, "static check not built yet (build in progress; DESIGN.md section 3 describes the planned rules)")})
            continue
        mod = importlib.import_module(f"sa.rules.{pid.lower()}")
        checks.append(
            {
                "property_id": pid,
                "quick_cmd": f"./check {pid} --tier quick",
                "thorough_cmd": f"./check {pid} --tier thorough",
                "evidence_file": f"/verif/evidence/{pid}.json",
                "replay_cmd_template": f"./check {pid} --replay {{path}}",
                "engine": "sa",
                "level_claimed": {
                    "category": "other",
                    "text": "Sound-for-the-stated-clause static rules; obligations are enumerated from the current source and discharged by an AST/CFG/dataflow checker. DECIDES: "
                    + mod.EXPLANATION
                    + " DOES NOT DECIDE: "
                    + mod.NOT_DECIDED,
                    "design_ref": DESIGN_REF,
                },
                "level_note": NOTE,
                "technique": "static analysis: " + TECH[pid],
            }
        )
    man = {
        "version": 1,
        "setup_cmd": "true",
        "hooks": {
            "guard": "FUNC_ADL_VERIF",
            "enable": "none needed: the checks read /repo's source text; there are no hook commits",
            "baseline_off_cmd": "cd /repo && /venv/bin/python -m pytest -q -p no:cacheprovider --timeout=900",
            "source_commits": [],
            "add_only": True,
        },
        "engines": [
            {
                "name": "sa",
                "path": "/verif/sa",
                "serves_properties": [c["property_id"] for c in checks],
                "kind_free_text": "repository-specific static analyser on the stdlib ast: program model + call graph with visitor dispatch (model.py), statement CFG with dominators / must-facts / bounded paths (cfg.py), reaching definitions and provenance terms with helper inlining (terms.py), ownership and mutation effects (effects.py), finite-domain evaluation of literals (absint.py), rules per property (rules/), self-test on seeded/benign variants (selftest.py)",
            }
        ],
        "checks": checks,
        "notes": "All checks are static (source only). Exit 0 = all obligations discharged (KNOWN-FINDING lines for entries of known_findings.json); exit 1 + VIOLATION = a rule identified a violating construct; exit 2 + ANALYSIS-ERROR = anchor vanished / unrecognised shape. FUNC_ADL_REPO overrides the analysed tree (default /repo). Genuine defects repaired in /repo are listed as status=fixed in known_findings.json.",
        "not_applicable": na,
    }
    with open(os.path.join(VERIF, "MANIFEST.json"), "w") as fh:
        json.dump(man, fh, indent=1)
    print(f"{len(checks)} checks, {len(na)} not applicable")
    return 0


if __name__ == "__main__":
    sys.exit(main())
