#!/venv/bin/python
"""record a repaired defect: add_fix.py <Dnn> <props,comma> <rule> <witness>
writes sa/selftest/fixes/revert-<Dnn>.diff from /repo HEAD~0 (the last commit), adds the 'fixed' entry and the revert variant"""
import json, os, subprocess, sys
VERIF = os.path.dirname(os.path.dirname(os.path.abspath(__file__)))
did, props, rule, witness = sys.argv[1:5]
REV = sys.argv[5] if len(sys.argv) > 5 else "HEAD"
props = props.split(",")
commit = subprocess.run(f"git -C /repo rev-parse --short {REV}", shell=True, capture_output=True, text=True).stdout.strip()
diff = subprocess.run(f"git -C /repo diff {REV}~1 {REV} -- func_adl", shell=True, capture_output=True, text=True).stdout
open(os.path.join(VERIF, f"sa/selftest/fixes/revert-{did}.diff"), "w").write(diff)
kp = os.path.join(VERIF, "known_findings.json"); k = json.load(open(kp))
if not any(e["id"] == did for e in k["findings"]):
    subject = subprocess.run(f"git -C /repo log -1 --format=%s {REV}", shell=True, capture_output=True, text=True).stdout.strip()
    k["findings"].append({"id": did, "status": "fixed", "commit": commit, "properties": props, "rule": rule, "subject": subject, "witness": witness})
    json.dump(k, open(kp, "w"), indent=1)
vp = os.path.join(VERIF, "sa/selftest/variants.json"); d = json.load(open(vp))
name = f"revert-{did}"
if not any(v["name"] == name for v in d["variants"]):
    d["variants"].append({"name": name, "kind": "revert", "patch": f"sa/selftest/fixes/revert-{did}.diff", "reverse": True, "expect": props, "note": witness[:300]})
    json.dump(d, open(vp, "w"), indent=1)
print(did, commit, "recorded")
