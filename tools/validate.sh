#!/bin/sh
# validate MANIFEST and all evidence files against the schemas (needs the tooling venv for jsonschema)
python3-vt - <<'PY'
import json,jsonschema,glob
jsonschema.validate(json.load(open('/verif/MANIFEST.json')),json.load(open('/root/.vp/MANIFEST.schema.json')))
es=json.load(open('/root/.vp/EVIDENCE.schema.json'))
n=0
for f in sorted(glob.glob('/verif/evidence/*.json')):
    jsonschema.validate(json.load(open(f)),es); n+=1
print('manifest ok;',n,'evidence files ok')
PY
