#!/venv/bin/python
"""Behaviour probes for the refactoring variants: scripts (tools/fixprobes/*.py, written by the sub-agents that re-based the
variants) that exercise the behaviour of the repairs D42-D51 through the public functions. A refactoring is only
behaviour-preserving if every probe prints exactly what it prints on /repo HEAD. (Development tool: runs func_adl; not
part of any check.)"""
import re, json, os, subprocess, shutil, tempfile, glob, sys, concurrent.futures as cf
VERIF = os.path.dirname(os.path.dirname(os.path.abspath(__file__)))
probes = sorted(glob.glob(os.path.join(VERIF, "tools/fixprobes/*.py")))
def run_probes(root):
    out = []
    for p in probes:
        r = subprocess.run(["/venv/bin/python", p], cwd="/tmp", capture_output=True, text=True, env=dict(os.environ, PYTHONPATH=root), timeout=120)
        out.append(re.sub(r"0x[0-9a-f]+", "0x..", r.stdout) + ("\nRC=%d" % r.returncode) + (r.stderr[-300:] if r.returncode else ""))
    return out
ref = run_probes("/repo")
v = [x for x in json.load(open(os.path.join(VERIF, "sa/selftest/variants.json")))["variants"] if x["kind"] == "benign"]
if len(sys.argv) > 1:
    v = [x for x in v if x["name"] in sys.argv[1:]]
def one(x):
    d = tempfile.mkdtemp(prefix="pb_", dir="/tmp")
    try:
        shutil.copytree("/repo/func_adl", d + "/func_adl")
        r = subprocess.run(["git", "apply", os.path.join(VERIF, x["patch"])], cwd=d, capture_output=True, text=True)
        if r.returncode:
            return x["name"], "NOAPPLY"
        got = run_probes(d)
        diff = [os.path.basename(p) for p, a, b in zip(probes, ref, got) if a != b]
        return x["name"], ("OK" if not diff else "DIFFERS in " + ", ".join(diff))
    finally:
        shutil.rmtree(d, ignore_errors=True)
with cf.ThreadPoolExecutor(12) as ex:
    res = list(ex.map(one, v))
# probes that reach into a private name the refactoring renames (the probe's artefact, not a behaviour change)
ACCEPTED = {"benign-X1-3": "renames the private marker attribute _old_ast the fixup probes set by hand", "benign-T4-2": "renames the private marker attribute _old_ast the fixup probes set by hand"}
bad = [r for r in res if r[1] != "OK" and not (r[0] in ACCEPTED and set(r[1][11:].split(", ")) <= {"probe_d46_d51_a.py", "probe_d46_d51_c.py"})]
print(len(res), "refactorings probed;", len(bad), "differ from HEAD")
for b in bad: print(*b)
