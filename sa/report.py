"""Obligation bookkeeping, known findings, evidence and verdicts."""
from __future__ import annotations

import ast
import json
import os
import time
from typing import Any, Dict, List, Optional

from .model import AnalysisError, FuncInfo, Model, norm_text

VERIF = os.path.dirname(os.path.dirname(os.path.abspath(__file__)))
KNOWN_FILE = os.path.join(VERIF, "known_findings.json")


class Finding:
    def __init__(self, prop: str, rule: str, construct: str, statement: str, message: str, where: str, expected: str = "", term: str = ""):
        self.prop = prop
        self.rule = rule
        self.construct = construct
        self.statement = statement
        self.message = message
        self.where = where
        self.expected = expected
        self.term = term

    def key(self):
        return (self.rule, self.construct, self.statement)

    def to_json(self):
        return dict(property=self.prop, rule=self.rule, construct=self.construct, statement=self.statement, message=self.message, where=self.where, expected=self.expected, term=self.term)


class Run:
    def __init__(self, prop: str, model: Model, tier: str = "quick", seed: int = 0):
        self.prop = prop
        self.model = model
        self.tier = tier
        self.seed = seed
        self.t0 = time.time()
        self.obligations: List[Dict[str, Any]] = []
        self.findings: List[Finding] = []
        self.notes: Dict[str, Any] = {}
        self.functions_analysed: set = set()
        self.rule_docs: Dict[str, str] = {}
        self.assumptions: List[str] = []
        self.selftest: Optional[Dict[str, Any]] = None

    # ------------------------------------------------------------------ recording
    def rule(self, rule_id: str, doc: str) -> None:
        self.rule_docs[rule_id] = " ".join(doc.split())

    @staticmethod
    def _orig(fi):
        """a normalised view of a function (sa.normalise) is reported as the function it stands for"""
        return getattr(fi, "__dict__", {}).get("_unrolled_from", fi) if fi is not None else None

    def touch(self, fi: FuncInfo) -> None:
        self.functions_analysed.add(self._orig(fi).qual)

    def ok(self, rule: str, fi: Optional[FuncInfo], what: str, detail: str = "") -> None:
        fi = self._orig(fi)
        if fi is not None:
            self.touch(fi)
        self.obligations.append(dict(rule=rule, construct=fi.qual if fi else "", what=what, verdict="discharged", detail=detail[:400]))

    def fail(self, rule: str, fi: Optional[FuncInfo], node: Optional[ast.AST], message: str, expected: str = "", term: str = "", what: str = "", key: str = "", construct: str = "") -> None:
        """key: a stable identification of the offending instance inside the construct, used instead of the
        statement text when the rule can name the instance independently of how the statement is written.
        construct: a role name for the construct when the function found by role has a private, renameable name."""
        fi = self._orig(fi)
        if fi is not None:
            self.touch(fi)
        construct = construct or (fi.qual if fi else "")
        stmt = key or (norm_text(node) if node is not None else "")
        where = (fi.loc(node) if fi else "") if node is not None else (fi.loc() if fi else "")
        f = Finding(self.prop, rule, construct, stmt, message, where, expected, term[:600])
        if f.key() not in [x.key() for x in self.findings]:
            self.findings.append(f)
        self.obligations.append(dict(rule=rule, construct=construct, what=what or message, verdict="VIOLATED", detail=(stmt + " :: " + message)[:400]))

    def check(self, cond: bool, rule: str, fi: Optional[FuncInfo], node: Optional[ast.AST], what: str, message: str = "", expected: str = "", term: str = "", key: str = "", construct: str = "") -> bool:
        if cond:
            self.ok(rule, fi, what, term)
        else:
            self.fail(rule, fi, node, message or f"not satisfied: {what}", expected, term, what, key, construct)
        return cond

    def floor(self, rule: str, count: int, minimum: int, what: str) -> None:
        """A rule that matches fewer instances than were confirmed by hand cannot pass vacuously."""
        if count < minimum:
            raise AnalysisError(f"{rule}: only {count} instance(s) of '{what}' found, expected at least {minimum} (anchor changed shape?)")
        self.notes.setdefault("floors", {})[rule] = dict(what=what, found=count, floor=minimum)

    # ------------------------------------------------------------------ verdict
    def finish(self, explanation: str, not_decided: str, level: str = "other") -> int:
        known = load_known()
        unknown: List[Finding] = []
        known_seen = []
        for f in self.findings:
            k = match_known(known, f)
            if k is not None:
                print(f"KNOWN-FINDING: property={self.prop} {f.rule} {f.construct}: {k.get('witness', f.message)}")
                known_seen.append(k["id"])
            else:
                unknown.append(f)
        rc = 0
        replay_dir = os.path.join(VERIF, "replay")
        for i, f in enumerate(unknown):
            os.makedirs(replay_dir, exist_ok=True)
            path = os.path.join(replay_dir, f"{self.prop}-{i}.json")
            with open(path, "w") as fh:
                json.dump(f.to_json(), fh, indent=1)
            print(f"VIOLATION property={self.prop} replay={path}")
            print(f"  {f.where} {f.construct} [{f.rule}]: {f.message}")
            if f.statement:
                print(f"    at: {f.statement}")
            if f.expected:
                print(f"    expected: {f.expected}")
            if f.term:
                print(f"    term: {f.term}")
            rc = 1
        self.write_evidence(explanation, not_decided, level, known_seen, len(unknown))
        n_ok = sum(1 for o in self.obligations if o["verdict"] == "discharged")
        print(f"{self.prop}: {len(self.obligations)} obligations, {n_ok} discharged, {len(self.findings)} finding(s) ({len(known_seen)} known), {len(self.functions_analysed)} functions analysed, {time.time() - self.t0:.2f}s")
        return rc

    def write_evidence(self, explanation: str, not_decided: str, level: str, known_seen, n_viol: int) -> None:
        ev_dir = os.path.join(VERIF, "evidence")
        os.makedirs(ev_dir, exist_ok=True)
        n_ok = sum(1 for o in self.obligations if o["verdict"] == "discharged")
        distinct = len({(o["rule"], o["construct"], o["what"]) for o in self.obligations})
        st = self.model.stats()
        samples = self.obligations[:40]
        ev = {
            "property_id": self.prop,
            "tier": self.tier,
            "seed": self.seed,
            "level": level,
            "coverage": {
                "explanation": f"DECIDES (static, for all inputs reaching the constructs): {explanation} DOES NOT DECIDE: {not_decided}",
                "obligations": len(self.obligations),
                "discharged": n_ok,
                "evaluations": len(self.obligations),
                "distinct_nontrivial": distinct,
                "rule": "one obligation per (rule, construct, site) enumerated from the current source; distinct = distinct (rule, construct, obligation text) triples; rules: "
                + "; ".join(f"{k}: {v}" for k, v in sorted(self.rule_docs.items())),
                "samples": samples,
                "checker_cmd": f"./check {self.prop} --tier {self.tier}",
                "trusted_base": ["CPython ast/symtable parser", "documented semantics of ast.NodeTransformer.generic_visit (in place), copy.copy, ast.dump"],
                "files": st["files"],
                "source_digest": st["digest"],
                "functions_analysed": sorted(self.functions_analysed),
                "n_functions_in_model": st["n_functions"],
                "floors": self.notes.get("floors", {}),
                "notes": {k: v for k, v in self.notes.items() if k != "floors"},
                "known_findings_seen": known_seen,
                "selftest": self.selftest,
                "exhaustive": False,
            },
            "assumptions": self.assumptions
            + [
                "source under /repo/func_adl is what is shipped (15 modules parsed; nothing imported or executed)",
                "user callbacks and executors do not mutate stream ASTs",
            ],
            "wall_s": round(time.time() - self.t0, 3),
            "violations": n_viol,
        }
        with open(os.path.join(ev_dir, f"{self.prop}.json"), "w") as fh:
            json.dump(ev, fh, indent=1, default=str)


def load_known() -> List[dict]:
    if not os.path.exists(KNOWN_FILE):
        return []
    with open(KNOWN_FILE) as fh:
        return json.load(fh).get("findings", [])


def match_known(known: List[dict], f: Finding) -> Optional[dict]:
    for k in known:
        if k.get("status") != "known":
            continue  # fixed entries suppress nothing
        if f.prop in k.get("properties", []) and k.get("rule") == f.rule and k.get("statement") == f.statement:
            # the same class.method / function after it was moved to another module of the package is the same site
            kc, fc = k.get("construct", ""), f.construct
            if kc == fc or (":" in kc and ":" in fc and kc.split(":", 1)[1] == fc.split(":", 1)[1]):
                return k
    return None


class Relabel:
    """view of a Run that records obligations of a shared rule set under another rule id."""

    def __init__(self, run: Run, rule: str):
        self._r = run
        self._rule = rule

    def __getattr__(self, k):
        return getattr(self._r, k)

    def rule(self, _id, doc):
        return None

    def check(self, cond, _rule, *a, **kw):
        return self._r.check(cond, self._rule, *a, **kw)

    def fail(self, _rule, *a, **kw):
        return self._r.fail(self._rule, *a, **kw)

    def ok(self, _rule, *a, **kw):
        return self._r.ok(self._rule, *a, **kw)

    def floor(self, _rule, *a, **kw):
        return self._r.floor(self._rule, *a, **kw)


def run_stage(run: "Run", stage: str, only: Optional[set] = None) -> None:
    """Re-evaluate the rule set of another property inside this run (the property depends on that stage) - all of it,
    or the rules named in `only` when the dependency is on part of the stage; obligations are recorded with a
    [stage ..] prefix, findings keep the stage's rule id."""
    import importlib

    mod = importlib.import_module(f"sa.rules.{stage}")
    sub = Run(stage.upper(), run.model, run.tier, run.seed)
    try:
        mod.check(sub)
    except AnalysisError as e:
        # a part of the stage that this property does not depend on could not be read: what was asked for has been
        # evaluated (its obligations are recorded) - otherwise the refusal is this property's too
        done = {o.get("rule") for o in sub.obligations}
        if only is None or not (set(only) <= done) or (sub.obligations and sub.obligations[-1].get("rule") in only):
            raise  # (the last thing evaluated belongs to what was asked for: the refusal may have come from there)
        run.notes.setdefault("stage_refusals", {})[stage.upper()] = str(e)[:200]
    for o in sub.obligations:
        if only is not None and o.get("rule") not in only:
            continue
        o2 = dict(o)
        o2["what"] = f"[stage {stage.upper()}] " + o2["what"]
        run.obligations.append(o2)
    for f in sub.findings:
        if only is not None and f.rule not in only:
            continue
        f.prop = run.prop
        if f.key() not in [x.key() for x in run.findings]:
            run.findings.append(f)
    run.functions_analysed |= sub.functions_analysed
    run.notes.setdefault("stage_obligations", {})[stage.upper()] = len(sub.obligations)
