"""E0 - program model of /repo/func_adl, built from source text only (ast + symtable).

Nothing from func_adl is imported or executed.  The model gives:
  * modules (tree, source, path), with parent pointers on every node
  * functions / methods / nested classes by qualified name  ``pkg.mod:Outer.inner.meth``
  * class hierarchy (bases resolved inside the package or to stdlib dotted names)
  * import maps (module level and function-local), aliases
  * callee resolution for Name / self.m / super().m / Cls.m / module.attr
"""
from __future__ import annotations

import ast
import hashlib
import os
import sys
from dataclasses import dataclass, field
from typing import Dict, Iterator, List, Optional, Tuple, Union


class AnalysisError(Exception):
    """An anchor vanished or a shape is not recognised: exit 2, never a verdict."""


REPO = os.environ.get("FUNC_ADL_REPO", "/repo")
PKG = "func_adl"

TRANSFORMER_BASES = {"ast.NodeTransformer"}
VISITOR_BASES = {"ast.NodeVisitor"}


@dataclass
class FuncInfo:
    qual: str  # pkg.mod:Outer.inner
    name: str
    node: Union[ast.FunctionDef, ast.AsyncFunctionDef, ast.Lambda]
    module: "ModuleInfo"
    cls: Optional["ClassInfo"]  # directly enclosing class, if a method
    parent_func: Optional["FuncInfo"]  # enclosing function (for nested defs / classes in funcs)

    @property
    def params(self) -> List[str]:
        a = self.node.args
        r = [x.arg for x in a.posonlyargs + a.args]
        if a.vararg:
            r.append(a.vararg.arg)
        r += [x.arg for x in a.kwonlyargs]
        if a.kwarg:
            r.append(a.kwarg.arg)
        return r

    @property
    def pos_params(self) -> List[str]:
        a = self.node.args
        return [x.arg for x in a.posonlyargs + a.args]

    @property
    def is_method(self) -> bool:
        return self.cls is not None

    @property
    def is_private(self) -> bool:
        """underscore-named (not dunder), or a function of a package-private module (`_helpers.py`)"""
        if self.name.startswith("__"):
            return False
        last = self.module.name.rsplit(".", 1)[-1]
        if self.cls is not None and self.cls.name.startswith("_") and not self.cls.name.startswith("__") and all(b.split(".")[-1] in ("NamedTuple", "object") for b in self.cls.base_names):
            return True  # a method of a private helper class (one without bases: not a visitor, not part of a hierarchy)
        return self.name.startswith("_") or (last.startswith("_") and not last.startswith("__") and self.cls is None)

    @property
    def decorators(self) -> List[str]:
        return [dotted(d) or "?" for d in getattr(self.node, "decorator_list", [])]

    @property
    def is_property(self) -> bool:
        return "property" in self.decorators

    def loc(self, n: Optional[ast.AST] = None) -> str:
        n = n or self.node
        return f"{self.module.relpath}:{getattr(n, 'lineno', '?')}"

    def __hash__(self):
        return hash(self.qual)

    def __eq__(self, o):
        return isinstance(o, FuncInfo) and o.qual == self.qual


@dataclass
class ClassInfo:
    qual: str
    name: str
    node: ast.ClassDef
    module: "ModuleInfo"
    parent_func: Optional[FuncInfo]
    parent_cls: Optional["ClassInfo"]
    base_names: List[str] = field(default_factory=list)  # dotted as written, resolved lazily
    methods: Dict[str, FuncInfo] = field(default_factory=dict)
    class_assigns: Dict[str, ast.expr] = field(default_factory=dict)

    def __hash__(self):
        return hash(self.qual)

    def __eq__(self, o):
        return isinstance(o, ClassInfo) and o.qual == self.qual


@dataclass
class ModuleInfo:
    name: str  # func_adl.ast.meta_data
    path: str
    relpath: str
    src: str
    tree: ast.Module
    imports: Dict[str, str] = field(default_factory=dict)  # local name -> dotted target
    functions: Dict[str, FuncInfo] = field(default_factory=dict)  # top level
    classes: Dict[str, ClassInfo] = field(default_factory=dict)  # top level
    assigns: Dict[str, ast.expr] = field(default_factory=dict)  # top-level NAME = expr


def dotted(e: ast.AST) -> Optional[str]:
    """a.b.c for Name/Attribute chains, None otherwise."""
    if isinstance(e, ast.Name):
        return e.id
    if isinstance(e, ast.Attribute):
        b = dotted(e.value)
        return None if b is None else f"{b}.{e.attr}"
    if isinstance(e, ast.Subscript):  # Generic[T], ObjectStream[T]
        return dotted(e.value)
    if isinstance(e, ast.Call):  # decorator with args
        return dotted(e.func)
    return None


def set_parents(tree: ast.AST) -> None:
    for n in ast.walk(tree):
        for c in ast.iter_child_nodes(n):
            c._parent = n  # type: ignore


def parent(n: ast.AST) -> Optional[ast.AST]:
    return getattr(n, "_parent", None)


def ancestors(n: ast.AST) -> Iterator[ast.AST]:
    p = parent(n)
    while p is not None:
        yield p
        p = parent(p)


def norm_text(n: ast.AST) -> str:
    """Normalised statement text used to key findings (never line numbers)."""
    if isinstance(n, (ast.FunctionDef, ast.AsyncFunctionDef)):
        return f"def {n.name}({', '.join(a.arg for a in n.args.posonlyargs + n.args.args)})"
    if isinstance(n, ast.ClassDef):
        return f"class {n.name}"
    try:
        s = ast.unparse(n)
    except Exception:  # pragma: no cover
        s = ast.dump(n)
    s = " ".join(s.split())
    return s if len(s) <= 160 else s[:157] + "..."


class Model:
    def __init__(self, repo: Optional[str] = None):
        self.repo = repo or os.environ.get("FUNC_ADL_REPO", "/repo")
        self.modules: Dict[str, ModuleInfo] = {}
        self.funcs: Dict[str, FuncInfo] = {}
        self.classes: Dict[str, ClassInfo] = {}
        self._load()

    # ------------------------------------------------------------------ loading
    def _load(self) -> None:
        root = os.path.join(self.repo, PKG)
        if not os.path.isdir(root):
            raise AnalysisError(f"package directory {root} not found")
        paths = []
        for d, _dirs, files in os.walk(root):
            for f in sorted(files):
                if f.endswith(".py"):
                    paths.append(os.path.join(d, f))
        h = hashlib.sha256()
        for p in sorted(paths):
            src = open(p, encoding="utf-8").read()
            h.update(p.encode())
            h.update(src.encode())
            rel = os.path.relpath(p, self.repo)
            modname = rel[:-3].replace(os.sep, ".")
            if modname.endswith(".__init__"):
                modname = modname[: -len(".__init__")]
            try:
                tree = ast.parse(src, filename=p)
            except SyntaxError as e:
                raise AnalysisError(f"{rel} does not parse: {e}")
            mi = ModuleInfo(modname, p, rel, src, tree)
            self.modules[modname] = mi
        self.digest = h.hexdigest()[:16]
        # private anchors that were renamed are found by role and given back their usual name (trees only)
        from .canonical import canonicalise

        self.renamed_anchors = canonicalise({name: mi.tree for name, mi in self.modules.items()})
        for mi in self.modules.values():
            set_parents(mi.tree)
        for mi in self.modules.values():
            self._index_module(mi)
        self._positionalise_calls()

    def _positionalise_calls(self) -> None:
        """`f(a, y=b)` is `f(a, b)` when f is a package function whose second parameter is y: keyword arguments that
        name positional parameters of a *resolved* package callee are moved to their positions (in the trees only),
        so that rules see one calling convention.  Calls that cannot be resolved, or whose keywords would leave a
        gap, are left as written."""
        changed_trees = set()
        for fi in list(self.funcs.values()):
            for n in ast.walk(fi.node):
                if not isinstance(n, ast.Call) or not n.keywords or any(k.arg is None for k in n.keywords) or any(isinstance(a, ast.Starred) for a in n.args):
                    continue
                callee = None
                skip = 0
                f = n.func
                try:
                    if isinstance(f, ast.Name):
                        tgt = self.lookup_target(self.resolve_dotted(fi.module, fi, f.id))
                        if isinstance(tgt, FuncInfo):
                            callee = tgt
                        elif isinstance(tgt, ClassInfo):
                            callee = self.find_method(tgt, "__init__")
                            skip = 1
                    elif isinstance(f, ast.Attribute) and isinstance(f.value, ast.Name) and fi.cls is not None and fi.pos_params and f.value.id == fi.pos_params[0]:
                        callee = self.find_method(fi.cls, f.attr)
                        skip = 0 if (callee is not None and "staticmethod" in callee.decorators) else 1
                except Exception:
                    callee = None
                if callee is None or isinstance(callee.node, ast.Lambda):
                    continue
                a = callee.node.args
                if a.vararg is not None:
                    continue
                params = [x.arg for x in a.posonlyargs + a.args][skip:]
                kw = {k.arg: k for k in n.keywords}
                new_args = list(n.args)
                moved = []
                for p in params[len(n.args):]:
                    if p in kw:
                        new_args.append(kw[p].value)
                        moved.append(kw[p])
                    else:
                        break
                if not moved:
                    continue
                n.args = new_args
                n.keywords = [k for k in n.keywords if k not in moved]
                for v in new_args:
                    v._parent = n  # type: ignore
                changed_trees.add(fi.module.name)

    def _resolve_import_from(self, mi: ModuleInfo, node: ast.ImportFrom) -> str:
        if node.level == 0:
            return node.module or ""
        parts = mi.name.split(".")
        is_pkg = mi.path.endswith("__init__.py")
        base = parts if is_pkg else parts[:-1]
        if node.level > 1:
            base = base[: len(base) - (node.level - 1)]
        return ".".join(base + ([node.module] if node.module else []))

    def _collect_imports(self, mi: ModuleInfo, body_owner: ast.AST, into: Dict[str, str]) -> None:
        for n in ast.walk(body_owner):
            if isinstance(n, ast.Import):
                for a in n.names:
                    into[a.asname or a.name.split(".")[0]] = a.name if a.asname else a.name.split(".")[0]
            elif isinstance(n, ast.ImportFrom):
                base = self._resolve_import_from(mi, n)
                for a in n.names:
                    into[a.asname or a.name] = f"{base}.{a.name}"

    def _index_module(self, mi: ModuleInfo) -> None:
        # module-level imports only (function-local ones are looked up per function)
        for n in mi.tree.body:
            if isinstance(n, (ast.Import, ast.ImportFrom)):
                self._collect_imports(mi, n, mi.imports)
            elif isinstance(n, ast.Assign) and len(n.targets) == 1 and isinstance(n.targets[0], ast.Name):
                mi.assigns[n.targets[0].id] = n.value
            elif isinstance(n, ast.AnnAssign) and isinstance(n.target, ast.Name) and n.value is not None:
                mi.assigns[n.target.id] = n.value
        self._index_body(mi, mi.tree.body, prefix="", cls=None, pfunc=None)

    def _index_body(self, mi, body, prefix, cls, pfunc) -> None:
        for n in body:
            self._index_stmt(mi, n, prefix, cls, pfunc)

    def _index_stmt(self, mi, n, prefix, cls, pfunc) -> None:
        if isinstance(n, (ast.FunctionDef, ast.AsyncFunctionDef)):
            q = f"{mi.name}:{prefix}{n.name}"
            fi = FuncInfo(q, n.name, n, mi, cls, pfunc)
            # property setters etc. would collide: keep the first, suffix others
            if q in self.funcs:
                q = f"{q}#{n.lineno}"
                fi.qual = q
            self.funcs[q] = fi
            n._finfo = fi  # type: ignore
            if cls is not None:
                cls.methods.setdefault(n.name, fi)
            elif pfunc is None:
                mi.functions[n.name] = fi
            # nested definitions anywhere inside the body (not crossing other defs)
            for sub in self._nested_defs(n.body):
                self._index_stmt(mi, sub, f"{prefix}{n.name}.", None, fi)
        elif isinstance(n, ast.ClassDef):
            q = f"{mi.name}:{prefix}{n.name}"
            ci = ClassInfo(q, n.name, n, mi, pfunc, cls, [dotted(b) or "?" for b in n.bases])
            self.classes[q] = ci
            n._cinfo = ci  # type: ignore
            if cls is None and pfunc is None:
                mi.classes[n.name] = ci
            for s in n.body:
                if isinstance(s, ast.Assign) and len(s.targets) == 1 and isinstance(s.targets[0], ast.Name):
                    ci.class_assigns[s.targets[0].id] = s.value
                if isinstance(s, ast.AnnAssign) and isinstance(s.target, ast.Name) and s.value is not None:
                    ci.class_assigns[s.target.id] = s.value
                for t in (s.targets if isinstance(s, ast.Assign) else []):
                    if isinstance(t, ast.Name):
                        ci.class_assigns[t.id] = s.value
                self._index_stmt(mi, s, f"{prefix}{n.name}.", ci, pfunc)

    def _nested_defs(self, body) -> Iterator[ast.stmt]:
        """defs/classes nested in statements of a function body, not crossing def boundaries."""
        stack = list(body)
        while stack:
            s = stack.pop(0)
            if isinstance(s, (ast.FunctionDef, ast.AsyncFunctionDef, ast.ClassDef)):
                yield s
                continue
            for c in ast.iter_child_nodes(s):
                if isinstance(c, ast.stmt):
                    stack.append(c)
                elif isinstance(c, ast.ExceptHandler):
                    stack.extend(c.body)
                elif isinstance(c, ast.match_case) if hasattr(ast, "match_case") else False:
                    stack.extend(c.body)

    # ------------------------------------------------------------------ lookup
    def module(self, name: str) -> ModuleInfo:
        if name not in self.modules:
            raise AnalysisError(f"anchor vanished: module {name}")
        return self.modules[name]

    def func(self, qual: str) -> FuncInfo:
        if qual not in self.funcs:
            raise AnalysisError(f"anchor vanished: function {qual}")
        return self.funcs[qual]

    def cls(self, qual: str) -> ClassInfo:
        if qual not in self.classes:
            raise AnalysisError(f"anchor vanished: class {qual}")
        return self.classes[qual]

    def find_funcs(self, name: str) -> List[FuncInfo]:
        return [f for f in self.funcs.values() if f.name == name]

    def find_func(self, name: str, in_module: Optional[str] = None, in_class: Optional[str] = None) -> FuncInfo:
        c = [
            f
            for f in self.find_funcs(name)
            if (in_module is None or f.module.name == in_module)
            and (in_class is None or (f.cls is not None and f.cls.name == in_class))
        ]
        if not c and in_module is not None:
            # moved to another module of the package (and imported back): accept it if the name is unique
            c = [f for f in self.find_funcs(name) if (in_class is None or (f.cls is not None and f.cls.name == in_class)) and (in_class is not None or f.cls is None)]
        if not c and in_module is not None and in_class is None and in_module in self.modules and name in self.modules[in_module].imports:
            # moved and renamed, imported back under the old name
            t_ = self.lookup_target(self.modules[in_module].imports[name])
            if isinstance(t_, FuncInfo):
                c = [t_]
        if len(c) != 1:
            where = f" in {in_module or ''}{':' + in_class if in_class else ''}"
            raise AnalysisError(f"anchor vanished or ambiguous: function {name}{where} ({len(c)} candidates)")
        return c[0]

    def find_assign(self, name: str, in_module: str) -> Optional[ast.AST]:
        """value of a module-level constant; looked for in the whole package when it has been moved"""
        mi = self.modules.get(in_module)
        if mi is not None and name in mi.assigns:
            return mi.assigns[name]
        hits = [m_.assigns[name] for m_ in self.modules.values() if name in m_.assigns]
        return hits[0] if len(hits) == 1 else None

    def find_class(self, name: str, in_module: Optional[str] = None) -> ClassInfo:
        c = [k for k in self.classes.values() if k.name == name and (in_module is None or k.module.name == in_module)]
        if not c and in_module is not None:
            c = [k for k in self.classes.values() if k.name == name]
        if len(c) != 1:
            raise AnalysisError(f"anchor vanished or ambiguous: class {name} ({len(c)} candidates)")
        return c[0]

    # ------------------------------------------------------------------ scopes / names
    def enclosing_func(self, n: ast.AST) -> Optional[FuncInfo]:
        for a in ancestors(n):
            if isinstance(a, (ast.FunctionDef, ast.AsyncFunctionDef)):
                return getattr(a, "_finfo", None)
        return None

    def enclosing_class(self, n: ast.AST) -> Optional[ClassInfo]:
        for a in ancestors(n):
            if isinstance(a, ast.ClassDef):
                return getattr(a, "_cinfo", None)
            if isinstance(a, (ast.FunctionDef, ast.AsyncFunctionDef)):
                # a method: its class is the next ClassDef up, but only if directly inside
                p = parent(a)
                if isinstance(p, ast.ClassDef):
                    return getattr(p, "_cinfo", None)
                return None
        return None

    def local_imports(self, fi: FuncInfo) -> Dict[str, str]:
        cache = self.__dict__.setdefault("_li_cache", {})
        if fi.qual not in cache:
            cache[fi.qual] = self._local_imports(fi)
        return cache[fi.qual]

    def _local_imports(self, fi: FuncInfo) -> Dict[str, str]:
        d: Dict[str, str] = {}
        f: Optional[FuncInfo] = fi
        chain = []
        while f is not None:
            chain.append(f)
            f = f.parent_func
        for f in reversed(chain):
            for s in ast.walk(f.node):
                if isinstance(s, (ast.Import, ast.ImportFrom)) and self.enclosing_func(s) is f:
                    self._collect_imports(f.module, s, d)
        return d

    def resolve_dotted(self, mi: ModuleInfo, fi: Optional[FuncInfo], name: str) -> str:
        cache = self.__dict__.setdefault("_rd_cache", {})
        k = (mi.name, fi.qual if fi else None, name)
        if k not in cache:
            cache[k] = self._resolve_dotted(mi, fi, name)
        return cache[k]

    def _resolve_dotted(self, mi: ModuleInfo, fi: Optional[FuncInfo], name: str) -> str:
        """Resolve a dotted name written in module mi (inside fi) to a canonical dotted target:
        'func_adl.util_ast.as_ast', 'ast.Call', 'copy.copy', 'typing.Any', or the name itself."""
        head, _, rest = name.partition(".")
        imports = dict(mi.imports)
        if fi is not None:
            imports.update(self.local_imports(fi))
        # nested definitions visible from fi
        f = fi
        while f is not None:
            for sub in self._nested_defs(f.node.body):
                if getattr(sub, "name", None) == head:
                    q = f"{f.qual}.{head}"
                    return q.replace(":", ".") + (("." + rest) if rest else "")
            f = f.parent_func
        if head in imports:
            tgt = imports[head]
            return tgt + (("." + rest) if rest else "")
        if head in mi.functions or head in mi.classes or head in mi.assigns:
            return f"{mi.name}.{head}" + (("." + rest) if rest else "")
        return name

    def lookup_target(self, target: str) -> Union[FuncInfo, ClassInfo, None]:
        """canonical dotted target -> FuncInfo/ClassInfo inside the package (following re-exports)."""
        extra = self.__dict__.get("_extra_funcs")
        if extra and target in extra:
            return extra[target]
        seen = set()
        while target not in seen:
            seen.add(target)
            # try every split module.attrpath
            parts = target.split(".")
            for i in range(len(parts), 0, -1):
                mod = ".".join(parts[:i])
                if mod in self.modules:
                    mi = self.modules[mod]
                    rest = parts[i:]
                    if not rest:
                        return None
                    q = f"{mod}:{'.'.join(rest)}"
                    if q in self.funcs:
                        return self.funcs[q]
                    if q in self.classes:
                        return self.classes[q]
                    # re-export or alias
                    if rest[0] in mi.imports:
                        target = mi.imports[rest[0]] + ("." + ".".join(rest[1:]) if rest[1:] else "")
                        break
                    if len(rest) == 1 and rest[0] in mi.assigns:
                        d = dotted(mi.assigns[rest[0]])
                        if d:
                            target = self.resolve_dotted(mi, None, d)
                            break
                    return None
            else:
                return None
        return None

    # ------------------------------------------------------------------ classes
    def resolved_bases(self, ci: ClassInfo) -> List[Union[ClassInfo, str]]:
        out: List[Union[ClassInfo, str]] = []
        for b in ci.base_names:
            tgt = self.resolve_dotted(ci.module, ci.parent_func, b)
            r = self.lookup_target(tgt)
            out.append(r if isinstance(r, ClassInfo) else tgt)
        return out

    def mro(self, ci: ClassInfo) -> List[Union[ClassInfo, str]]:
        cache = self.__dict__.setdefault("_mro_cache", {})
        if ci.qual not in cache:
            cache[ci.qual] = self._mro(ci)
        return cache[ci.qual]

    def _mro(self, ci: ClassInfo) -> List[Union[ClassInfo, str]]:
        """Linearised (depth-first, left-to-right, de-duplicated) — adequate for the
        single-inheritance chains of this package."""
        out: List[Union[ClassInfo, str]] = []

        def go(c):
            if c in out:
                return
            out.append(c)
            if isinstance(c, ClassInfo):
                for b in self.resolved_bases(c):
                    go(b)

        go(ci)
        return out

    def is_subclass_of(self, ci: ClassInfo, dotted_names) -> bool:
        return any(isinstance(b, str) and b in dotted_names for b in self.mro(ci))

    def is_transformer(self, ci: ClassInfo) -> bool:
        return self.is_subclass_of(ci, TRANSFORMER_BASES)

    def is_visitor(self, ci: ClassInfo) -> bool:
        return self.is_subclass_of(ci, VISITOR_BASES | TRANSFORMER_BASES)

    def find_method(self, ci: ClassInfo, name: str, skip_self: bool = False) -> Optional[FuncInfo]:
        for c in self.mro(ci)[(1 if skip_self else 0):]:
            if isinstance(c, ClassInfo) and name in c.methods:
                return c.methods[name]
        return None

    def all_methods(self, ci: ClassInfo) -> Dict[str, FuncInfo]:
        d: Dict[str, FuncInfo] = {}
        for c in reversed(self.mro(ci)):
            if isinstance(c, ClassInfo):
                d.update(c.methods)
        return d

    def subclasses(self, ci: ClassInfo) -> List[ClassInfo]:
        return [k for k in self.classes.values() if k is not ci and ci in self.mro(k)]

    # ------------------------------------------------------------------ stats
    def stats(self) -> dict:
        return {
            "repo": self.repo,
            "digest": self.digest,
            "files": sorted(m.relpath for m in self.modules.values()),
            "n_files": len(self.modules),
            "n_classes": len(self.classes),
            "n_functions": len(self.funcs),
        }


_MODEL_CACHE: Dict[str, Model] = {}


def get_model(repo: Optional[str] = None) -> Model:
    repo = repo or os.environ.get("FUNC_ADL_REPO", "/repo")
    if repo not in _MODEL_CACHE:
        _MODEL_CACHE[repo] = Model(repo)
    return _MODEL_CACHE[repo]


if __name__ == "__main__":
    m = get_model(sys.argv[1] if len(sys.argv) > 1 else None)
    import json

    print(json.dumps(m.stats(), indent=1))
    for q in sorted(m.funcs):
        print(q)
