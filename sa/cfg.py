"""E1 - statement-level control-flow graph, dominators, must-facts, bounded path enumeration.

Hand-built over the statement kinds the repository uses.  No execution, no solver:
 * ``dominates`` / ``postdominates`` (normal exits only, or including raise exits)
 * ``facts_at(node)``: branch/assert conditions that hold on *every* path reaching a node
   (forward must-analysis; a fact is killed when a name it mentions is re-assigned)
 * ``expr_facts(expr)``: the above plus short-circuit / conditional-expression context inside one statement
 * ``paths()``: entry->exit paths with every node visited at most twice (one loop unrolling), bounded
"""
from __future__ import annotations

import ast
from typing import Callable, Dict, Iterable, Iterator, List, Optional, Set, Tuple

from .model import AnalysisError, ancestors, parent

Atom = Tuple[ast.AST, bool]

MAX_PATHS = 4096


class CNode:
    __slots__ = ("id", "kind", "ast", "stmt", "succ", "pred")

    def __init__(self, id: int, kind: str, node: Optional[ast.AST], stmt: Optional[ast.AST]):
        self.id = id
        self.kind = kind  # entry exit raise stmt test assert for with try handler return raisestmt break continue
        self.ast = node  # the expression/statement evaluated at this node
        self.stmt = stmt  # the owning statement
        self.succ: List[Tuple["CNode", Tuple[Atom, ...]]] = []
        self.pred: List[Tuple["CNode", Tuple[Atom, ...]]] = []

    def __repr__(self):
        ln = getattr(self.stmt or self.ast, "lineno", "")
        return f"<{self.id}:{self.kind}@{ln}>"


def _unbool(e: ast.expr) -> ast.expr:
    """bool(x) as a truth value is x"""
    while isinstance(e, ast.Call) and isinstance(e.func, ast.Name) and e.func.id == "bool" and len(e.args) == 1 and not e.keywords:
        e = e.args[0]
    return e


def facts_true(e: ast.expr) -> List[Atom]:
    e = _unbool(e)
    if isinstance(e, ast.BoolOp) and isinstance(e.op, ast.And):
        return [a for v in e.values for a in facts_true(v)]
    if isinstance(e, ast.UnaryOp) and isinstance(e.op, ast.Not):
        return facts_false(e.operand)
    if isinstance(e, ast.NamedExpr):
        return [(e, True)] + facts_true(e.value)
    return [(e, True)]


def facts_false(e: ast.expr) -> List[Atom]:
    e = _unbool(e)
    if isinstance(e, ast.BoolOp) and isinstance(e.op, ast.Or):
        return [a for v in e.values for a in facts_false(v)]
    if isinstance(e, ast.UnaryOp) and isinstance(e.op, ast.Not):
        return facts_true(e.operand)
    return [(e, False)]


def assigned_names(n: ast.AST) -> Set[str]:
    """Names (re)bound by executing statement/expression n itself (not nested blocks)."""
    out: Set[str] = set()

    def targets(t):
        for x in ast.walk(t):
            if isinstance(x, ast.Name):
                out.add(x.id)

    if isinstance(n, ast.Assign):
        for t in n.targets:
            targets_store(t, out)
    elif isinstance(n, (ast.AugAssign, ast.AnnAssign)):
        targets_store(n.target, out)
    elif isinstance(n, (ast.For, ast.AsyncFor)):
        targets_store(n.target, out)
    elif isinstance(n, (ast.With, ast.AsyncWith)):
        for it in n.items:
            if it.optional_vars is not None:
                targets_store(it.optional_vars, out)
    elif isinstance(n, (ast.Import, ast.ImportFrom)):
        for a in n.names:
            out.add((a.asname or a.name).split(".")[0])
    elif isinstance(n, (ast.FunctionDef, ast.AsyncFunctionDef, ast.ClassDef)):
        out.add(n.name)
    elif isinstance(n, ast.Delete):
        for t in n.targets:
            targets_store(t, out)
    elif isinstance(n, ast.ExceptHandler):
        if n.name:
            out.add(n.name)
    # attribute stores kill facts that mention the same attribute name (pseudo-name "attr:<f>")
    if isinstance(n, (ast.Assign, ast.AugAssign, ast.AnnAssign, ast.Delete)):
        tgts = n.targets if isinstance(n, (ast.Assign, ast.Delete)) else [n.target]
        for t in tgts:
            for x in ast.walk(t):
                if isinstance(x, ast.Attribute) and isinstance(x.ctx, (ast.Store, ast.Del)):
                    out.add("attr:" + x.attr)
    # walrus anywhere in the evaluated expressions of this node
    for x in _own_exprs(n):
        for y in ast.walk(x):
            if isinstance(y, ast.NamedExpr) and isinstance(y.target, ast.Name):
                out.add(y.target.id)
    return out


def targets_store(t: ast.AST, out: Set[str]) -> None:
    if isinstance(t, ast.Name):
        out.add(t.id)
    elif isinstance(t, (ast.Tuple, ast.List)):
        for e in t.elts:
            targets_store(e, out)
    elif isinstance(t, ast.Starred):
        targets_store(t.value, out)
    # attribute / subscript stores do not rebind a name


def _own_exprs(n: ast.AST) -> List[ast.AST]:
    """expressions evaluated by the CFG node for n (excluding nested statement blocks)."""
    if isinstance(n, ast.expr):
        return [n]
    if isinstance(n, (ast.If, ast.While)):
        return [n.test]
    if isinstance(n, (ast.For, ast.AsyncFor)):
        return [n.iter]
    if isinstance(n, (ast.With, ast.AsyncWith)):
        return [it.context_expr for it in n.items]
    if isinstance(n, (ast.FunctionDef, ast.AsyncFunctionDef, ast.ClassDef, ast.Try, ast.ExceptHandler)):
        return []
    if isinstance(n, ast.stmt):
        return [c for c in ast.iter_child_nodes(n) if isinstance(c, ast.expr)]
    return []


def _exhaustion_facts(s: ast.For) -> Tuple[Atom, ...]:
    """`for x in S: if T(x): return ..` (nothing else in the body, no break): when the loop runs out, no element
    satisfied T - the fact `any(T(x) for x in S)` is False, as if the loop had been written with any()."""
    if isinstance(s, ast.AsyncFor) or len(s.body) != 1 or not isinstance(s.body[0], ast.If) or s.body[0].orelse:
        return ()
    br = s.body[0]
    if not br.body or not isinstance(br.body[-1], (ast.Return, ast.Raise)):
        return ()
    if any(isinstance(x, (ast.NamedExpr, ast.Await, ast.Yield, ast.YieldFrom)) for x in ast.walk(br.test)):
        return ()
    gen = ast.GeneratorExp(elt=br.test, generators=[ast.comprehension(target=s.target, iter=s.iter, ifs=[], is_async=0)])
    atom = ast.Call(func=ast.Name(id="any", ctx=ast.Load()), args=[gen], keywords=[])
    ast.copy_location(atom, s)
    ast.copy_location(gen, s)
    atom._parent = s  # type: ignore
    gen._parent = atom  # type: ignore
    atom.func._parent = atom  # type: ignore
    return ((atom, False),)


def names_in(e: ast.AST) -> Set[str]:
    return {x.id for x in ast.walk(e) if isinstance(x, ast.Name)} | {"attr:" + x.attr for x in ast.walk(e) if isinstance(x, ast.Attribute)}


class CFG:
    def __init__(self, func: ast.AST):
        self.func = func
        self.nodes: List[CNode] = []
        self.map: Dict[int, CNode] = {}
        self.entry = self._new("entry", None, None)
        self.exit = self._new("exit", None, None)
        self.raise_exit = self._new("raise", None, None)
        body = func.body if not isinstance(func, ast.Lambda) else [ast.Return(value=func.body)]
        if isinstance(func, ast.Lambda):
            body[0].lineno = func.lineno  # type: ignore
        fr = self._seq(body, [(self.entry, ())], _Ctx())
        self._connect(fr, self.exit)
        self._dom: Optional[Dict[CNode, Set[CNode]]] = None
        self._pdom: Dict[bool, Dict[CNode, Set[CNode]]] = {}
        self._facts_in: Optional[Dict[CNode, Dict[str, Atom]]] = None

    # ------------------------------------------------------------------ construction
    def _new(self, kind, node, stmt) -> CNode:
        n = CNode(len(self.nodes), kind, node, stmt)
        self.nodes.append(n)
        return n

    def _edge(self, a: CNode, b: CNode, facts: Tuple[Atom, ...] = ()) -> None:
        a.succ.append((b, facts))
        b.pred.append((a, facts))

    def _connect(self, frontier, b: CNode) -> None:
        for a, f in frontier:
            self._edge(a, b, tuple(f))

    def _seq(self, stmts, frontier, ctx):
        for s in stmts:
            frontier = self._stmt(s, frontier, ctx)
        return frontier

    def _reg(self, n: CNode, *asts) -> None:
        for a in asts:
            if a is not None:
                self.map[id(a)] = n
        ctx_nodes = getattr(self, "_recording", None)
        if ctx_nodes is not None:
            for lst in ctx_nodes:
                lst.append(n)

    def _stmt(self, s: ast.stmt, frontier, ctx: "_Ctx"):
        if isinstance(s, ast.If):
            t = self._new("test", s.test, s)
            self._reg(t, s, s.test)
            self._connect(frontier, t)
            o1 = self._seq(s.body, [(t, tuple(facts_true(s.test)))], ctx)
            o2 = self._seq(s.orelse, [(t, tuple(facts_false(s.test)))], ctx)
            return o1 + o2
        if isinstance(s, ast.While):
            t = self._new("test", s.test, s)
            self._reg(t, s, s.test)
            self._connect(frontier, t)
            inner = _Ctx(ctx, loop_head=t)
            body_out = self._seq(s.body, [(t, tuple(facts_true(s.test)))], inner)
            self._connect(body_out, t)
            for c in inner.continues:
                self._edge(c, t)
            always = isinstance(s.test, ast.Constant) and bool(s.test.value)
            out = [] if always else self._seq(s.orelse, [(t, tuple(facts_false(s.test)))], ctx)
            return out + [(b, ()) for b in inner.breaks]
        if isinstance(s, (ast.For, ast.AsyncFor)):
            f = self._new("for", s, s)
            self._reg(f, s, s.iter, s.target)
            self._connect(frontier, f)
            inner = _Ctx(ctx, loop_head=f)
            body_out = self._seq(s.body, [(f, ())], inner)
            self._connect(body_out, f)
            for c in inner.continues:
                self._edge(c, f)
            out = self._seq(s.orelse, [(f, _exhaustion_facts(s) if not inner.breaks else ())], ctx)
            return out + [(b, ()) for b in inner.breaks]
        if isinstance(s, (ast.With, ast.AsyncWith)):
            w = self._new("with", s, s)
            self._reg(w, s, *[it.context_expr for it in s.items], *[it.optional_vars for it in s.items])
            self._connect(frontier, w)
            return self._seq(s.body, [(w, ())], ctx)
        if isinstance(s, ast.Try) or (hasattr(ast, "TryStar") and isinstance(s, ast.TryStar)):
            te = self._new("try", s, s)
            self._reg(te, s)
            self._connect(frontier, te)
            handlers = []
            for h in s.handlers:
                hn = self._new("handler", h, s)
                self._reg(hn, h)
                handlers.append(hn)
            inner = _Ctx(ctx, handlers=handlers)
            rec: List[CNode] = []
            self._recording = getattr(self, "_recording", None) or []
            self._recording.append(rec)
            body_out = self._seq(s.body, [(te, ())], inner)
            self._recording.remove(rec)
            if not self._recording:
                self._recording = None
            for n in [te] + rec:
                for hn in handlers:
                    self._edge(n, hn)
            out = self._seq(s.orelse, body_out, ctx)
            rec_h: List[CNode] = []
            if s.finalbody:
                self._recording = getattr(self, "_recording", None) or []
                self._recording.append(rec_h)
            for h, hn in zip(s.handlers, handlers):
                out = out + self._seq(h.body, [(hn, ())], ctx)
            if s.finalbody:
                self._recording.remove(rec_h)
                if not self._recording:
                    self._recording = None
                # the finally block also runs when the protected code returns or raises: those exits are routed
                # through it (one instance of the block; what follows it is the union of the continuations)
                inside = [te] + rec + rec_h
                returns = [n for n in inside if n.kind == "return"]
                for r in returns:
                    r.succ = [(x, f) for x, f in r.succ if x is not self.exit]
                    self.exit.pred = [(x, f) for x, f in self.exit.pred if x is not r]
                raising = [n for n in inside if n.kind not in ("return", "break", "continue")]
                fin_in = list(out) + [(r, ()) for r in returns] + [(n, ()) for n in raising]
                out = self._seq(s.finalbody, fin_in, ctx)
                for n, _f in out:
                    if returns:
                        self._edge(n, self.exit)
                    self._edge(n, self.raise_exit)
            return out
        if isinstance(s, ast.Return):
            r = self._new("return", s, s)
            self._reg(r, s)
            self._connect(frontier, r)
            self._edge(r, self.exit)
            return []
        if isinstance(s, ast.Raise):
            r = self._new("raisestmt", s, s)
            self._reg(r, s)
            self._connect(frontier, r)
            hs = ctx.all_handlers()
            for hn in hs:
                self._edge(r, hn)
            self._edge(r, self.raise_exit)
            return []
        if isinstance(s, ast.Assert):
            a = self._new("assert", s.test, s)
            self._reg(a, s, s.test)
            self._connect(frontier, a)
            self._edge(a, self.raise_exit, tuple(facts_false(s.test)))
            return [(a, tuple(facts_true(s.test)))]
        if isinstance(s, ast.Break):
            b = self._new("break", s, s)
            self._reg(b, s)
            self._connect(frontier, b)
            lp = ctx.loop()
            if lp is None:
                raise AnalysisError("break outside loop")
            lp.breaks.append(b)
            return []
        if isinstance(s, ast.Continue):
            c = self._new("continue", s, s)
            self._reg(c, s)
            self._connect(frontier, c)
            lp = ctx.loop()
            if lp is None:
                raise AnalysisError("continue outside loop")
            lp.continues.append(c)
            return []
        if hasattr(ast, "Match") and isinstance(s, ast.Match):
            m = self._new("stmt", s, s)
            self._reg(m, s, s.subject)
            self._connect(frontier, m)
            out = [(m, ())]
            for case in s.cases:
                out = out + self._seq(case.body, [(m, ())], ctx)
            return out
        n = self._new("stmt", s, s)
        self._reg(n, s)
        self._connect(frontier, n)
        return [(n, ())]

    # ------------------------------------------------------------------ lookup
    def node_of(self, a: ast.AST) -> CNode:
        x: Optional[ast.AST] = a
        while x is not None and x is not self.func:
            n = self.map.get(id(x))
            if n is not None:
                return n
            x = parent(x)
        raise AnalysisError(f"no CFG node for ast at line {getattr(a, 'lineno', '?')}")

    def has_node(self, a: ast.AST) -> bool:
        try:
            self.node_of(a)
            return True
        except AnalysisError:
            return False

    # ------------------------------------------------------------------ dominators
    def _compute_dom(self, entry: CNode, preds: Callable[[CNode], Iterable[CNode]]) -> Dict[CNode, Set[CNode]]:
        allset = set(self.nodes)
        dom = {n: set(allset) for n in self.nodes}
        dom[entry] = {entry}
        changed = True
        while changed:
            changed = False
            for n in self.nodes:
                if n is entry:
                    continue
                ps = list(preds(n))
                if ps:
                    new = set.intersection(*[dom[p] for p in ps]) | {n}
                else:
                    new = {n}  # unreachable
                if new != dom[n]:
                    dom[n] = new
                    changed = True
        return dom

    def dominates(self, a: CNode, b: CNode) -> bool:
        if self._dom is None:
            self._dom = self._compute_dom(self.entry, lambda n: [p for p, _ in n.pred])
        return a in self._dom[b]

    def reachable(self, n: CNode) -> bool:
        return self.dominates(self.entry, n) and (n is self.entry or bool(n.pred))

    def postdominates(self, a: CNode, b: CNode, include_raise: bool = False) -> bool:
        """a is on every path from b to the normal exit (or to any exit when include_raise)."""
        if include_raise not in self._pdom:
            # virtual sink
            sink = CNode(-1, "sink", None, None)
            succs: Dict[CNode, List[CNode]] = {n: [s for s, _ in n.succ] for n in self.nodes}
            succs[self.exit] = [sink]
            if include_raise:
                succs[self.raise_exit] = [sink]
            succs[sink] = []
            nodes = self.nodes + [sink]
            allset = set(nodes)
            pd = {n: set(allset) for n in nodes}
            pd[sink] = {sink}
            changed = True
            while changed:
                changed = False
                for n in nodes:
                    if n is sink:
                        continue
                    ss = succs[n]
                    if not include_raise:
                        ss = [s for s in ss if s is not self.raise_exit]
                    if ss:
                        new = set.intersection(*[pd[s] for s in ss]) | {n}
                    else:
                        new = set(allset) if n is not self.raise_exit else {n}
                        new = new | {n}
                    if new != pd[n]:
                        pd[n] = new
                        changed = True
            self._pdom[include_raise] = pd
        return a in self._pdom[include_raise][b]

    # ------------------------------------------------------------------ must-facts
    @staticmethod
    def atom_key(a: Atom) -> str:
        return ("+" if a[1] else "-") + ast.dump(a[0])

    def _compute_facts(self) -> None:
        universe: Dict[str, Atom] = {}
        for n in self.nodes:
            for _s, fs in n.succ:
                for a in fs:
                    universe[self.atom_key(a)] = a
        names = {k: names_in(a[0]) for k, a in universe.items()}
        kills: Dict[CNode, Set[str]] = {}
        for n in self.nodes:
            ks: Set[str] = set()
            if n.ast is not None:
                src = n.stmt if n.kind in ("stmt", "for", "with", "return", "raisestmt") else n.ast
                ks = assigned_names(src) if src is not None else set()
                if n.kind == "handler":
                    ks = assigned_names(n.ast)
            kills[n] = ks
        TOP = set(universe)
        IN: Dict[CNode, Set[str]] = {n: set(TOP) for n in self.nodes}
        OUT: Dict[CNode, Set[str]] = {n: set(TOP) for n in self.nodes}
        IN[self.entry] = set()
        OUT[self.entry] = set()
        changed = True
        while changed:
            changed = False
            for n in self.nodes:
                if n is self.entry:
                    continue
                if n.pred:
                    acc: Optional[Set[str]] = None
                    for p, fs in n.pred:
                        s = OUT[p] | {self.atom_key(a) for a in fs}
                        acc = s if acc is None else (acc & s)
                    new_in = acc or set()
                else:
                    new_in = set()
                if new_in != IN[n]:
                    IN[n] = new_in
                    changed = True
                k = kills[n]
                new_out = {f for f in new_in if not (names[f] & k)} if k else new_in
                if new_out != OUT[n]:
                    OUT[n] = set(new_out)
                    changed = True
        self._facts_in = {n: {k: universe[k] for k in IN[n]} for n in self.nodes}
        self._facts_out = {n: {k: universe[k] for k in OUT[n]} for n in self.nodes}

    def facts_at(self, n: CNode) -> List[Atom]:
        if self._facts_in is None:
            self._compute_facts()
        return list(self._facts_in[n].values())  # type: ignore

    def facts_after(self, n: CNode) -> List[Atom]:
        if self._facts_in is None:
            self._compute_facts()
        return list(self._facts_out[n].values())  # type: ignore

    def expr_facts(self, e: ast.AST) -> List[Atom]:
        """facts holding when expression e (inside some statement of this function) is evaluated."""
        n = self.node_of(e)
        out = list(self.facts_at(n))
        child = e
        for a in ancestors(e):
            if isinstance(a, ast.BoolOp):
                idx = next((i for i, v in enumerate(a.values) if v is child), None)
                if idx:
                    for v in a.values[:idx]:
                        out += facts_true(v) if isinstance(a.op, ast.And) else facts_false(v)
            elif isinstance(a, ast.IfExp):
                if child is a.body:
                    out += facts_true(a.test)
                elif child is a.orelse:
                    out += facts_false(a.test)
            elif isinstance(a, ast.comprehension):
                if child in a.ifs:
                    for v in a.ifs[: a.ifs.index(child)]:
                        out += facts_true(v)
            elif isinstance(a, (ast.ListComp, ast.SetComp, ast.GeneratorExp, ast.DictComp)):
                if child is getattr(a, "elt", None) or child is getattr(a, "key", None) or child is getattr(a, "value", None):
                    for g in a.generators:
                        for v in g.ifs:
                            out += facts_true(v)
            elif isinstance(a, ast.Lambda):
                break
            if self.map.get(id(a)) is n or isinstance(a, ast.stmt):
                break
            child = a
        return out

    # ------------------------------------------------------------------ paths
    @staticmethod
    def _flag_update(n: CNode, env: Dict[str, bool]) -> Dict[str, bool]:
        """track `name = True/False` assignments along a path (boolean flag variables)."""
        s = n.stmt
        if n.kind == "stmt" and isinstance(s, ast.Assign) and len(s.targets) == 1 and isinstance(s.targets[0], ast.Name):
            env = dict(env)
            if isinstance(s.value, ast.Constant) and isinstance(s.value.value, bool):
                env[s.targets[0].id] = s.value.value
            else:
                env.pop(s.targets[0].id, None)
            return env
        ks = assigned_names(s) if (s is not None and n.kind in ("stmt", "for", "with")) else set()
        if ks & set(env):
            env = {k: v for k, v in env.items() if k not in ks}
        return env

    @staticmethod
    def _flag_feasible(facts: Tuple[Atom, ...], env: Dict[str, bool]) -> bool:
        for a, pol in facts:
            if isinstance(a, ast.Name) and a.id in env and env[a.id] != pol:
                return False
        return True

    def _steady_names(self) -> Set[str]:
        """locals whose truth value can only change by assignment: never the receiver of a method call, never
        subscript-stored or augmented. A test `if found:` taken one way fixes `found` until it is assigned again."""
        cached = getattr(self, "_steady", None)
        if cached is not None:
            return cached
        touched: Set[str] = set()
        names: Set[str] = set()
        body = getattr(self.func, "body", None)
        for st in body if isinstance(body, list) else []:
            for x in ast.walk(st):
                if isinstance(x, ast.Name):
                    names.add(x.id)
                if isinstance(x, ast.Call) and isinstance(x.func, ast.Attribute) and isinstance(x.func.value, ast.Name):
                    touched.add(x.func.value.id)
                if isinstance(x, (ast.Subscript, ast.Attribute)) and isinstance(x.ctx, (ast.Store, ast.Del)) and isinstance(x.value, ast.Name):
                    touched.add(x.value.id)
                if isinstance(x, ast.AugAssign) and isinstance(x.target, ast.Name):
                    touched.add(x.target.id)
                if isinstance(x, (ast.Global, ast.Nonlocal)):
                    touched.update(x.names)
        self._steady = names - touched  # type: ignore
        return self._steady  # type: ignore

    def _learn(self, facts: Tuple[Atom, ...], env: Dict[str, bool]) -> Dict[str, bool]:
        new = None
        for a, pol in facts:
            if isinstance(a, ast.Name) and a.id not in env and a.id in self._steady_names():
                new = dict(env) if new is None else new
                new[a.id] = pol
        return env if new is None else new

    def paths(self, to_raise: bool = False, max_paths: int = MAX_PATHS) -> List[List[CNode]]:
        """entry->exit paths, each node at most twice per path (one loop unrolling); paths that
        contradict a boolean flag variable assigned earlier on the same path are pruned."""
        out: List[List[CNode]] = []
        target = {self.exit} | ({self.raise_exit} if to_raise else set())

        def go(n: CNode, path: List[CNode], count: Dict[int, int], env: Dict[str, bool]):
            if len(out) > max_paths:
                raise AnalysisError(f"more than {max_paths} paths in {getattr(self.func, 'name', '<lambda>')}")
            if n in target:
                out.append(path + [n])
                return
            if n is self.raise_exit:
                return
            env = self._flag_update(n, env)
            for s, f in n.succ:
                if count.get(s.id, 0) >= 2:
                    continue
                if not self._flag_feasible(f, env):
                    continue
                count[s.id] = count.get(s.id, 0) + 1
                go(s, path + [n], count, self._learn(f, env))
                count[s.id] -= 1

        go(self.entry, [], {self.entry.id: 1}, {})
        return out

    def body_paths(self, head: CNode, inside: Callable[[CNode], bool], max_paths: int = MAX_PATHS) -> List[Tuple[List[CNode], List[Atom]]]:
        """paths head -> ... -> head through nodes satisfying `inside` (one loop iteration), with the
        edge facts collected along each; flag-infeasible paths pruned."""
        out: List[Tuple[List[CNode], List[Atom]]] = []

        def go(n: CNode, path: List[CNode], facts: List[Atom], env: Dict[str, bool]):
            if len(out) > max_paths:
                raise AnalysisError("too many loop-body paths")
            env = self._flag_update(n, env) if n is not head else env
            for s, f in n.succ:
                if not self._flag_feasible(f, env):
                    continue
                if s is head:
                    out.append((path + [n], facts + list(f)))
                    continue
                if s in path or not inside(s):
                    continue
                go(s, path + [n], facts + list(f), self._learn(f, env))

        go(head, [], [], {})
        return out

    def between(self, a: CNode, b: CNode) -> Set[CNode]:
        """nodes on some path from a to b (inclusive)."""
        fwd: Set[CNode] = set()
        st = [a]
        while st:
            x = st.pop()
            if x in fwd:
                continue
            fwd.add(x)
            st.extend(s for s, _ in x.succ)
        bwd: Set[CNode] = set()
        st = [b]
        while st:
            x = st.pop()
            if x in bwd:
                continue
            bwd.add(x)
            st.extend(p for p, _ in x.pred)
        return fwd & bwd


class _Ctx:
    def __init__(self, outer: Optional["_Ctx"] = None, loop_head: Optional[CNode] = None, handlers=None):
        self.outer = outer
        self.loop_head = loop_head
        self.handlers = handlers
        self.breaks: List[CNode] = []
        self.continues: List[CNode] = []

    def loop(self) -> Optional["_Ctx"]:
        c: Optional[_Ctx] = self
        while c is not None:
            if c.loop_head is not None:
                return c
            c = c.outer
        return None

    def all_handlers(self) -> List[CNode]:
        c: Optional[_Ctx] = self
        while c is not None:
            if c.handlers:
                return c.handlers
            c = c.outer
        return []


_CFG_CACHE: Dict[int, CFG] = {}


def cfg_of(func_node: ast.AST) -> CFG:
    k = id(func_node)
    if k not in _CFG_CACHE:
        _CFG_CACHE[k] = CFG(func_node)
    return _CFG_CACHE[k]
