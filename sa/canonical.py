"""Private anchors found by role when they have been renamed.

A handful of rules are stated about private helpers (`_fill_in_default_arguments`, `_rewrite_captured_vars`, ..).
Their names are not part of any interface: a maintainer may rename them at will.  Before the model is built, each
such anchor that is missing under its usual name is looked for by what it *does* (the API it calls, the methods it
defines, the module it lives in).  If exactly one definition fits, every occurrence of its name in the package
is renamed back, in the syntax trees only, so that the rules - and their reports, which keep the real file and
line - are unaffected by the renaming.  If none or several fit, nothing is done and the rule that needs the anchor
stops with an analysis error, as before.
"""
from __future__ import annotations

import ast
from typing import Callable, Dict, List, Optional, Tuple


def _calls(fn: ast.AST) -> List[str]:
    out = []
    for n in ast.walk(fn):
        if isinstance(n, ast.Call):
            try:
                out.append(ast.unparse(n.func))
            except Exception:
                pass
    return out


def _top_funcs(tree: ast.Module) -> List[ast.FunctionDef]:
    return [n for n in tree.body if isinstance(n, (ast.FunctionDef, ast.AsyncFunctionDef))]


def _top_classes(tree: ast.Module) -> List[ast.ClassDef]:
    return [n for n in tree.body if isinstance(n, ast.ClassDef)]


def _methods(c: ast.ClassDef) -> Dict[str, ast.FunctionDef]:
    return {n.name: n for n in c.body if isinstance(n, (ast.FunctionDef, ast.AsyncFunctionDef))}


def _is_transformer(c: ast.ClassDef) -> bool:
    return any(ast.unparse(b).endswith("NodeTransformer") for b in c.bases)


def _fill(tree):
    return [f for f in _top_funcs(tree) if any(c == "inspect.signature" for c in _calls(f)) and any(c.endswith("get_type_hints") for c in _calls(f))]


def _find_kw(tree):
    out = []
    for f in _top_funcs(tree):
        ps = [a.arg for a in f.args.posonlyargs + f.args.args]
        if len(ps) != 2:
            continue
        for n in ast.walk(f):
            if isinstance(n, ast.Compare) and len(n.ops) == 1 and isinstance(n.ops[0], (ast.Eq, ast.NotEq)):
                sides = [n.left, n.comparators[0]]
                if any(isinstance(s, ast.Attribute) and s.attr == "arg" for s in sides) and any(isinstance(s, ast.Name) and s.id == ps[1] for s in sides):
                    out.append(f)
                    break
    return out


def _parse_src(tree):
    return [f for f in _top_funcs(tree) if "inspect.getfullargspec" in _calls(f)]


def _local_simpl(tree):
    return [f for f in _top_funcs(tree) if "resolve_syntatic_sugar" in _calls(f) and f.name != "resolve_syntatic_sugar"]


def _token_runner(tree):
    return [c for c in _top_classes(tree) if {"tokens_till", "find_identifier"} <= set(_methods(c))]


def _capture_rewriter(tree):
    out = []
    for c in _top_classes(tree):
        init = _methods(c).get("__init__")
        if not _is_transformer(c) or init is None:
            continue
        attrs = {n.attr for n in ast.walk(init) if isinstance(n, ast.Attribute)}
        if {"nonlocals", "globals"} <= attrs:
            out.append(c)
    return out


def _lambda_resolver(tree):
    out = []
    for c in _top_classes(tree):
        ms = _methods(c)
        if not _is_transformer(c) or not {"visit_Call", "visit_Name"} <= set(ms) or c in _capture_rewriter(tree):
            continue
        vc = ms["visit_Call"]
        if any(isinstance(n, ast.Call) and isinstance(n.func, ast.Name) and n.func.id == "isinstance" and len(n.args) == 2 and ast.unparse(n.args[1]) == "ast.Lambda" and ast.unparse(n.args[0]).endswith(".func") for n in ast.walk(vc)):
            out.append(c)
    return out


def _get_executor(tree):
    out = []
    for c in _top_classes(tree):
        if c.name != "ObjectStream":
            continue
        for f in _methods(c).values():
            if any(isinstance(n, ast.Name) and n.id == "executor_attr_name" for n in ast.walk(f)) and any(ast.unparse(n).startswith("hasattr(") for n in ast.walk(f) if isinstance(n, ast.Call)):
                out.append(f)
    return out


def _nested_transformer(tree, outer_name):
    for f in _top_funcs(tree):
        if f.name == outer_name:
            cs = [c for c in f.body if isinstance(c, ast.ClassDef) and _is_transformer(c)]
            if len(cs) == 1:
                return cs[0]
            if not cs:
                # hoisted to module level: the one transformer class of the module that the function instantiates
                made = {n.func.id for n in ast.walk(f) if isinstance(n, ast.Call) and isinstance(n.func, ast.Name)}
                cs = [c for c in _top_classes(tree) if c.name in made and _is_transformer(c)]
                if len(cs) == 1:
                    return cs[0]
    return None


class _N:
    """a found attribute / method: only its name matters"""

    def __init__(self, name):
        self.name = name


def _prop_field(cls: Optional[ast.ClassDef], prop: str):
    if cls is None:
        return []
    f = _methods(cls).get(prop)
    if f is None or not any(ast.unparse(d) == "property" for d in f.decorator_list):
        return []
    body = [s for s in f.body if not (isinstance(s, ast.Expr) and isinstance(s.value, ast.Constant))]
    if len(body) == 1 and isinstance(body[0], ast.Return) and isinstance(body[0].value, ast.Attribute) and isinstance(body[0].value.value, ast.Name) and body[0].value.value.id == "self":
        return [_N(body[0].value.attr)]
    return []


def _os_cls(tree):
    cs = [c for c in _top_classes(tree) if c.name == "ObjectStream"]
    return cs[0] if len(cs) == 1 else None


def _tt(tree):
    return _nested_transformer(tree, "remap_by_types")


def _found_types(tree):
    c = _tt(tree)
    if c is None:
        return []
    vc = _methods(c).get("visit_Constant")
    if vc is None:
        return []
    names = {n.value.attr for n in ast.walk(vc) if isinstance(n, ast.Subscript) and isinstance(n.ctx, ast.Store) and isinstance(n.value, ast.Attribute) and isinstance(n.value.value, ast.Name) and n.value.value.id == "self"}
    return [_N(x) for x in sorted(names)]


def _lookup_type(tree):
    c = _tt(tree)
    ft = _found_types(tree)
    if c is None or len(ft) != 1:
        return []
    out = []
    for f in _methods(c).values():
        if f.name.startswith("visit_"):
            continue
        src = [ast.unparse(n.func) for n in ast.walk(f) if isinstance(n, ast.Call)]
        if f"self.{ft[0].name}.get" in src and len(f.args.args) == 2:
            out.append(f)
    return out


def _tt_visit_call_targets(tree):
    """(name, call) for the self.<m>(..) calls made by type_transformer.visit_Call"""
    c = _tt(tree)
    if c is None:
        return []
    vc = _methods(c).get("visit_Call")
    if vc is None:
        return []
    return [n for n in ast.walk(vc) if isinstance(n, ast.Call) and isinstance(n.func, ast.Attribute) and isinstance(n.func.value, ast.Name) and n.func.value.id == "self" and n.func.attr not in ("generic_visit", "visit")]


def _pm_function(tree):
    c = _tt(tree)
    ms = _methods(c) if c else {}
    return [ms[n.func.attr] for n in _tt_visit_call_targets(tree) if n.func.attr in ms and len(n.args) == 2 and "_global_functions" in ast.unparse(n.args[1])]


def _pm_param(tree):
    c = _tt(tree)
    ms = _methods(c) if c else {}
    return [ms[n.func.attr] for n in _tt_visit_call_targets(tree) if n.func.attr in ms and len(n.args) == 5]


def _pm_method(tree):
    c = _tt(tree)
    ms = _methods(c) if c else {}
    lt = _lookup_type(tree)
    skip = {f.name for f in _pm_function(tree) + _pm_param(tree) + lt} | {"lookup_type"}
    return [ms[n.func.attr] for n in _tt_visit_call_targets(tree) if n.func.attr in ms and len(n.args) == 2 and n.func.attr not in skip]


def _pm_callbacks(tree):
    c = _tt(tree)
    if c is None:
        return []
    return [f for f in _methods(c).values() if any(isinstance(n, ast.Constant) and n.value == "_func_adl_type_info" for n in ast.walk(f))]


def _pm_on_stream(tree):
    c = _tt(tree)
    if c is None:
        return []
    return [f for f in _methods(c).values() if "scan_for_metadata" in _calls(f)]


def _pm_follow_in_callbacks(tree):
    c = _tt(tree)
    on = _pm_on_stream(tree)
    if c is None or len(on) != 1:
        return []
    return [f for f in _methods(c).values() if f is not on[0] and any(isinstance(n, ast.Call) and isinstance(n.func, ast.Attribute) and n.func.attr == on[0].name for n in ast.walk(f))]


def _sugar(tree):
    return _nested_transformer(tree, "resolve_syntatic_sugar")


def _resolve_generator(tree):
    c = _sugar(tree)
    if c is None:
        return []
    vl = _methods(c).get("visit_ListComp")
    if vl is None:
        return []
    # the method handed (elt, generators, node): called directly, or through one forwarding helper
    names = set()
    for f in [vl] + [m for m in _methods(c).values() if not m.name.startswith("visit_")]:
        for n in ast.walk(f):
            if isinstance(n, ast.Call) and isinstance(n.func, ast.Attribute) and isinstance(n.func.value, ast.Name) and n.func.value.id == "self" and len(n.args) == 3 and ast.unparse(n.args[0]).endswith(".elt") and ast.unparse(n.args[1]).endswith(".generators"):
                names.add(n.func.attr)
    ms = _methods(c)
    got = [ms[x] for x in names if x in ms]
    if got:
        return got
    # the lowering does not use self: it may live beside the class as a module-level function the class calls
    fnames = set()
    for f in [vl] + [m for m in _methods(c).values() if not m.name.startswith("visit_")]:
        for n in ast.walk(f):
            if isinstance(n, ast.Call) and isinstance(n.func, ast.Name) and len(n.args) == 3 and ast.unparse(n.args[0]).endswith(".elt") and ast.unparse(n.args[1]).endswith(".generators"):
                fnames.add(n.func.id)
    return [f for f in _top_funcs(tree) if f.name in fnames]


def _convert_call_to_dict(tree):
    c = _sugar(tree)
    if c is None:
        return []
    ms = [f for f in _methods(c).values() if not f.name.startswith("visit_") and "ast.Dict" in _calls(f) and len(f.args.args) in (4, 5)]
    if ms:
        return ms
    # the binder does not use self: it may live beside the class as a module-level function the class calls
    called = {x for f in _methods(c).values() for x in _calls(f)}
    return [f for f in _top_funcs(tree) if f.name in called and "ast.Dict" in _calls(f) and len(f.args.args) in (3, 4)]


def _cr(tree):
    cs = _capture_rewriter(tree)
    if len(cs) == 1:
        return cs[0]
    cs = [c for c in _top_classes(tree) if c.name == "_rewrite_captured_vars"]
    return cs[0] if cs else None


def _lookup_dict(tree):
    c = _cr(tree)
    init = _methods(c).get("__init__") if c else None
    if init is None:
        return []
    out = set()
    for n in ast.walk(init):
        tg = n.targets[0] if isinstance(n, ast.Assign) and len(n.targets) == 1 else (n.target if isinstance(n, ast.AnnAssign) else None)
        v = getattr(n, "value", None)
        if isinstance(tg, ast.Attribute) and isinstance(tg.value, ast.Name) and tg.value.id == "self" and v is not None and any(isinstance(x, ast.Attribute) and x.attr == "globals" for x in ast.walk(v)):
            out.add(tg.attr)
    return [_N(x) for x in sorted(out)]


def _ignore_stack(tree):
    c = _cr(tree)
    init = _methods(c).get("__init__") if c else None
    if init is None:
        return []
    out = set()
    for n in ast.walk(init):
        tg = n.targets[0] if isinstance(n, ast.Assign) and len(n.targets) == 1 else (n.target if isinstance(n, ast.AnnAssign) else None)
        v = getattr(n, "value", None)
        if isinstance(tg, ast.Attribute) and isinstance(tg.value, ast.Name) and tg.value.id == "self" and isinstance(v, ast.List) and not v.elts:
            out.add(tg.attr)
    return [_N(x) for x in sorted(out)]


def _old_ast(tree):
    fs = _fill(tree) or [f for f in _top_funcs(tree) if f.name == "_fill_in_default_arguments"]
    if len(fs) != 1:
        return []
    names = {t.attr for n in ast.walk(fs[0]) if isinstance(n, ast.Assign) for t in n.targets if isinstance(t, ast.Attribute) and isinstance(t.value, ast.Name) and t.attr not in ("args", "keywords", "func")}
    return [_N(x) for x in sorted(names)]


def _q_metadata(tree):
    c = _os_cls(tree)
    f = _methods(c).get("QMetaData") if c else None
    if f is None:
        return []
    names = set()
    for g in [f] + [x for x in _top_funcs(tree)]:
        for n in ast.walk(g):
            if isinstance(n, ast.Assign):
                for t in n.targets:
                    if isinstance(t, ast.Attribute) and not (isinstance(t.value, ast.Name) and t.value.id == "self") and t.attr.startswith("_") and g is f:
                        names.add(t.attr)
    return [_N(x) for x in sorted(names)]


def _cs_stack_class(tree):
    out = []
    for c in _top_classes(tree):
        init = _methods(c).get("__init__")
        if init is not None and any(isinstance(n, ast.List) and len(n.elts) == 1 and isinstance(n.elts[0], ast.Dict) and not n.elts[0].keys for n in ast.walk(init)):
            out.append(c)
    return out


def _cs_frame(tree):
    out = [c for c in _top_classes(tree) if {"__enter__", "__exit__"} <= set(_methods(c))]
    out += [f for f in _top_funcs(tree) if any(ast.unparse(d).endswith("contextmanager") for d in f.decorator_list)]
    return out


def _cs_called_from(tree, dunder):
    fr = [c for c in _cs_frame(tree) if isinstance(c, ast.ClassDef)]
    st = _cs_stack_class(tree)
    if len(fr) != 1 or len(st) != 1:
        return []
    f = _methods(fr[0]).get(dunder)
    ms = _methods(st[0])
    names = {n.func.attr for n in ast.walk(f) if isinstance(n, ast.Call) and isinstance(n.func, ast.Attribute) and n.func.attr in ms} if f else set()
    return [ms[x] for x in sorted(names)]


def _cs_define(tree):
    st = _cs_stack_class(tree)
    if len(st) != 1:
        return []
    return [f for f in _methods(st[0]).values() if any(isinstance(n, ast.Assign) and isinstance(n.targets[0], ast.Subscript) and isinstance(n.targets[0].value, ast.Subscript) for n in ast.walk(f))]


def _cs_lookup(tree):
    st = _cs_stack_class(tree)
    if len(st) != 1:
        return []
    return [f for f in _methods(st[0]).values() if "reversed" in _calls(f)]


def _subscript_store_names(fn: ast.AST) -> List[str]:
    out = []
    for n in ast.walk(fn):
        if isinstance(n, ast.Assign):
            for t in n.targets:
                if isinstance(t, ast.Subscript) and isinstance(t.value, ast.Name):
                    out.append(t.value.id)
    return out


def _registry_of(tree, public_fn: str):
    fs = [f for f in _top_funcs(tree) if f.name == public_fn]
    if len(fs) != 1:
        return []
    declared = {a.arg for a in fs[0].args.args}
    names = sorted({x for x in _subscript_store_names(fs[0]) if x not in declared})
    top = {t.id for n in tree.body if isinstance(n, (ast.Assign, ast.AnnAssign)) for t in (n.targets if isinstance(n, ast.Assign) else [n.target]) if isinstance(t, ast.Name)}
    return [_N(x) for x in names if x in top]


def _load_defaults(tree):
    out = []
    for f in _top_funcs(tree):
        for n in ast.walk(f):
            if isinstance(n, ast.Assign) and any(isinstance(t, ast.Subscript) and isinstance(t.slice, ast.Constant) and t.slice.value == "len" for t in n.targets):
                out.append(f)
                break
    return out


def _any_class_prop_field(tree, prop: str):
    out = []
    for c in ast.walk(tree):
        if isinstance(c, ast.ClassDef):
            out += _prop_field(c, prop)
    names = sorted({x.name for x in out})
    return [_N(x) for x in names]


def _ds_attr(tree):
    """the attribute in which the dataset finder records the root call: self.X = node in a visit_Call that tests for EventDataset"""
    out = set()
    for c in ast.walk(tree):
        if isinstance(c, ast.ClassDef) and "visit_Call" in _methods(c):
            vc = _methods(c)["visit_Call"]
            if not any(isinstance(n, ast.Constant) and n.value == "EventDataset" for n in ast.walk(vc)) and not any(isinstance(n, ast.Call) and "is_event_dataset" in ast.unparse(n.func).lower() for n in ast.walk(vc)):
                continue
            ps = [a.arg for a in vc.args.args]
            for n in ast.walk(vc):
                if isinstance(n, ast.Assign) and len(n.targets) == 1 and isinstance(n.targets[0], ast.Attribute) and isinstance(n.targets[0].value, ast.Name) and n.targets[0].value.id == "self" and isinstance(n.value, ast.Name) and len(ps) >= 2 and n.value.id == ps[1]:
                    out.add(n.targets[0].attr)
    return [_N(x) for x in sorted(out)]


# canonical name -> (module, finder)
ROLES: Dict[str, Tuple[str, Callable]] = {
    "_fill_in_default_arguments": ("func_adl.type_based_replacement", _fill),
    "_find_keyword": ("func_adl.type_based_replacement", _find_kw),
    "_parse_source_for_lambda": ("func_adl.util_ast", _parse_src),
    "_local_simplification": ("func_adl.object_stream", _local_simpl),
    "_token_runner": ("func_adl.util_ast", _token_runner),
    "_rewrite_captured_vars": ("func_adl.util_ast", _capture_rewriter),
    "_resolve_called_lambdas": ("func_adl.util_ast", _lambda_resolver),
    "_get_executor": ("func_adl.object_stream", _get_executor),
    # fields behind public properties, and inner methods / attributes of the nested transformers
    "_q_ast": ("func_adl.object_stream", lambda t: _prop_field(_os_cls(t), "query_ast")),
    "_item_type": ("func_adl.object_stream", lambda t: _prop_field(_os_cls(t), "item_type")),
    "_stream": ("func_adl.type_based_replacement", lambda t: _prop_field(_tt(t), "stream")),
    "_found_types": ("func_adl.type_based_replacement", _found_types),
    "lookup_type": ("func_adl.type_based_replacement", _lookup_type),
    "process_function_call": ("func_adl.type_based_replacement", _pm_function),
    "process_parameterized_method_call": ("func_adl.type_based_replacement", _pm_param),
    "process_method_call": ("func_adl.type_based_replacement", _pm_method),
    "process_method_callbacks": ("func_adl.type_based_replacement", _pm_callbacks),
    "process_method_call_on_stream_obj": ("func_adl.type_based_replacement", _pm_on_stream),
    "type_follow_in_callbacks": ("func_adl.type_based_replacement", _pm_follow_in_callbacks),
    "resolve_generator": ("func_adl.ast.syntatic_sugar", _resolve_generator),
    "convert_call_to_dict": ("func_adl.ast.syntatic_sugar", _convert_call_to_dict),
    "_lookup_dict": ("func_adl.util_ast", _lookup_dict),
    "_ignore_stack": ("func_adl.util_ast", _ignore_stack),
    "_global_functions": ("func_adl.type_based_replacement", lambda t: _registry_of(t, "register_func_adl_function")),
    "_g_collection_classes": ("func_adl.type_based_replacement", lambda t: _registry_of(t, "register_func_adl_os_collection")),
    "_load_default_global_functions": ("func_adl.type_based_replacement", _load_defaults),
    "_metadata": ("func_adl.ast.meta_data", lambda t: _any_class_prop_field(t, "metadata")),
    "_found": ("func_adl.ast.meta_data", lambda t: _any_class_prop_field(t, "found")),
    "ds": ("func_adl.event_dataset", _ds_attr),
    "_old_ast": ("func_adl.type_based_replacement", _old_ast),
    "_q_metadata": ("func_adl.object_stream", _q_metadata),
    "argument_stack": ("func_adl.ast.call_stack", _cs_stack_class),
    "stack_frame": ("func_adl.ast.call_stack", _cs_frame),
    "push_stack_frame": ("func_adl.ast.call_stack", lambda t: _cs_called_from(t, "__enter__")),
    "pop_stack_frame": ("func_adl.ast.call_stack", lambda t: _cs_called_from(t, "__exit__")),
    "define_name": ("func_adl.ast.call_stack", _cs_define),
    "lookup_name": ("func_adl.ast.call_stack", _cs_lookup),
}
# names that are not underscore-prefixed but still private in effect (methods of classes nested in a function)
INNER = {"ds", "type_follow_in_callbacks", "lookup_type", "process_function_call", "process_parameterized_method_call", "process_method_call", "process_method_callbacks", "process_method_call_on_stream_obj", "resolve_generator", "convert_call_to_dict", "argument_stack", "stack_frame", "push_stack_frame", "pop_stack_frame", "define_name", "lookup_name"}


class _Rename(ast.NodeVisitor):
    def __init__(self, mapping: Dict[str, str]):
        self.m = mapping

    def generic_visit(self, node):
        if isinstance(node, ast.Name) and node.id in self.m:
            node.id = self.m[node.id]
        elif isinstance(node, ast.Attribute) and node.attr in self.m:
            node.attr = self.m[node.attr]
        elif isinstance(node, (ast.FunctionDef, ast.AsyncFunctionDef, ast.ClassDef)) and node.name in self.m:
            node.name = self.m[node.name]
        elif isinstance(node, ast.alias):
            if node.name in self.m:
                node.name = self.m[node.name]
            if node.asname in self.m:
                node.asname = self.m[node.asname]
        elif isinstance(node, ast.arg) and node.arg in self.m:
            node.arg = self.m[node.arg]
        elif isinstance(node, ast.Call) and isinstance(node.func, ast.Name) and node.func.id in ("getattr", "hasattr", "setattr", "delattr") and len(node.args) >= 2 and isinstance(node.args[1], ast.Constant) and node.args[1].value in self.m:
            node.args[1].value = self.m[node.args[1].value]
        super().generic_visit(node)


class _Deannotate(ast.NodeTransformer):
    """inside function bodies `x: T = v` is `x = v`: annotations of locals and of attribute targets are never
    evaluated there (PEP 526), so rules need to know one form of assignment only"""

    def __init__(self):
        self.depth = 0

    def visit_FunctionDef(self, node):
        self.depth += 1
        self.generic_visit(node)
        self.depth -= 1
        return node

    visit_AsyncFunctionDef = visit_FunctionDef

    def visit_Lambda(self, node):
        return node

    def visit_ClassDef(self, node):
        d, self.depth = self.depth, 0  # a class body is its own scope: annotations there are evaluated and stored
        self.generic_visit(node)
        self.depth = d
        return node

    def visit_AnnAssign(self, node: ast.AnnAssign):
        if self.depth > 0 and node.value is not None:
            return ast.copy_location(ast.Assign(targets=[node.target], value=node.value, type_comment=None), node)
        return node


def _cm_generators(tree: ast.Module) -> Dict[str, ast.FunctionDef]:
    """private generator functions / methods decorated with @contextmanager whose body is  PRE..; yield; POST..
    (no try, no value yielded, parameters used as plain names)"""
    out: Dict[str, ast.FunctionDef] = {}
    for n in ast.walk(tree):
        if isinstance(n, ast.FunctionDef) and any(ast.unparse(d).split(".")[-1] == "contextmanager" for d in n.decorator_list):
            body = [s for s in n.body if not (isinstance(s, ast.Expr) and isinstance(s.value, ast.Constant))]
            if len(body) == 1 and isinstance(body[0], ast.With) and len(body[0].items) == 1 and body[0].items[0].optional_vars is None and not any(isinstance(x, (ast.Yield, ast.YieldFrom)) for x in ast.walk(body[0].items[0].context_expr)):
                # with OTHER: PRE; yield; POST  -  the generator's own frame is another resource manager
                body = list(body[0].body)
            ys = [i for i, s in enumerate(body) if isinstance(s, ast.Expr) and isinstance(s.value, ast.Yield) and s.value.value is None]
            n_y = sum(1 for x in ast.walk(n) if isinstance(x, (ast.Yield, ast.YieldFrom)))
            if len(ys) != 1 or n_y != 1:
                continue
            if any(isinstance(x, (ast.Try, ast.Return, ast.With, ast.FunctionDef, ast.Lambda)) for s in body for x in ast.walk(s)):
                continue
            if n.args.vararg or n.args.kwarg or n.args.kwonlyargs or n.args.defaults:
                continue
            out[n.name] = n
    return out


class _InlineCM(ast.NodeTransformer):
    """`with self._cm(x): BODY` where _cm is `PRE; yield; POST` and BODY has no return/break/continue  ->  PRE; BODY; POST
    (exactly what runs when nothing raises; on an exception neither form runs POST)"""

    def __init__(self, gens: Dict[str, ast.FunctionDef]):
        self.gens = gens
        self.n = 0

    def _expand(self, node: ast.With):
        if len(node.items) != 1 or node.items[0].optional_vars is not None:
            return None
        c = node.items[0].context_expr
        if not isinstance(c, ast.Call) or c.keywords or any(isinstance(a, ast.Starred) for a in c.args):
            return None
        if isinstance(c.func, ast.Name):
            name, recv = c.func.id, None
        elif isinstance(c.func, ast.Attribute) and isinstance(c.func.value, ast.Name):
            name, recv = c.func.attr, c.func.value
        else:
            return None
        g = self.gens.get(name)
        if g is None:
            return None
        params = [a.arg for a in g.args.posonlyargs + g.args.args]
        if recv is not None:
            if not params:
                return None
            bind = {params[0]: recv}
            params = params[1:]
        else:
            bind = {}
        if len(params) != len(c.args):
            return None
        # `with cm(..): ..; return e` (the return the last statement of the block, no other exit in it): when the block
        # returns, the generator is resumed after its yield, so POST runs between evaluating e and returning it
        tail_ret = None
        wbody = list(node.body)
        if wbody and isinstance(wbody[-1], ast.Return) and wbody[-1].value is not None and not any(isinstance(x, (ast.Return, ast.Break, ast.Continue, ast.Yield, ast.YieldFrom)) for s in wbody[:-1] for x in ast.walk(s)) and not any(isinstance(x, (ast.Yield, ast.YieldFrom)) for x in ast.walk(wbody[-1])):
            self.n += 1
            tmpr = f"_cm_result_{self.n}"
            tail_ret = ast.copy_location(ast.Return(value=ast.copy_location(ast.Name(id=tmpr, ctx=ast.Load()), wbody[-1])), wbody[-1])
            wbody[-1] = ast.copy_location(ast.Assign(targets=[ast.copy_location(ast.Name(id=tmpr, ctx=ast.Store()), wbody[-1])], value=wbody[-1].value, type_comment=None), wbody[-1])
        elif any(isinstance(x, (ast.Return, ast.Break, ast.Continue, ast.Yield, ast.YieldFrom)) for s in node.body for x in ast.walk(s)):
            return None
        pre_stmts: list = []
        for p_, a_ in zip(params, c.args):
            if isinstance(a_, (ast.Name, ast.Constant)):
                bind[p_] = a_
            else:
                self.n += 1
                tmp = f"_cm_arg_{self.n}"
                pre_stmts.append(ast.copy_location(ast.Assign(targets=[ast.Name(id=tmp, ctx=ast.Store())], value=a_, type_comment=None), node))
                bind[p_] = ast.Name(id=tmp, ctx=ast.Load())
        # parameters must not be re-bound in the generator
        for x in ast.walk(g):
            if isinstance(x, ast.Name) and isinstance(x.ctx, (ast.Store, ast.Del)) and x.id in bind:
                return None
        body = [s for s in g.body if not (isinstance(s, ast.Expr) and isinstance(s.value, ast.Constant))]
        outer_with = None
        if len(body) == 1 and isinstance(body[0], ast.With):
            outer_with = body[0]
            body = list(outer_with.body)
        yi = [i for i, s in enumerate(body) if isinstance(s, ast.Expr) and isinstance(s.value, ast.Yield)][0]

        class _S(ast.NodeTransformer):
            def visit_Name(self_, nm):
                if isinstance(nm.ctx, ast.Load) and nm.id in bind:
                    import copy as _c

                    return _c.deepcopy(bind[nm.id])
                return nm

        import copy as _copy

        def inst(stmts):
            out = []
            for s_ in stmts:
                c_ = _S().visit(_copy.deepcopy(s_))
                for x in ast.walk(c_):
                    if hasattr(x, "lineno"):
                        x.lineno = node.lineno
                        x.end_lineno = getattr(node, "end_lineno", node.lineno)
                out.append(c_)
            return out

        if outer_with is not None:
            # with self._cm(x): BODY  ->  with OTHER: PRE; BODY; POST  (OTHER is left for the next round of inlining)
            shell = _S().visit(_copy.deepcopy(ast.With(items=outer_with.items, body=[ast.Pass()], type_comment=None)))
            shell.body = inst(body[:yi]) + wbody + inst(body[yi + 1:])
            ast.copy_location(shell, node)
            for x in ast.walk(shell.items[0].context_expr):
                if hasattr(x, "lineno"):
                    x.lineno = node.lineno
                    x.end_lineno = getattr(node, "end_lineno", node.lineno)
            return pre_stmts + [shell] + ([tail_ret] if tail_ret is not None else [])
        return pre_stmts + inst(body[:yi]) + wbody + inst(body[yi + 1:]) + ([tail_ret] if tail_ret is not None else [])

    def generic_visit(self, node):
        super().generic_visit(node)
        for fld in ("body", "orelse", "finalbody"):
            stmts = getattr(node, fld, None)
            if isinstance(stmts, list) and any(isinstance(s, ast.With) for s in stmts):
                new = []
                for s in stmts:
                    rep = self._expand(s) if isinstance(s, ast.With) else None
                    new.extend(rep if rep is not None else [s])
                setattr(node, fld, new)
        return node


def _simple(e: ast.AST, target: str) -> bool:
    """evaluating e has no effect and does not read `target`"""
    if isinstance(e, ast.Constant):
        return True
    if isinstance(e, ast.Name):
        return e.id != target
    if isinstance(e, ast.Attribute):
        return _simple(e.value, target)
    return False


def _first_walrus(e: ast.AST):
    """the NamedExpr that is evaluated before anything else in e that could matter (only effect-free reads of other names
    precede it), or None. Returns (parent, field, index, node)."""

    def go(node, parent, field, index, before):
        # `before`: predicate saying whether everything evaluated so far is simple w.r.t. a target
        if isinstance(node, ast.NamedExpr):
            inner = go(node.value, node, "value", None, before)
            if inner is not None:
                return inner
            if isinstance(node.target, ast.Name) and all(_simple(b, node.target.id) for b in before):
                return (parent, field, index, node)
            return None
        if isinstance(node, (ast.Lambda, ast.ListComp, ast.SetComp, ast.DictComp, ast.GeneratorExp, ast.Await, ast.Yield, ast.YieldFrom)):
            return None
        if isinstance(node, ast.BoolOp):
            return go(node.values[0], node, "values", 0, before)
        if isinstance(node, ast.IfExp):
            return go(node.test, node, "test", None, before)
        if isinstance(node, ast.Compare):
            r = go(node.left, node, "left", None, before)
            if r is not None or len(node.comparators) != 1:
                return r
            return go(node.comparators[0], node, "comparators", 0, before + [node.left])
        if isinstance(node, ast.UnaryOp):
            return go(node.operand, node, "operand", None, before)
        if isinstance(node, ast.BinOp):
            r = go(node.left, node, "left", None, before)
            return r if r is not None else go(node.right, node, "right", None, before + [node.left])
        if isinstance(node, ast.Attribute):
            return go(node.value, node, "value", None, before)
        if isinstance(node, ast.Subscript):
            r = go(node.value, node, "value", None, before)
            return r if r is not None else go(node.slice, node, "slice", None, before + [node.value])
        if isinstance(node, ast.Call):
            r = go(node.func, node, "func", None, before)
            seen = before + [node.func]
            for i, a in enumerate(node.args):
                if r is not None:
                    return r
                if isinstance(a, ast.Starred):
                    return None
                r = go(a, node, "args", i, seen)
                seen = seen + [a]
            return r
        if isinstance(node, (ast.Tuple, ast.List)):
            seen = list(before)
            for i, a in enumerate(node.elts):
                r = go(a, node, "elts", i, seen)
                if r is not None:
                    return r
                seen = seen + [a]
            return None
        return None

    return go(e, None, None, None, [])


class _HoistWalrus(ast.NodeTransformer):
    """`if (x := f(a)) is not None: ..`  ->  `x = f(a)` followed by `if x is not None: ..` (same for the value of an
    assignment / return / expression statement) when the assignment expression is evaluated before anything else in the
    statement that could tell the difference. Inside functions only; loops' tests and comprehensions are left alone."""

    def __init__(self):
        self.n = 0

    def _hoist(self, stmt):
        pre = []
        for _ in range(4):
            if isinstance(stmt, ast.If):
                holder, fld = stmt, "test"
            elif isinstance(stmt, (ast.Assign, ast.AugAssign, ast.Return, ast.Expr)) and getattr(stmt, "value", None) is not None:
                holder, fld = stmt, "value"
            else:
                break
            root = getattr(holder, fld)
            if isinstance(root, ast.NamedExpr) and isinstance(root.target, ast.Name):
                found = (holder, fld, None, root)
            else:
                found = _first_walrus(root)
                if found is not None and found[0] is None:
                    found = (holder, fld, None, found[3])
            if found is None:
                break
            parent, field, index, w = found
            pre.append(ast.copy_location(ast.Assign(targets=[ast.Name(id=w.target.id, ctx=ast.Store())], value=w.value, type_comment=None), stmt))
            repl = ast.copy_location(ast.Name(id=w.target.id, ctx=ast.Load()), w)
            if index is None:
                setattr(parent, field, repl)
            else:
                getattr(parent, field)[index] = repl
            self.n += 1
        return pre

    def _split_and(self, stmt: ast.If) -> ast.If:
        """`if A and f(x := E) and C: BODY` (no else)  ->  `if A: x = E; if f(x) and C: BODY`: the conjuncts before the one
        that assigns are tested first, exactly as `and` does"""
        for _ in range(3):
            t = stmt.test
            if not (isinstance(t, ast.BoolOp) and isinstance(t.op, ast.And)):
                return stmt
            # an else branch is written out under both tests (a short one without definitions only)
            small_else = len(stmt.orelse) <= 3 and not any(isinstance(x, (ast.FunctionDef, ast.AsyncFunctionDef, ast.ClassDef, ast.Lambda, ast.NamedExpr)) for o_ in stmt.orelse for x in ast.walk(o_)) and sum(1 for o_ in stmt.orelse for _x in ast.walk(o_)) <= 60
            if stmt.orelse and not small_else:
                return stmt
            k = next((i for i, v in enumerate(t.values) if i > 0 and any(isinstance(x, ast.NamedExpr) for x in ast.walk(v))), None)
            if k is None or any(isinstance(x, ast.NamedExpr) for v in t.values[:k] for x in ast.walk(v)):
                return stmt
            rest_vals = t.values[k:]
            inner_test = rest_vals[0] if len(rest_vals) == 1 else ast.copy_location(ast.BoolOp(op=ast.And(), values=rest_vals), t)
            import copy as _copy

            inner = ast.copy_location(ast.If(test=inner_test, body=stmt.body, orelse=_copy.deepcopy(stmt.orelse)), stmt)
            pre = self._hoist(inner)
            if not pre:
                return stmt
            inner = self._split_and(inner)
            outer_vals = t.values[:k]
            outer_test = outer_vals[0] if len(outer_vals) == 1 else ast.copy_location(ast.BoolOp(op=ast.And(), values=outer_vals), t)
            stmt = ast.copy_location(ast.If(test=outer_test, body=pre + [inner], orelse=stmt.orelse), stmt)
        return stmt

    def generic_visit(self, node):
        super().generic_visit(node)
        for fld in ("body", "orelse", "finalbody"):
            stmts = getattr(node, fld, None)
            if isinstance(stmts, list) and stmts and isinstance(stmts[0], ast.stmt):
                new = []
                for s_ in stmts:
                    if any(isinstance(x, ast.NamedExpr) for x in ast.walk(s_) if not isinstance(s_, (ast.FunctionDef, ast.ClassDef, ast.AsyncFunctionDef, ast.For, ast.While, ast.With, ast.Try))):
                        new.extend(self._hoist(s_))
                        if isinstance(s_, ast.If) and any(isinstance(x, ast.NamedExpr) for x in ast.walk(s_.test)):
                            s_ = self._split_and(s_)
                    new.append(s_)
                setattr(node, fld, new)
        return node


# record types of the code base itself (declared with the functional NamedTuple("..", [..]) form there): their fields are
# read by name in the rules, so the class form of the same record is left a record
ANCHOR_RECORDS = {"_FuncAdlFunction"}


def _record_classes(trees: Dict[str, ast.Module]) -> Dict[str, List[tuple]]:
    """private NamedTuple classes written in class form with nothing but fields: {class name: [(field, default expr or None)]}"""
    out: Dict[str, List[tuple]] = {}
    dup = set()
    for t in trees.values():
        for c in ast.walk(t):
            if not isinstance(c, ast.ClassDef) or not any(ast.unparse(b).split(".")[-1] == "NamedTuple" for b in c.bases):
                continue
            fields = []
            ok = True
            for st in c.body:
                if isinstance(st, ast.Expr) and isinstance(st.value, ast.Constant):
                    continue
                if isinstance(st, ast.AnnAssign) and isinstance(st.target, ast.Name):
                    fields.append((st.target.id, st.value))
                    continue
                ok = False
            if not ok or not fields or c.decorator_list or c.name in ANCHOR_RECORDS:
                continue
            if c.name in out:
                dup.add(c.name)
            out[c.name] = fields
    for d in dup:
        out.pop(d, None)
    return out


def _as_tuple(call: ast.Call, fields: List[tuple]):
    """C(a, b=..) -> (a, ..) in field order, or None when the call cannot be read"""
    if any(isinstance(a, ast.Starred) for a in call.args) or any(k.arg is None for k in call.keywords) or len(call.args) > len(fields):
        return None
    vals: List[Optional[ast.AST]] = list(call.args) + [None] * (len(fields) - len(call.args))
    names = [f for f, _ in fields]
    for k in call.keywords:
        if k.arg not in names or vals[names.index(k.arg)] is not None:
            return None
        vals[names.index(k.arg)] = k.value
    for i, (f, d) in enumerate(fields):
        if vals[i] is None:
            if d is None:
                return None
            import copy as _c

            vals[i] = _c.deepcopy(d)
    return ast.copy_location(ast.Tuple(elts=vals, ctx=ast.Load()), call)


def _records_to_tuples(trees: Dict[str, ast.Module]) -> List[str]:
    """A private NamedTuple is a tuple with names for its positions. For analysis: C(a, b) becomes (a, b), and r.field -
    where r is the result of a function that returns C, a C(..) itself, or a parameter annotated C - becomes r[i]."""
    recs = _record_classes(trees)
    if not recs:
        return []

    def cls_of_call(c: ast.AST) -> Optional[str]:
        if isinstance(c, ast.Call):
            nm = c.func.id if isinstance(c.func, ast.Name) else (c.func.attr if isinstance(c.func, ast.Attribute) else None)
            return nm if nm in recs else None
        return None

    def ann_cls(a: Optional[ast.AST]) -> Optional[str]:
        if a is None:
            return None
        txt = a.value if isinstance(a, ast.Constant) and isinstance(a.value, str) else ast.unparse(a)
        txt = txt.split(".")[-1]
        return txt if txt in recs else None

    # functions that return a record: by annotation, or every return constructs the same record
    all_fns = [f for t in trees.values() for f in ast.walk(t) if isinstance(f, (ast.FunctionDef, ast.AsyncFunctionDef))]
    by_name: Dict[str, List[ast.AST]] = {}
    for f in all_fns:
        by_name.setdefault(f.name, []).append(f)
    ret_cls: Dict[str, str] = {}
    for _round in range(3):
        for f in all_fns:
            if f.name in ret_cls or len(by_name[f.name]) != 1:
                continue
            c = ann_cls(f.returns)
            if c is None:
                own_rets = [r for r in _own_returns(f)]
                cs = set()
                for r in own_rets:
                    if r.value is None:
                        cs.add(None)
                    else:
                        k = cls_of_call(r.value)
                        if k is None and isinstance(r.value, ast.Call):
                            nm = r.value.func.id if isinstance(r.value.func, ast.Name) else (r.value.func.attr if isinstance(r.value.func, ast.Attribute) else None)
                            k = ret_cls.get(nm) if nm else None
                        cs.add(k)
                if len(cs) == 1 and None not in cs and own_rets:
                    c = next(iter(cs))
            if c is not None:
                ret_cls[f.name] = c

    def rec_of_expr(e: ast.AST, env: Dict[str, str]) -> Optional[str]:
        if isinstance(e, ast.Name):
            return env.get(e.id)
        k = cls_of_call(e)
        if k is not None:
            return k
        if isinstance(e, ast.Call):
            nm = e.func.id if isinstance(e.func, ast.Name) else (e.func.attr if isinstance(e.func, ast.Attribute) else None)
            return ret_cls.get(nm) if nm else None
        return None

    for f in all_fns:
        env: Dict[str, str] = {}
        for a in f.args.posonlyargs + f.args.args + f.args.kwonlyargs:
            c = ann_cls(a.annotation)
            if c is not None:
                env[a.arg] = c
        stores: Dict[str, int] = {}
        for x in _own_walk(f):
            if isinstance(x, ast.Name) and isinstance(x.ctx, ast.Store):
                stores[x.id] = stores.get(x.id, 0) + 1
        for x in _own_walk(f):
            if isinstance(x, ast.Assign) and len(x.targets) == 1 and isinstance(x.targets[0], ast.Name) and stores.get(x.targets[0].id) == 1:
                c = rec_of_expr(x.value, env)
                if c is not None:
                    env[x.targets[0].id] = c

        class _A(ast.NodeTransformer):
            def visit_FunctionDef(self_, n):
                return n if n is not f else self_.generic_visit(n)

            visit_AsyncFunctionDef = visit_FunctionDef

            def visit_Attribute(self_, n):
                self_.generic_visit(n)
                if isinstance(n.ctx, ast.Load):
                    c = rec_of_expr(n.value, env)
                    if c is not None:
                        names = [fl for fl, _ in recs[c]]
                        if n.attr in names:
                            return ast.copy_location(ast.Subscript(value=n.value, slice=ast.Constant(value=names.index(n.attr)), ctx=ast.Load()), n)
                return n

        _A().visit(f)

    class _C(ast.NodeTransformer):
        def visit_Call(self_, n):
            self_.generic_visit(n)
            k = cls_of_call(n)
            if k is not None:
                t = _as_tuple(n, recs[k])
                if t is not None:
                    return t
            return n

    for t in trees.values():
        _C().visit(t)
        ast.fix_missing_locations(t)
    return sorted(recs)


def _own_walk(f: ast.AST):
    """nodes of f's body without nested function / class bodies"""
    stack = list(ast.iter_child_nodes(f))
    while stack:
        n = stack.pop()
        yield n
        if isinstance(n, (ast.FunctionDef, ast.AsyncFunctionDef, ast.ClassDef, ast.Lambda)):
            continue
        stack.extend(ast.iter_child_nodes(n))


def _own_returns(f: ast.AST):
    return [n for n in _own_walk(f) if isinstance(n, ast.Return)]


class _FormatToFString(ast.NodeTransformer):
    """"call_{}".format(name) and "call_%s" % name are f"call_{name}": plain positional fields only (no specs, no
    indices), as many arguments as fields"""

    def visit_Call(self, node: ast.Call):
        self.generic_visit(node)
        f = node.func
        if isinstance(f, ast.Attribute) and f.attr == "format" and isinstance(f.value, ast.Constant) and isinstance(f.value.value, str) and not node.keywords and not any(isinstance(a, ast.Starred) for a in node.args):
            txt = f.value.value
            parts = txt.split("{}")
            if len(parts) == len(node.args) + 1 and not any("{" in p_ or "}" in p_ for p_ in parts):
                vals: list = []
                for i, p_ in enumerate(parts):
                    if p_:
                        vals.append(ast.Constant(value=p_))
                    if i < len(node.args):
                        vals.append(ast.FormattedValue(value=node.args[i], conversion=-1, format_spec=None))
                return ast.copy_location(ast.JoinedStr(values=vals), node)
        return node

    def visit_BinOp(self, node: ast.BinOp):
        self.generic_visit(node)
        if isinstance(node.op, ast.Mod) and isinstance(node.left, ast.Constant) and isinstance(node.left.value, str):
            txt = node.left.value
            args = list(node.right.elts) if isinstance(node.right, ast.Tuple) else [node.right]
            parts = txt.split("%s")
            if len(parts) == len(args) + 1 and not any("%" in p_ for p_ in parts) and not isinstance(node.right, (ast.Dict, ast.Name) if len(parts) != 2 else ast.Dict):
                if len(parts) == 2 and not isinstance(node.right, (ast.Constant, ast.Attribute, ast.Call, ast.Subscript, ast.JoinedStr)):
                    return node  # "%s" % x with x possibly a tuple: not the same as f"{x}"
                vals: list = []
                for i, p_ in enumerate(parts):
                    if p_:
                        vals.append(ast.Constant(value=p_))
                    if i < len(args):
                        vals.append(ast.FormattedValue(value=args[i], conversion=-1, format_spec=None))
                return ast.copy_location(ast.JoinedStr(values=vals), node)
        return node


def _alias_methods(trees: Dict[str, ast.Module]) -> int:
    """class body `name = staticmethod(f)`, f a module-level function of the package with plain positional parameters:
    written out as the static method it is -  @staticmethod def name(a, b): return f(a, b)"""
    tops: Dict[str, List[ast.FunctionDef]] = {}
    for t in trees.values():
        for f in t.body:
            if isinstance(f, ast.FunctionDef):
                tops.setdefault(f.name, []).append(f)
    n = 0
    for t in trees.values():
        for c in [x for x in ast.walk(t) if isinstance(x, ast.ClassDef)]:
            for i, st in enumerate(list(c.body)):
                if not (isinstance(st, ast.Assign) and len(st.targets) == 1 and isinstance(st.targets[0], ast.Name)):
                    continue
                v = st.value
                if isinstance(v, ast.Call) and ast.unparse(v.func) in ("functools.partialmethod", "partialmethod") and v.args and isinstance(v.args[0], ast.Name):
                    # name = partialmethod(f, a, k=b), f a method of the same class with plain parameters and the bound
                    # arguments pure: written out as  def name(self, <rest>): return self.f(a, <rest>, k=b)
                    tgt = [x for x in c.body if isinstance(x, ast.FunctionDef) and x.name == v.args[0].id]
                    if len(tgt) != 1 or tgt[0].decorator_list:
                        continue
                    fa_ = tgt[0].args
                    if fa_.vararg or fa_.kwarg or fa_.kwonlyargs or fa_.posonlyargs or fa_.defaults or not fa_.args:
                        continue
                    bound = list(v.args[1:])
                    if not all(_pure_literal(b_) or isinstance(b_, (ast.Name, ast.Attribute)) for b_ in bound + [k_.value for k_ in v.keywords]) or any(k_.arg is None for k_ in v.keywords):
                        continue
                    names_ = [x.arg for x in fa_.args]
                    rest_ = [p_ for p_ in names_[1 + len(bound):] if p_ not in {k_.arg for k_ in v.keywords}]
                    if len(bound) > len(names_) - 1 or any(k_.arg not in names_[1 + len(bound):] for k_ in v.keywords):
                        continue
                    import copy as _copy

                    fwd = ast.FunctionDef(
                        name=st.targets[0].id,
                        args=ast.arguments(posonlyargs=[], args=[ast.arg(arg=p_, annotation=None) for p_ in [names_[0]] + rest_], vararg=None, kwonlyargs=[], kw_defaults=[], kwarg=None, defaults=[]),
                        body=[ast.Return(value=ast.Call(func=ast.Attribute(value=ast.Name(id=names_[0], ctx=ast.Load()), attr=tgt[0].name, ctx=ast.Load()), args=[_copy.deepcopy(b_) for b_ in bound] + [ast.Name(id=p_, ctx=ast.Load()) for p_ in rest_], keywords=[ast.keyword(arg=k_.arg, value=_copy.deepcopy(k_.value)) for k_ in v.keywords]))],
                        decorator_list=[],
                        returns=None,
                        type_comment=None,
                    )
                    if hasattr(ast, "TypeVar"):
                        fwd.type_params = []  # type: ignore
                    ast.copy_location(fwd, st)
                    c.body[i] = fwd
                    n += 1
                    continue
                if not (isinstance(v, ast.Call) and isinstance(v.func, ast.Name) and v.func.id == "staticmethod" and len(v.args) == 1 and isinstance(v.args[0], ast.Name) and not v.keywords):
                    continue
                cands = tops.get(v.args[0].id, [])
                if len(cands) != 1:
                    continue
                f = cands[0]
                a = f.args
                if a.vararg or a.kwarg or a.kwonlyargs or a.posonlyargs or a.defaults:
                    continue
                params = [x.arg for x in a.args]
                fwd = ast.FunctionDef(
                    name=st.targets[0].id,
                    args=ast.arguments(posonlyargs=[], args=[ast.arg(arg=p_, annotation=None) for p_ in params], vararg=None, kwonlyargs=[], kw_defaults=[], kwarg=None, defaults=[]),
                    body=[ast.Return(value=ast.Call(func=ast.Name(id=f.name, ctx=ast.Load()), args=[ast.Name(id=p_, ctx=ast.Load()) for p_ in params], keywords=[]))],
                    decorator_list=[ast.Name(id="staticmethod", ctx=ast.Load())],
                    returns=None,
                    type_comment=None,
                )
                if hasattr(ast, "TypeVar"):
                    fwd.type_params = []  # type: ignore
                ast.copy_location(fwd, st)
                c.body[i] = fwd
                n += 1
        if n:
            ast.fix_missing_locations(t)
    return n


def _flatten_private_bases(trees: Dict[str, ast.Module]) -> int:
    """class C(_B) where _B is a private class of the same module that only serves as a base (never instantiated, never
    named otherwise): the methods and class-level assignments C inherits from _B are written into C, C's bases become
    _B's, and _B goes once no class derives from it any more.  Method resolution is unchanged (single inheritance: what
    C does not define is found in _B before _B's own bases, and `super()` inside a method of _B means _B's bases, which
    are C's bases afterwards).  Given up when a method of C reaches _B's version through super()."""
    import copy as _copy

    n = 0
    for t in trees.values():
        for _round in range(3):
            classes = {c.name: c for c in t.body if isinstance(c, ast.ClassDef)}
            done = False
            for b in list(classes.values()):
                if not b.name.startswith("_") or b.name.startswith("__") or b.decorator_list or b.keywords:
                    continue
                subs = [c for c in classes.values() if any(isinstance(x, ast.Name) and x.id == b.name for x in c.bases)]
                if not subs or any(len(c.bases) != 1 or c.keywords for c in subs):
                    continue
                # the base is named only in those base lists (in the whole package)
                uses = [x for tt in trees.values() for x in ast.walk(tt) if (isinstance(x, ast.Name) and x.id == b.name) or (isinstance(x, ast.Attribute) and x.attr == b.name) or (isinstance(x, ast.alias) and x.name == b.name) or (isinstance(x, ast.Constant) and x.value == b.name)]
                if len(uses) != len(subs):
                    continue
                if any(isinstance(x, (ast.ClassDef,)) for st in b.body for x in ast.walk(st)):
                    continue
                b_members = {}
                for st in b.body:
                    if isinstance(st, (ast.FunctionDef, ast.AsyncFunctionDef)):
                        b_members[st.name] = st
                    elif isinstance(st, ast.Assign) and len(st.targets) == 1 and isinstance(st.targets[0], ast.Name):
                        b_members[st.targets[0].id] = st
                    elif isinstance(st, ast.Expr) and isinstance(st.value, ast.Constant):
                        continue
                    elif isinstance(st, ast.Pass):
                        continue
                    else:
                        b_members = None
                        break
                if b_members is None:
                    continue
                ok = True
                b_init = b_members.get("__init__")
                init_sites = {}  # subclass -> the statement `super().__init__()` in its own __init__
                for c in subs:
                    c_init = next((f for f in c.body if isinstance(f, ast.FunctionDef) and f.name == "__init__"), None)
                    for x in ast.walk(c):
                        # super().m(..) / super(C, self).m(..) with m defined by the base
                        if isinstance(x, ast.Attribute) and isinstance(x.value, ast.Call) and isinstance(x.value.func, ast.Name) and x.value.func.id == "super" and x.attr in b_members:
                            site = None
                            if x.attr == "__init__" and c_init is not None and isinstance(b_init, ast.FunctionDef) and len(b_init.args.args) == 1 and not (b_init.args.vararg or b_init.args.kwarg or b_init.args.kwonlyargs):
                                # super().__init__() as a statement of C.__init__, the base's __init__ taking nothing: its
                                # statements run there
                                site = next((st for st in c_init.body if isinstance(st, ast.Expr) and isinstance(st.value, ast.Call) and st.value.func is x and not st.value.args and not st.value.keywords), None)
                            if site is None or c.name in init_sites:
                                ok = False
                            else:
                                init_sites[c.name] = (c_init, site)
                if not ok:
                    continue
                for c in subs:
                    if c.name in init_sites:
                        c_init, site = init_sites[c.name]
                        bsp, csp = b_init.args.args[0].arg, c_init.args.args[0].arg
                        spliced = []
                        for st in b_init.body:
                            if isinstance(st, ast.Expr) and isinstance(st.value, ast.Constant):
                                continue
                            st2 = _copy.deepcopy(st)
                            for n_ in ast.walk(st2):
                                if isinstance(n_, ast.Name) and n_.id == bsp:
                                    n_.id = csp
                            spliced.append(st2)
                        i_ = c_init.body.index(site)
                        c_init.body[i_:i_ + 1] = spliced or [ast.Pass()]
                    own = {st.name for st in c.body if isinstance(st, (ast.FunctionDef, ast.AsyncFunctionDef))} | {st.targets[0].id for st in c.body if isinstance(st, ast.Assign) and len(st.targets) == 1 and isinstance(st.targets[0], ast.Name)}
                    add = [_copy.deepcopy(st) for nm, st in b_members.items() if nm not in own]
                    c.body = list(c.body) + add
                    c.bases = [_copy.deepcopy(x) for x in b.bases]
                t.body = [st for st in t.body if st is not b]
                ast.fix_missing_locations(t)
                n += 1
                done = True
                break
            if not done:
                break
    return n


def _split_attr_records(trees: Dict[str, ast.Module]) -> int:
    """self.X = _Rec(a, b) in the __init__ of a class C, _Rec a private dataclass of the same module (no bases, plain
    methods), and self.X only ever used as self.X.field / self.X.method(..) inside C: the fields become attributes of
    C's object (self.X__field) and _Rec's methods private methods of C (self._X__method).  The record object cannot be
    observed as a whole, so this is the same program with the state held one level up."""
    import copy as _copy

    n_done = 0
    for t in trees.values():
        recs = {}
        for c in t.body:
            if isinstance(c, ast.ClassDef) and c.name.startswith("_") and not c.name.startswith("__") and not c.bases and not c.keywords and any(ast.unparse(d).split("(")[0].split(".")[-1] == "dataclass" for d in c.decorator_list):
                fields, methods, ok = [], {}, True
                for st in c.body:
                    if isinstance(st, ast.Expr) and isinstance(st.value, ast.Constant):
                        continue
                    if isinstance(st, ast.AnnAssign) and isinstance(st.target, ast.Name) and (st.value is None or isinstance(st.value, ast.Constant)):
                        fields.append((st.target.id, st.value))
                    elif isinstance(st, ast.FunctionDef) and not st.decorator_list and st.args.args and not st.name.startswith("__"):
                        methods[st.name] = st
                    else:
                        ok = False
                if ok and fields:
                    recs[c.name] = (fields, methods)
        if not recs:
            continue
        for C in [c for c in ast.walk(t) if isinstance(c, ast.ClassDef)]:
            init = next((f for f in C.body if isinstance(f, ast.FunctionDef) and f.name == "__init__" and f.args.args), None)
            if init is None:
                continue
            sp = init.args.args[0].arg
            for st in list(init.body):
                if not (isinstance(st, (ast.Assign, ast.AnnAssign)) and st.value is not None and isinstance(st.value, ast.Call) and isinstance(st.value.func, ast.Name) and st.value.func.id in recs):
                    continue
                tg = st.targets[0] if isinstance(st, ast.Assign) and len(st.targets) == 1 else (st.target if isinstance(st, ast.AnnAssign) else None)
                if not (isinstance(tg, ast.Attribute) and isinstance(tg.value, ast.Name) and tg.value.id == sp):
                    continue
                X = tg.attr
                fields, methods = recs[st.value.func.id]
                fnames = [f for f, _d in fields]
                call = st.value
                if any(isinstance(a, ast.Starred) for a in call.args) or any(k.arg is None or k.arg not in fnames for k in call.keywords) or len(call.args) > len(fnames):
                    continue
                given = dict(zip(fnames, call.args))
                dup = [k.arg for k in call.keywords if k.arg in given]
                given.update({k.arg: k.value for k in call.keywords})
                if dup or any(f not in given and d is None for f, d in fields):
                    continue
                # every use of the attribute name X in the module is self.X.<field or method> inside a method of C
                parents = {}
                for n in ast.walk(t):
                    for ch in ast.iter_child_nodes(n):
                        parents[id(ch)] = n
                c_funcs = [f for f in C.body if isinstance(f, ast.FunctionDef) and f.args.args]
                inside = {id(n): f for f in c_funcs for n in ast.walk(f)}
                ok = True
                uses = []
                for n in ast.walk(t):
                    if isinstance(n, ast.Attribute) and n.attr == X:
                        if n is tg:
                            continue
                        f = inside.get(id(n))
                        p_ = parents.get(id(n))
                        if f is None or not (isinstance(n.value, ast.Name) and n.value.id == f.args.args[0].arg) or not isinstance(n.ctx, ast.Load):
                            ok = False
                            break
                        if not (isinstance(p_, ast.Attribute) and p_.value is n):
                            ok = False
                            break
                        if p_.attr in fnames:
                            uses.append((p_, "field"))
                        elif p_.attr in methods and isinstance(parents.get(id(p_)), ast.Call) and parents[id(p_)].func is p_:
                            uses.append((p_, "method"))
                        else:
                            ok = False
                            break
                    if isinstance(n, ast.Constant) and n.value == X:
                        ok = False
                        break
                # the record's methods touch the record through self.<field> / self.<method>(..) only
                for mname, mdef in methods.items():
                    msp = mdef.args.args[0].arg
                    mpar = {}
                    for n in ast.walk(mdef):
                        for ch in ast.iter_child_nodes(n):
                            mpar[id(ch)] = n
                    for n in ast.walk(mdef):
                        if isinstance(n, ast.Name) and n.id == msp:
                            p_ = mpar.get(id(n))
                            if not (isinstance(p_, ast.Attribute) and p_.value is n and (p_.attr in fnames or (p_.attr in methods and isinstance(mpar.get(id(p_)), ast.Call) and mpar[id(p_)].func is p_))):
                                ok = False
                        if isinstance(n, (ast.FunctionDef, ast.Lambda, ast.ClassDef)) and n is not mdef:
                            ok = False
                existing = {f.name for f in C.body if isinstance(f, ast.FunctionDef)}
                if not ok or any(f"_{X.lstrip('_')}__{mn}" in existing for mn in methods):
                    continue
                pre = "_" + X.lstrip("_") + "__"
                # 1. the fields
                new_stmts = []
                for f, d in fields:
                    v = given.get(f, d)
                    a_ = ast.Assign(targets=[ast.Attribute(value=ast.Name(id=sp, ctx=ast.Load()), attr=f"{X}__{f}", ctx=ast.Store())], value=v, type_comment=None)
                    new_stmts.append(ast.copy_location(a_, st))
                i = init.body.index(st)
                init.body[i:i + 1] = new_stmts
                # 2. the uses
                for p_, kind in uses:
                    base = p_.value.value  # the Name self
                    if kind == "field":
                        p_.value, p_.attr = base, f"{X}__{p_.attr}"
                    else:
                        p_.value, p_.attr = base, pre + p_.attr
                # 3. the methods
                for mname, mdef in methods.items():
                    nm = _copy.deepcopy(mdef)
                    nm.name = pre + mname
                    msp = nm.args.args[0].arg
                    for n in ast.walk(nm):
                        if isinstance(n, ast.Attribute) and isinstance(n.value, ast.Name) and n.value.id == msp:
                            n.attr = f"{X}__{n.attr}" if n.attr in fnames else pre + n.attr
                    C.body.append(nm)
                ast.fix_missing_locations(t)
                n_done += 1
    return n_done


def _explicit_visit_dispatch(trees: Dict[str, ast.Module]) -> int:
    """A visitor class that overrides visit() with `if node.__class__.__name__ == "K": return self.m(node)` .. and hands
    everything else to the base class's visit(): that is the name-based dispatch of ast.NodeVisitor written out, so the
    class is read as one that defines visit_K (forwarding to m) and no visit() of its own."""
    n_done = 0
    for t in trees.values():
        for C in [c for c in ast.walk(t) if isinstance(c, ast.ClassDef) and c.bases]:
            meths = {f.name: f for f in C.body if isinstance(f, ast.FunctionDef)}
            v = meths.get("visit")
            if v is None or len(v.args.args) != 2 or v.decorator_list or v.args.vararg or v.args.kwarg or v.args.kwonlyargs:
                continue
            sp, np_ = v.args.args[0].arg, v.args.args[1].arg
            consts = {st.targets[0].id: st.value.value for st in C.body if isinstance(st, ast.Assign) and len(st.targets) == 1 and isinstance(st.targets[0], ast.Name) and isinstance(st.value, ast.Constant) and isinstance(st.value.value, str)}
            body = [st for st in v.body if not (isinstance(st, ast.Expr) and isinstance(st.value, ast.Constant))]

            def kind_of(test) -> Optional[str]:
                if isinstance(test, ast.Compare) and len(test.ops) == 1:
                    l, r = test.left, test.comparators[0]
                    is_name = (isinstance(l, ast.Attribute) and l.attr == "__name__" and ((isinstance(l.value, ast.Attribute) and l.value.attr == "__class__" and isinstance(l.value.value, ast.Name) and l.value.value.id == np_) or (isinstance(l.value, ast.Call) and isinstance(l.value.func, ast.Name) and l.value.func.id == "type" and len(l.value.args) == 1 and isinstance(l.value.args[0], ast.Name) and l.value.args[0].id == np_)))
                    if is_name and isinstance(test.ops[0], ast.Eq):
                        if isinstance(r, ast.Constant) and isinstance(r.value, str):
                            return r.value
                        if isinstance(r, ast.Attribute) and isinstance(r.value, ast.Name) and r.value.id == sp and r.attr in consts:
                            return consts[r.attr]
                    is_type = isinstance(l, ast.Call) and isinstance(l.func, ast.Name) and l.func.id == "type" and len(l.args) == 1 and isinstance(l.args[0], ast.Name) and l.args[0].id == np_
                    if is_type and isinstance(test.ops[0], ast.Is) and isinstance(r, ast.Attribute) and isinstance(r.value, ast.Name) and r.value.id == "ast":
                        return r.attr
                return None

            def super_visit(e) -> bool:
                # super().visit(node), directly or through a private method of the class that does nothing else
                if isinstance(e, ast.Call) and isinstance(e.func, ast.Attribute) and len(e.args) == 1 and isinstance(e.args[0], ast.Name) and not e.keywords:
                    f = e.func
                    if f.attr == "visit" and isinstance(f.value, ast.Call) and isinstance(f.value.func, ast.Name) and f.value.func.id == "super":
                        return True
                    if isinstance(f.value, ast.Name) and f.value.id == sp and f.attr in meths and f.attr != "visit":
                        h = meths[f.attr]
                        hb = [st for st in h.body if not (isinstance(st, ast.Expr) and isinstance(st.value, ast.Constant))]
                        if len(hb) == 1 and isinstance(hb[0], ast.Return) and len(h.args.args) == 2 and isinstance(hb[0].value, ast.Call) and isinstance(hb[0].value.func, ast.Attribute) and hb[0].value.func.attr == "visit" and isinstance(hb[0].value.func.value, ast.Call) and isinstance(hb[0].value.func.value.func, ast.Name) and hb[0].value.func.value.func.id == "super" and len(hb[0].value.args) == 1 and isinstance(hb[0].value.args[0], ast.Name) and hb[0].value.args[0].id == h.args.args[1].arg:
                            return True
                return False

            cases = []
            ok = bool(body)
            for i, st in enumerate(body):
                last = i == len(body) - 1
                if last:
                    ok = ok and isinstance(st, ast.Return) and st.value is not None and super_visit(st.value) and st.value.args[0].id == np_
                    continue
                k = kind_of(st.test) if isinstance(st, ast.If) and not st.orelse and len(st.body) == 1 and isinstance(st.body[0], ast.Return) else None
                r = st.body[0].value if k is not None else None
                if k is None or not (isinstance(r, ast.Call) and isinstance(r.func, ast.Attribute) and isinstance(r.func.value, ast.Name) and r.func.value.id == sp and r.func.attr in meths and len(r.args) == 1 and isinstance(r.args[0], ast.Name) and r.args[0].id == np_ and not r.keywords):
                    ok = False
                    break
                cases.append((k, r.func.attr))
            if not ok or not cases or len({k for k, _m in cases}) != len(cases) or any(f"visit_{k}" in meths for k, _m in cases) or not all(k.isidentifier() for k, _m in cases):
                continue
            C.body = [st for st in C.body if st is not v]
            for k, mname in cases:
                fwd = ast.FunctionDef(name=f"visit_{k}", args=ast.arguments(posonlyargs=[], args=[ast.arg(arg=sp), ast.arg(arg=np_)], vararg=None, kwonlyargs=[], kw_defaults=[], kwarg=None, defaults=[]), body=[ast.Return(value=ast.Call(func=ast.Attribute(value=ast.Name(id=sp, ctx=ast.Load()), attr=mname, ctx=ast.Load()), args=[ast.Name(id=np_, ctx=ast.Load())], keywords=[]))], decorator_list=[], returns=None, type_comment=None, type_params=[])
                ast.copy_location(fwd, v)
                C.body.append(fwd)
            ast.fix_missing_locations(t)
            n_done += 1
    return n_done


def _pure_literal(e: ast.AST) -> bool:
    if isinstance(e, (ast.Constant, ast.Name)):
        return True
    if isinstance(e, ast.Attribute):
        return _pure_literal(e.value)
    if isinstance(e, (ast.Tuple, ast.List)):
        return all(_pure_literal(x) for x in e.elts)
    return False


class _FoldLiteralIndex(ast.NodeTransformer):
    """(a, b, c)[1] is b - for a literal of plain expressions and a constant index in range"""

    def visit_Subscript(self, node: ast.Subscript):
        self.generic_visit(node)
        if isinstance(node.ctx, ast.Load) and isinstance(node.value, (ast.Tuple, ast.List)) and isinstance(node.slice, ast.Constant) and type(node.slice.value) is int and _pure_literal(node.value) and -len(node.value.elts) <= node.slice.value < len(node.value.elts):
            return node.value.elts[node.slice.value]
        return node


def _fold_module_tables(trees: Dict[str, ast.Module]) -> int:
    """TABLE = {K(x): V(x) for x in (e1, e2, ..)} at module level, the elements plain expressions or tuples of them: the
    dictionary written out, {K(e1): V(e1), ..} - a table filled by a comprehension over a literal is a literal"""
    import copy as _copy

    recs = _record_classes(trees)

    def _rec_call(e):
        return isinstance(e, ast.Call) and isinstance(e.func, ast.Name) and e.func.id in recs and not e.keywords and len(e.args) == len(recs[e.func.id]) and all(_pure_literal(a) for a in e.args)

    class _FoldRecordField(ast.NodeTransformer):
        """C(a, b, c).second is b - for a private NamedTuple record built in place from plain expressions"""

        def visit_Attribute(self, node: ast.Attribute):
            self.generic_visit(node)
            if isinstance(node.ctx, ast.Load) and _rec_call(node.value):
                names = [f for f, _d in recs[node.value.func.id]]
                if node.attr in names:
                    return node.value.args[names.index(node.attr)]
            return node

    n = 0
    for t in trees.values():
        for st in t.body:
            v = st.value if isinstance(st, (ast.Assign, ast.AnnAssign)) else None
            if not isinstance(v, (ast.DictComp, ast.ListComp)) or len(v.generators) != 1:
                continue
            g = v.generators[0]
            if g.ifs or g.is_async or not isinstance(g.target, ast.Name) or not isinstance(g.iter, (ast.Tuple, ast.List)) or not all(_pure_literal(e) or _rec_call(e) for e in g.iter.elts):
                continue
            x = g.target.id

            class _S(ast.NodeTransformer):
                def __init__(self, e):
                    self.e = e

                def visit_Name(self, node):
                    if node.id == x and isinstance(node.ctx, ast.Load):
                        return _copy.deepcopy(self.e)
                    return node

            def inst(expr, e):
                r = _FoldLiteralIndex().visit(_FoldRecordField().visit(_S(e).visit(_copy.deepcopy(expr))))
                return r

            if isinstance(v, ast.DictComp):
                keys = [inst(v.key, e) for e in g.iter.elts]
                vals = [inst(v.value, e) for e in g.iter.elts]
                if not all(_pure_literal(k) for k in keys) or not all(_pure_literal(z) or _rec_call(z) for z in vals):
                    continue
                new = ast.Dict(keys=keys, values=vals)
            else:
                elts = [inst(v.elt, e) for e in g.iter.elts]
                if not all(_pure_literal(z) or _rec_call(z) for z in elts):
                    continue
                new = ast.List(elts=elts, ctx=ast.Load())
            ast.copy_location(new, v)
            st.value = new
            ast.fix_missing_locations(t)
            n += 1
    return n


class _SplitIfExpReturn(ast.NodeTransformer):
    """return a if c else b   is   if c: return a / else: return b  - one spelling of a decision for the rules"""

    def __init__(self):
        self.n = 0

    def visit_Lambda(self, node):
        return node

    def visit_Return(self, node: ast.Return):
        v = node.value
        if isinstance(v, ast.IfExp):
            self.n += 1
            a = self.visit_Return(ast.copy_location(ast.Return(value=v.body), node))
            b = self.visit_Return(ast.copy_location(ast.Return(value=v.orelse), node))
            new = ast.If(test=v.test, body=[a] if isinstance(a, ast.stmt) else a, orelse=[b] if isinstance(b, ast.stmt) else b)
            return ast.copy_location(new, node)
        return node


class _StarCopies(ast.NodeTransformer):
    """[*x] is list(x), (*x,) is tuple(x), {**d} is dict(d): the unpacking spellings of a copy (where the names list /
    tuple / dict are not re-bound in the module)"""

    def __init__(self, shadowed):
        self.shadowed = shadowed
        self.n = 0

    def _call(self, name: str, arg: ast.AST, at: ast.AST):
        self.n += 1
        return ast.copy_location(ast.Call(func=ast.copy_location(ast.Name(id=name, ctx=ast.Load()), at), args=[arg], keywords=[]), at)

    def visit_List(self, node: ast.List):
        self.generic_visit(node)
        if isinstance(node.ctx, ast.Load) and len(node.elts) == 1 and isinstance(node.elts[0], ast.Starred) and "list" not in self.shadowed:
            return self._call("list", node.elts[0].value, node)
        return node

    def visit_Tuple(self, node: ast.Tuple):
        self.generic_visit(node)
        if isinstance(node.ctx, ast.Load) and len(node.elts) == 1 and isinstance(node.elts[0], ast.Starred) and "tuple" not in self.shadowed:
            return self._call("tuple", node.elts[0].value, node)
        return node

    def visit_Dict(self, node: ast.Dict):
        self.generic_visit(node)
        if len(node.keys) == 1 and node.keys[0] is None and "dict" not in self.shadowed:
            return self._call("dict", node.values[0], node)
        return node


def _inline_type_aliases(trees: Dict[str, ast.Module]) -> int:
    """`k = type(x)` with k and x each bound once in the function (x may be a parameter that is never re-bound): every
    read of k is written as type(x) and the assignment goes.  type() of an unchanged name is the same value wherever it
    is evaluated."""
    import copy as _copy

    n = 0
    for t in trees.values():
        if not any(isinstance(x, ast.Call) and isinstance(x.func, ast.Name) and x.func.id == "type" and len(x.args) == 1 for x in ast.walk(t)):
            continue
        for fn in [x for x in ast.walk(t) if isinstance(x, (ast.FunctionDef, ast.AsyncFunctionDef))]:
            own = []
            stack = list(fn.body)
            while stack:
                x = stack.pop()
                own.append(x)
                for c in ast.iter_child_nodes(x):
                    if isinstance(c, (ast.FunctionDef, ast.AsyncFunctionDef, ast.ClassDef, ast.Lambda)):
                        continue
                    stack.append(c)
            nested_names = {y.id for x in ast.walk(fn) if x is not fn and isinstance(x, (ast.FunctionDef, ast.AsyncFunctionDef, ast.Lambda, ast.ClassDef)) for y in ast.walk(x) if isinstance(y, ast.Name)}
            stores: Dict[str, int] = {}
            for x in own:
                if isinstance(x, ast.Name) and isinstance(x.ctx, (ast.Store, ast.Del)):
                    stores[x.id] = stores.get(x.id, 0) + 1
            params = {a.arg for a in fn.args.posonlyargs + fn.args.args + fn.args.kwonlyargs}
            for i, st in enumerate(list(fn.body)):
                if not (isinstance(st, ast.Assign) and len(st.targets) == 1 and isinstance(st.targets[0], ast.Name)):
                    continue
                v = st.value
                if not (isinstance(v, ast.Call) and isinstance(v.func, ast.Name) and v.func.id == "type" and len(v.args) == 1 and not v.keywords and isinstance(v.args[0], ast.Name)):
                    continue
                k, x_ = st.targets[0].id, v.args[0].id
                if stores.get(k) != 1 or k in nested_names or k in params or "type" in stores or "type" in params:
                    continue
                if not ((stores.get(x_, 0) == 1 and x_ not in params) or (stores.get(x_, 0) == 0 and x_ in params)):
                    continue

                class _R(ast.NodeTransformer):
                    def visit_Name(self, node):
                        if node.id == k and isinstance(node.ctx, ast.Load):
                            return ast.copy_location(_copy.deepcopy(v), node)
                        return node

                fn.body.remove(st)
                for j, other in enumerate(fn.body):
                    fn.body[j] = _R().visit(other)
                n += 1
        if n:
            ast.fix_missing_locations(t)
    return n


class _YieldToStore(ast.NodeTransformer):
    def __init__(self, target: str, as_dict: bool):
        self.target, self.as_dict, self.ok = target, as_dict, True

    def visit_FunctionDef(self, node):
        return node

    visit_Lambda = visit_AsyncFunctionDef = visit_FunctionDef

    def visit_Expr(self, node: ast.Expr):
        if isinstance(node.value, ast.Yield):
            v = node.value.value
            if self.as_dict:
                if not (isinstance(v, ast.Tuple) and len(v.elts) == 2):
                    self.ok = False
                    return node
                return ast.copy_location(ast.Assign(targets=[ast.Subscript(value=ast.Name(id=self.target, ctx=ast.Load()), slice=v.elts[0], ctx=ast.Store())], value=v.elts[1], type_comment=None), node)
            if v is None:
                self.ok = False
                return node
            return ast.copy_location(ast.Expr(value=ast.Call(func=ast.Attribute(value=ast.Name(id=self.target, ctx=ast.Load()), attr="append", ctx=ast.Load()), args=[v], keywords=[])), node)
        return self.generic_visit(node)


class _EafpLookups(ast.NodeTransformer):
    """`try: x = D[k]  except KeyError: H`  ->  `if k in D: x = D[k]  else: H`   and
    `try: x = o.a  except AttributeError: H`  ->  `if hasattr(o, "a"): x = o.a  else: H`
    when the guarded statement is that single read of names / attributes / constant subscripts (nothing else in it can
    raise the exception) and there is neither else nor finally."""

    def __init__(self):
        self.n = 0

    @staticmethod
    def _plain(e) -> bool:
        if isinstance(e, (ast.Name, ast.Constant)):
            return True
        if isinstance(e, ast.Attribute):
            return _EafpLookups._plain(e.value)
        return False

    def visit_Try(self, node: ast.Try):
        self.generic_visit(node)
        if node.orelse or node.finalbody or len(node.handlers) != 1 or len(node.body) != 1:
            return node
        h = node.handlers[0]
        st = node.body[0]
        if h.name is not None or not isinstance(h.type, ast.Name) or not isinstance(st, ast.Assign) or len(st.targets) != 1 or not isinstance(st.targets[0], ast.Name):
            return node
        v = st.value
        import copy as _copy

        if h.type.id == "KeyError" and isinstance(v, ast.Subscript) and self._plain(v.value) and self._plain(v.slice):
            test = ast.Compare(left=_copy.deepcopy(v.slice), ops=[ast.In()], comparators=[_copy.deepcopy(v.value)])
        elif h.type.id == "AttributeError" and isinstance(v, ast.Attribute) and self._plain(v.value) and not isinstance(v.value, ast.Constant):
            test = ast.Call(func=ast.Name(id="hasattr", ctx=ast.Load()), args=[_copy.deepcopy(v.value), ast.Constant(value=v.attr)], keywords=[])
        else:
            return node
        self.n += 1
        new = ast.If(test=test, body=[st], orelse=list(h.body))
        return ast.fix_missing_locations(ast.copy_location(new, node))


def _inline_local_generators(trees: Dict[str, ast.Module]) -> int:
    """`def pairs(): for ..: yield k, v` nested in a function and used once as `x = dict(pairs())` / `x = list(pairs())`
    is the loop that fills x: the def is dropped, `x = {}` / `x = []` and the body with `x[k] = v` / `x.append(e)` in place
    of the yields stand where the assignment stood. Only for parameterless generators without `return <value>`,
    `yield from` or an assigned name that the enclosing function uses too."""
    import copy as _copy

    n_done = 0
    for t in trees.values():
        for fn in [x for x in ast.walk(t) if isinstance(x, (ast.FunctionDef, ast.AsyncFunctionDef))]:
            for blk_owner in [x for x in ast.walk(fn) if hasattr(x, "body") and isinstance(getattr(x, "body"), list)]:
                body = blk_owner.body
                gens = [g for g in body if isinstance(g, ast.FunctionDef) and not (g.args.args or g.args.posonlyargs or g.args.kwonlyargs or g.args.vararg or g.args.kwarg) and not g.decorator_list]
                for g in gens:
                    inner = [x for st in g.body for x in ast.walk(st)]
                    if not any(isinstance(x, ast.Yield) for x in inner) or any(isinstance(x, (ast.YieldFrom, ast.FunctionDef, ast.AsyncFunctionDef, ast.Lambda, ast.Global, ast.Nonlocal)) for x in inner) or any(isinstance(x, ast.Return) and x.value is not None for x in inner):
                        continue
                    if any(isinstance(x, ast.Yield) and not isinstance(getattr(x, "_p", None), ast.Expr) for x in inner if False):
                        continue
                    uses = [x for x in ast.walk(fn) if isinstance(x, ast.Name) and x.id == g.name and isinstance(x.ctx, ast.Load)]
                    if len(uses) != 1:
                        continue
                    site = next((st for st in body if isinstance(st, ast.Assign) and len(st.targets) == 1 and isinstance(st.targets[0], ast.Name) and isinstance(st.value, ast.Call) and isinstance(st.value.func, ast.Name) and st.value.func.id in ("dict", "list") and len(st.value.args) == 1 and not st.value.keywords and isinstance(st.value.args[0], ast.Call) and st.value.args[0].func is uses[0] and not st.value.args[0].args and not st.value.args[0].keywords), None)
                    if site is None or body.index(site) < body.index(g):
                        continue
                    g_stores = {x.id for x in inner if isinstance(x, ast.Name) and isinstance(x.ctx, ast.Store)}
                    outer_names = {x.id for st in fn.body for x in ast.walk(st) if isinstance(x, ast.Name) and not any(x is y for y in inner)} | {a.arg for a in fn.args.args + fn.args.posonlyargs + fn.args.kwonlyargs}
                    if g_stores & outer_names:
                        continue
                    tgt = site.targets[0].id
                    as_dict = site.value.func.id == "dict"
                    conv = _YieldToStore(tgt, as_dict)
                    new_body = [conv.visit(_copy.deepcopy(st)) for st in g.body if not (isinstance(st, ast.Expr) and isinstance(st.value, ast.Constant))]
                    if not conv.ok or any(isinstance(x, ast.Yield) for st in new_body for x in ast.walk(st)):
                        continue
                    init = ast.copy_location(ast.Assign(targets=[ast.Name(id=tgt, ctx=ast.Store())], value=(ast.Dict(keys=[], values=[]) if as_dict else ast.List(elts=[], ctx=ast.Load())), type_comment=None), site)
                    i = body.index(site)
                    body[i:i + 1] = [init] + new_body
                    body.remove(g)
                    n_done += 1
        if n_done:
            ast.fix_missing_locations(t)
    return n_done


def canonicalise(trees: Dict[str, ast.Module]) -> Dict[str, str]:
    """rename renamed private anchors back (in the trees); returns {canonical name: name used in this tree}"""
    from .matchlower import lower_matches

    lower_matches(trees)  # `match` statements are read as the if / elif chains they abbreviate
    _inline_local_generators(trees)
    for t in trees.values():
        if any(isinstance(x, ast.Try) for x in ast.walk(t)):
            _EafpLookups().visit(t)
    for t in trees.values():
        if any(isinstance(x, ast.Return) and isinstance(x.value, ast.IfExp) for x in ast.walk(t)):
            _SplitIfExpReturn().visit(t)
            ast.fix_missing_locations(t)
    for t in trees.values():
        if any((isinstance(x, (ast.List, ast.Tuple)) and len(x.elts) == 1 and isinstance(x.elts[0], ast.Starred)) or (isinstance(x, ast.Dict) and len(x.keys) == 1 and x.keys[0] is None) for x in ast.walk(t)):
            shadowed = {n.id for n in ast.walk(t) if isinstance(n, ast.Name) and isinstance(n.ctx, (ast.Store, ast.Del)) and n.id in ("list", "tuple", "dict")} | {a.arg for a in ast.walk(t) if isinstance(a, ast.arg) and a.arg in ("list", "tuple", "dict")}
            _StarCopies(shadowed).visit(t)
            ast.fix_missing_locations(t)
    _explicit_visit_dispatch(trees)
    _flatten_private_bases(trees)
    _split_attr_records(trees)
    _alias_methods(trees)
    for t in trees.values():
        if any(isinstance(x, ast.Attribute) and x.attr == "format" and isinstance(x.value, ast.Constant) for x in ast.walk(t)) or any(isinstance(x, ast.BinOp) and isinstance(x.op, ast.Mod) and isinstance(x.left, ast.Constant) and isinstance(x.left.value, str) for x in ast.walk(t)):
            _FormatToFString().visit(t)
            ast.fix_missing_locations(t)
    for t in trees.values():
        _Deannotate().visit(t)
    for t in trees.values():
        if any(isinstance(x, ast.NamedExpr) for x in ast.walk(t)):
            for fn in [x for x in ast.walk(t) if isinstance(x, (ast.FunctionDef, ast.AsyncFunctionDef))]:
                _HoistWalrus().generic_visit(fn)
            ast.fix_missing_locations(t)
    _inline_type_aliases(trees)
    _fold_module_tables(trees)
    _records_to_tuples(trees)
    for t in trees.values():
        gens = {k: v for k, v in _cm_generators(t).items() if k.startswith("_")}
        if gens:
            _InlineCM(gens).visit(t)
            ast.fix_missing_locations(t)
    mapping: Dict[str, str] = {}
    for canon, (mod, finder) in ROLES.items():
        tree = trees.get(mod)
        if tree is None:
            continue
        present = any(getattr(n, "name", None) == canon for n in ast.walk(tree) if isinstance(n, (ast.FunctionDef, ast.AsyncFunctionDef, ast.ClassDef))) or any(isinstance(n, ast.Attribute) and n.attr == canon for n in ast.walk(tree)) or any(isinstance(n, ast.Name) and n.id == canon for n in ast.walk(tree))
        if present:
            continue
        try:
            cands = finder(tree)
        except Exception:
            cands = []
        if len(cands) != 1:
            continue
        actual = cands[0].name
        # the new name must not be used for anything else that matters: it is private to the package by convention
        if (not actual.startswith("_") and canon not in INNER) or actual.startswith("__"):
            continue
        if actual in mapping or actual in ROLES:
            continue
        mapping[actual] = canon
    if mapping:
        rn = _Rename(mapping)
        for t in trees.values():
            rn.visit(t)
    return {v: k for k, v in mapping.items()}
