"""Load-time normalisation: a `match` statement is read as the if / elif chain it abbreviates.

Patterns handled (the ones a dispatch over AST nodes, token kinds, tuple shapes or small literals is written with):
class patterns without or with keyword sub-patterns, `as` bindings, wildcard and capture patterns, literal and dotted
value patterns, singletons, or-patterns, fixed-length sequence patterns (element-wise when the subject is a tuple
display), mapping patterns with constant keys, guards.  A statement using anything else (star patterns, positional
class sub-patterns) is left alone - a rule that has to read it then stops with an analysis error as before.

The subject is evaluated once: a subject that is more than a name / attribute / constant-subscript chain is bound to
a temporary first.  Names bound by a pattern are assigned at the top of the case body and substituted in the guard.
"""
from __future__ import annotations

import ast
import copy
from typing import Dict, List, Optional, Tuple


class _Unsupported(Exception):
    pass


def _pure(e: ast.AST) -> bool:
    if isinstance(e, (ast.Name, ast.Constant)):
        return True
    if isinstance(e, ast.Attribute):
        return _pure(e.value)
    if isinstance(e, ast.Subscript):
        return _pure(e.value) and isinstance(e.slice, ast.Constant)
    if isinstance(e, ast.Tuple):
        return all(_pure(x) for x in e.elts)
    return False


def _and(cs: List[ast.expr]) -> ast.expr:
    cs = [c for c in cs if not (isinstance(c, ast.Constant) and c.value is True)]
    if not cs:
        return ast.Constant(value=True)
    return cs[0] if len(cs) == 1 else ast.BoolOp(op=ast.And(), values=cs)


def _cond(p: ast.AST, s: ast.expr, binds: List[Tuple[str, ast.expr]]) -> ast.expr:
    """condition under which pattern p matches subject expression s; names bound are appended to binds"""
    c = lambda: copy.deepcopy(s)  # noqa: E731
    if isinstance(p, ast.MatchAs):
        if p.pattern is None:
            if p.name is not None:
                binds.append((p.name, c()))
            return ast.Constant(value=True)
        r = _cond(p.pattern, s, binds)
        if p.name is not None:
            binds.append((p.name, c()))
        return r
    if isinstance(p, ast.MatchValue):
        return ast.Compare(left=c(), ops=[ast.Eq()], comparators=[copy.deepcopy(p.value)])
    if isinstance(p, ast.MatchSingleton):
        return ast.Compare(left=c(), ops=[ast.Is()], comparators=[ast.Constant(value=p.value)])
    if isinstance(p, ast.MatchClass):
        if p.patterns:
            raise _Unsupported("positional class sub-patterns")
        cs: List[ast.expr] = [ast.Call(func=ast.Name(id="isinstance", ctx=ast.Load()), args=[c(), copy.deepcopy(p.cls)], keywords=[])]
        for a, sp in zip(p.kwd_attrs, p.kwd_patterns):
            cs.append(_cond(sp, ast.Attribute(value=c(), attr=a, ctx=ast.Load()), binds))
        return _and(cs)
    if isinstance(p, ast.MatchOr):
        if all(isinstance(q, ast.MatchClass) and not q.patterns and not q.kwd_attrs for q in p.patterns):
            return ast.Call(func=ast.Name(id="isinstance", ctx=ast.Load()), args=[c(), ast.Tuple(elts=[copy.deepcopy(q.cls) for q in p.patterns], ctx=ast.Load())], keywords=[])
        if all(isinstance(q, ast.MatchValue) for q in p.patterns):
            return ast.Compare(left=c(), ops=[ast.In()], comparators=[ast.Tuple(elts=[copy.deepcopy(q.value) for q in p.patterns], ctx=ast.Load())])
        alts = []
        for q in p.patterns:
            b2: List[Tuple[str, ast.expr]] = []
            alts.append(_cond(q, s, b2))
            if b2:
                raise _Unsupported("bindings inside an or-pattern")
        return ast.BoolOp(op=ast.Or(), values=alts)
    if isinstance(p, ast.MatchSequence):
        stars = [i for i, q in enumerate(p.patterns) if isinstance(q, ast.MatchStar)]
        if stars:
            # (a, *rest, z): at least the fixed elements; those before the star by index, those after it from the end
            if isinstance(s, ast.Tuple):
                raise _Unsupported("star pattern against a tuple display")
            k = stars[0]
            before, after = p.patterns[:k], p.patterns[k + 1:]
            ln = lambda: ast.Call(func=ast.Name(id="len", ctx=ast.Load()), args=[c()], keywords=[])  # noqa: E731
            cs = [ast.Compare(left=ln(), ops=[ast.GtE()], comparators=[ast.Constant(value=len(before) + len(after))])]
            for i, q in enumerate(before):
                cs.append(_cond(q, ast.Subscript(value=c(), slice=ast.Constant(value=i), ctx=ast.Load()), binds))
            for j, q in enumerate(after):
                cs.append(_cond(q, ast.Subscript(value=c(), slice=ast.UnaryOp(op=ast.USub(), operand=ast.Constant(value=len(after) - j)), ctx=ast.Load()), binds))
            if p.patterns[k].name is not None:
                upper = ast.UnaryOp(op=ast.USub(), operand=ast.Constant(value=len(after))) if after else None
                binds.append((p.patterns[k].name, ast.Call(func=ast.Name(id="list", ctx=ast.Load()), args=[ast.Subscript(value=c(), slice=ast.Slice(lower=ast.Constant(value=len(before)), upper=upper), ctx=ast.Load())], keywords=[])))
            return _and(cs)
        if isinstance(s, ast.Tuple) and len(s.elts) == len(p.patterns):
            return _and([_cond(q, e, binds) for q, e in zip(p.patterns, s.elts)])
        if isinstance(s, ast.Tuple):
            return ast.Constant(value=False)
        cs = [ast.Compare(left=ast.Call(func=ast.Name(id="len", ctx=ast.Load()), args=[c()], keywords=[]), ops=[ast.Eq()], comparators=[ast.Constant(value=len(p.patterns))])]
        for i, q in enumerate(p.patterns):
            cs.append(_cond(q, ast.Subscript(value=c(), slice=ast.Constant(value=i), ctx=ast.Load()), binds))
        return _and(cs)
    if isinstance(p, ast.MatchMapping):
        if p.rest is not None or not all(isinstance(k, ast.Constant) for k in p.keys):
            raise _Unsupported("mapping pattern with **rest / computed keys")
        cs = []
        for k, q in zip(p.keys, p.patterns):
            cs.append(ast.Compare(left=copy.deepcopy(k), ops=[ast.In()], comparators=[c()]))
            cs.append(_cond(q, ast.Subscript(value=c(), slice=copy.deepcopy(k), ctx=ast.Load()), binds))
        return _and(cs)
    raise _Unsupported(type(p).__name__)


class _Subst(ast.NodeTransformer):
    def __init__(self, m: Dict[str, ast.expr]):
        self.m = m

    def visit_Name(self, n: ast.Name):
        if isinstance(n.ctx, ast.Load) and n.id in self.m:
            return copy.deepcopy(self.m[n.id])
        return n


class LowerMatch(ast.NodeTransformer):
    def __init__(self):
        self.n = 0
        self.lowered = 0
        self.kept = 0

    def visit_Match(self, node: ast.Match):
        self.generic_visit(node)
        pre: List[ast.stmt] = []
        subj = node.subject
        if isinstance(subj, ast.Tuple) and not any(isinstance(x, ast.Starred) for x in subj.elts) and not _pure(subj):
            # a tuple display is matched element by element: each element that is more than a plain read is evaluated
            # once, in order, into a temporary of its own
            elts = []
            seen_impure = False
            for x in subj.elts:
                if _pure(x) and not seen_impure:
                    elts.append(x)
                    continue
                seen_impure = True
                self.n += 1
                tmp = f"_match_subject_{self.n}"
                pre.append(ast.Assign(targets=[ast.Name(id=tmp, ctx=ast.Store())], value=x))
                elts.append(ast.Name(id=tmp, ctx=ast.Load()))
            subj = ast.Tuple(elts=elts, ctx=ast.Load())
        elif not _pure(subj):
            self.n += 1
            tmp = f"_match_subject_{self.n}"
            pre.append(ast.Assign(targets=[ast.Name(id=tmp, ctx=ast.Store())], value=subj))
            subj = ast.Name(id=tmp, ctx=ast.Load())
        try:
            arms = []
            for case in node.cases:
                binds: List[Tuple[str, ast.expr]] = []
                cond = _cond(case.pattern, subj, binds)
                if case.guard is not None:
                    g = _Subst({k: v for k, v in binds}).visit(copy.deepcopy(case.guard))
                    cond = _and([cond, g])
                body = [ast.Assign(targets=[ast.Name(id=k, ctx=ast.Store())], value=v) for k, v in binds if not (isinstance(v, ast.Name) and v.id == k)] + list(case.body)
                arms.append((cond, body))
        except _Unsupported:
            self.kept += 1
            return node
        self.lowered += 1
        # build the chain from the last arm backwards
        chain: List[ast.stmt] = []
        for cond, body in reversed(arms):
            if isinstance(cond, ast.Constant) and cond.value is True:
                chain = body  # irrefutable: what follows it is unreachable (python requires it to be last)
            else:
                chain = [ast.If(test=cond, body=body, orelse=chain)]
        out = pre + (chain or [ast.Pass()])
        for o in out:
            ast.copy_location(o, node)
        return out


def lower_matches(trees: Dict[str, ast.Module]) -> int:
    n = 0
    for t in trees.values():
        if any(isinstance(x, ast.Match) for x in ast.walk(t)):
            lm = LowerMatch()
            lm.visit(t)
            ast.fix_missing_locations(t)
            n += lm.lowered
    return n
