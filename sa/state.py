"""History-independence: no state that persists between calls on the code a property runs through.

Every property states its behaviour as a function of the inputs of *this* call (query, lambda, values).
A module-level or class-level mutable object that the code writes at run time - a cache, a memo table,
a "seen" set, a shared stack - makes the result depend on the history of earlier calls, which no test that
runs one scenario per process can see.  The rule enumerates such state from the source:

  * module-level names bound to a mutable container (or re-bound through `global`) that some function
    mutates / re-binds;
  * class-level mutable attributes (shared by all instances) that methods mutate through self / cls;
  * functions memoised with functools.lru_cache / cache;
  * non-field attributes written on AST nodes as memo ("node._x = computed") are judged by the rules that
    own those attributes (_old_ast, _q_metadata, _ignore, executor), any *other* attribute is reported.

and accepts only the registries that are the library's documented configuration (one named symbol each,
with the functions allowed to write them).
"""
from __future__ import annotations

import ast
from typing import Dict, List, Optional, Sequence, Set, Tuple

from .lib import CACHE_DECORATORS, calls_in, own_nodes, stmt_of
from .model import FuncInfo, Model

MUTATORS = {"append", "extend", "insert", "remove", "pop", "clear", "sort", "reverse", "update", "setdefault", "popitem", "add", "discard", "appendleft", "move_to_end"}

# configuration registries: (module, name) -> functions allowed to write them
REGISTRIES: Dict[Tuple[str, str], Set[str]] = {
    ("func_adl.type_based_replacement", "_global_functions"): {"register_func_adl_function", "_load_default_global_functions", "reset_global_functions"},
    ("func_adl.type_based_replacement", "_g_collection_classes"): {"register_func_adl_os_collection", "reset_global_functions", "_load_g_collection_classes"},
    ("func_adl.type_based_replacement", "_g_parameterized_callbacks"): {"func_adl_parameterized_call", "decorator", "reset_global_functions", "_register_property"},
    ("func_adl.ast.function_simplifier", "argument_var_counter"): {"arg_name"},
}
NODE_ATTRS_OWNED = {"_old_ast", "_q_metadata", "_ignore", "_func_adl_executor", "_eds_object", "_func_adl_type_info"}


def _is_mutable_ctor(e: ast.AST) -> bool:
    if isinstance(e, (ast.Dict, ast.List, ast.Set, ast.ListComp, ast.DictComp, ast.SetComp)):
        return True
    if isinstance(e, ast.Call):
        nm = ast.unparse(e.func)
        return nm.split(".")[-1] in ("dict", "list", "set", "defaultdict", "OrderedDict", "deque", "Counter", "WeakKeyDictionary", "WeakValueDictionary", "ChainMap")
    return False


def _stateful_methods(model: Model, ci) -> Set[str]:
    """names of the methods of class ci (its own and inherited package ones, __init__ apart) that store into or mutate an
    attribute of self - directly or through another method of the class they call on self"""
    direct: Set[str] = set()
    calls: Dict[str, Set[str]] = {}
    meths = model.all_methods(ci)
    for name, f in meths.items():
        if name == "__init__" or not f.pos_params:
            continue
        selfn = f.pos_params[0]
        calls[name] = set()
        for n in own_nodes(f):
            if isinstance(n, (ast.Assign, ast.AugAssign, ast.AnnAssign)):
                tgts = n.targets if isinstance(n, ast.Assign) else [n.target]
                for t in tgts:
                    b = t.value if isinstance(t, ast.Subscript) else t
                    if isinstance(b, ast.Attribute) and isinstance(b.value, ast.Name) and b.value.id == selfn:
                        direct.add(name)
            if isinstance(n, ast.Call) and isinstance(n.func, ast.Attribute):
                v = n.func.value
                if n.func.attr in MUTATORS and isinstance(v, ast.Attribute) and isinstance(v.value, ast.Name) and v.value.id == selfn:
                    direct.add(name)
                if isinstance(v, ast.Name) and v.id == selfn:
                    calls[name].add(n.func.attr)
    res = set(direct)
    changed = True
    while changed:
        changed = False
        for name, cs in calls.items():
            if name not in res and cs & res:
                res.add(name)
                changed = True
    return res


class Site:
    __slots__ = ("fi", "stmt", "what", "kind")

    def __init__(self, fi: FuncInfo, stmt: ast.AST, what: str, kind: str):
        self.fi, self.stmt, self.what, self.kind = fi, stmt, what, kind


def persistent_state_sites(model: Model) -> List[Site]:
    out: List[Site] = []
    # module-level mutable bindings
    mod_mut: Dict[Tuple[str, str], ast.AST] = {}
    for mi in model.modules.values():
        for name, val in mi.assigns.items():
            if _is_mutable_ctor(val):
                mod_mut[(mi.name, name)] = val
    # module-level *instances* of package classes that keep state in their attributes: one object shared by every call
    mod_inst: Dict[Tuple[str, str], Tuple[object, Set[str]]] = {}
    for mi in model.modules.values():
        for name, val in mi.assigns.items():
            if isinstance(val, ast.Call) and isinstance(val.func, (ast.Name, ast.Attribute)):
                ci_ = model.lookup_target(model.resolve_dotted(mi, None, ast.unparse(val.func)))
                from .model import ClassInfo as _CI

                if isinstance(ci_, _CI):
                    st_ = _stateful_methods(model, ci_)
                    if st_:
                        mod_inst[(mi.name, name)] = (ci_, st_)
    for fi in model.funcs.values():
        mi = fi.module
        local_binds = set(fi.params)
        globals_decl: Set[str] = set()
        for n in own_nodes(fi):
            if isinstance(n, ast.Global):
                globals_decl |= set(n.names)
        for n in own_nodes(fi):
            if isinstance(n, ast.Name) and isinstance(n.ctx, ast.Store) and n.id not in globals_decl:
                local_binds.add(n.id)
        # enclosing function locals hide module names too
        pf = fi.parent_func
        while pf is not None:
            local_binds |= set(pf.params)
            for n in own_nodes(pf):
                if isinstance(n, ast.Name) and isinstance(n.ctx, ast.Store):
                    local_binds.add(n.id)
            pf = pf.parent_func

        def module_name(e: ast.AST) -> Optional[str]:
            if isinstance(e, ast.Name) and e.id not in local_binds:
                tgt = model.resolve_dotted(mi, fi, e.id)
                mod, _, nm = tgt.rpartition(".")
                if (mod, nm) in mod_mut or ((mod, nm) in REGISTRIES):
                    return f"{mod}.{nm}"
            return None

        for n in own_nodes(fi):
            # rebinding a module global
            if isinstance(n, (ast.Assign, ast.AugAssign)):
                tgts = n.targets if isinstance(n, ast.Assign) else [n.target]
                for t in tgts:
                    if isinstance(t, ast.Name) and t.id in globals_decl:
                        out.append(Site(fi, n, f"{mi.name}.{t.id}", "module global re-bound"))
                    if isinstance(t, ast.Subscript):
                        nm = module_name(t.value)
                        if nm:
                            out.append(Site(fi, n, nm, "item store into a module-level container"))
                    if isinstance(t, ast.Attribute) and fi.cls is None and isinstance(t.value, ast.Name) and t.value.id not in local_binds and t.value.id in mi.functions:
                        out.append(Site(fi, n, f"{mi.name}.{t.value.id}.{t.attr}", "attribute stored on a module-level function object"))
            if isinstance(n, ast.Delete):
                for t in n.targets:
                    if isinstance(t, ast.Subscript):
                        nm = module_name(t.value)
                        if nm:
                            out.append(Site(fi, n, nm, "item deleted from a module-level container"))
            if isinstance(n, ast.Call) and isinstance(n.func, ast.Attribute) and n.func.attr in MUTATORS:
                nm = module_name(n.func.value)
                if nm:
                    out.append(Site(fi, stmt_of(n), nm, f".{n.func.attr}() on a module-level container"))
        # methods called on a module-level instance that change the instance: what one call leaves behind the next one finds
        if mod_inst:
            for n in own_nodes(fi):
                if isinstance(n, ast.Call) and isinstance(n.func, ast.Attribute) and isinstance(n.func.value, ast.Name) and n.func.value.id not in local_binds:
                    tgt = model.resolve_dotted(mi, fi, n.func.value.id)
                    mod, _, nm = tgt.rpartition(".")
                    hit = mod_inst.get((mod, nm))
                    if hit is not None and (n.func.attr in hit[1] or n.func.attr in ("visit", "generic_visit") and any(x.startswith(("visit_", "call_")) for x in hit[1])):
                        out.append(Site(fi, stmt_of(n), f"{mod}.{nm}", f".{n.func.attr}() on a module-level instance of {hit[0].name}, whose methods write its attributes ({', '.join(sorted(hit[1]))[:80]}): the object - and whatever it has handed out - is shared by all calls"))
        # class-level mutable attributes mutated through self / cls
        if fi.cls is not None and fi.pos_params:
            selfn = fi.pos_params[0]
            cls_mut = {a for c in model.mro(fi.cls) if not isinstance(c, str) for a, v in c.class_assigns.items() if _is_mutable_ctor(v)}
            inst_assigned: Set[str] = set()
            for c in model.mro(fi.cls):
                if isinstance(c, str):
                    continue
                init = c.methods.get("__init__")
                if init is not None:
                    for x in own_nodes(init):
                        if isinstance(x, ast.Assign):
                            for t in x.targets:
                                if isinstance(t, ast.Attribute) and isinstance(t.value, ast.Name) and t.value.id == init.pos_params[0]:
                                    inst_assigned.add(t.attr)
                        if isinstance(x, ast.AnnAssign) and isinstance(x.target, ast.Attribute) and isinstance(x.target.value, ast.Name) and x.target.value.id == init.pos_params[0]:
                            inst_assigned.add(x.target.attr)
            shared = cls_mut - inst_assigned
            for n in own_nodes(fi):
                base = None
                how = None
                if isinstance(n, ast.Call) and isinstance(n.func, ast.Attribute) and n.func.attr in MUTATORS:
                    base, how = n.func.value, f".{n.func.attr}()"
                elif isinstance(n, ast.Assign) and isinstance(n.targets[0], ast.Subscript):
                    base, how = n.targets[0].value, "item store"
                if isinstance(base, ast.Attribute) and isinstance(base.value, ast.Name) and base.value.id in (selfn, fi.cls.name, "cls") and base.attr in shared:
                    out.append(Site(fi, stmt_of(n) if isinstance(n, ast.Call) else n, f"{fi.cls.name}.{base.attr}", f"{how} on a class-level container shared by all instances"))
        # mutable default arguments that are mutated, or that escape into something that outlives the call
        if not isinstance(fi.node, ast.Lambda):
            a_ = fi.node.args
            pos_ = a_.posonlyargs + a_.args
            pairs_ = list(zip(pos_[len(pos_) - len(a_.defaults):], a_.defaults)) + [(x, d) for x, d in zip(a_.kwonlyargs, a_.kw_defaults) if d is not None]
            for arg_, dflt_ in pairs_:
                if _is_mutable_ctor(dflt_):
                    why = _default_escapes(model, fi, arg_.arg, 3, set())
                    if why is not None:
                        out.append(Site(fi, why[0], f"{fi.qual}({arg_.arg}={ast.unparse(dflt_)})", f"mutable default argument {why[1]}"))
        # lazily evaluated iterators that outlive the expression creating them
        out += _lazy_iterator_sites(fi)
        # memoisation
        for d in fi.decorators:
            if d in CACHE_DECORATORS:
                out.append(Site(fi, fi.node, fi.qual, f"memoised with @{d}"))
        # memo attributes on AST nodes / arbitrary objects: `x._something = ..` where x is a parameter that is not self
        for n in own_nodes(fi):
            if isinstance(n, ast.Assign):
                for t in n.targets:
                    if isinstance(t, ast.Attribute) and isinstance(t.value, ast.Name) and t.value.id in fi.pos_params[(1 if fi.cls is not None else 0):] and t.attr.startswith("_") and t.attr not in NODE_ATTRS_OWNED:
                        out.append(Site(fi, n, f"<{t.value.id}>.{t.attr}", "memo attribute written on an argument object"))
    return out


_LAZY_MAKERS = {"map", "filter", "zip", "iter"}
_CONSUMERS = {"any", "all", "next", "sum", "min", "max", "list", "tuple", "set", "dict", "frozenset", "sorted", "enumerate", "zip", "reversed", "map", "filter", "len", "iter", "bytearray", "bytes", "str", "chain"}
_CONSUMING_METHODS = {"join", "extend", "update", "fromkeys", "from_iterable"}


def _lazy_iterator_sites(fi: FuncInfo) -> List["Site"]:
    """A generator expression / map / filter / zip computes its elements when it is *consumed*.  Created and consumed
    in one expression it is just a loop; kept - in a variable consumed later, in a container, an attribute, a
    returned value - its elements are computed against whatever the state is by then, and a second reader finds
    it empty.  Reported: lazy iterators stored in containers / attributes, and lazy iterators whose element
    expression calls something and that are not consumed where they are created."""
    from .model import parent as _parent

    out: List[Site] = []
    for n in own_nodes(fi):
        is_gen = isinstance(n, ast.GeneratorExp)
        is_maker = isinstance(n, ast.Call) and isinstance(n.func, ast.Name) and n.func.id in _LAZY_MAKERS
        if not (is_gen or is_maker):
            continue
        par = _parent(n)
        if isinstance(par, (ast.For, ast.AsyncFor)) and par.iter is n:
            continue
        if isinstance(par, ast.comprehension) and par.iter is n:
            continue
        if isinstance(par, ast.Starred):
            continue
        if isinstance(par, ast.Call) and (n in par.args or any(k.value is n for k in par.keywords)):
            f = par.func
            nm = f.id if isinstance(f, ast.Name) else (f.attr if isinstance(f, ast.Attribute) else None)
            if (isinstance(f, ast.Name) and nm in _CONSUMERS) or (isinstance(f, ast.Attribute) and nm in _CONSUMING_METHODS):
                continue
            if isinstance(f, ast.Attribute) and nm in ("append", "insert", "add", "setdefault", "appendleft", "put"):
                if isinstance(f.value, ast.Name) and _local_worklist(fi, f.value.id):
                    continue  # a work list of this activation (iterative traversal): read, and emptied, before it returns
                out.append(Site(fi, stmt_of(n), f"{ast.unparse(n)[:60]}", "a lazy iterator (generator expression / map / filter / zip) is stored in a container: it is computed when - and only the first time - somebody reads it"))
                continue
        if isinstance(par, ast.Assign) and par.value is n and any(isinstance(t, (ast.Attribute, ast.Subscript)) for t in par.targets):
            out.append(Site(fi, par, f"{ast.unparse(n)[:60]}", "a lazy iterator is stored in an attribute / container slot: it is computed when - and only the first time - somebody reads it"))
            continue
        if isinstance(par, (ast.List, ast.Tuple, ast.Set, ast.Dict)):
            gp = _parent(par)
            if isinstance(gp, ast.Assign) and gp.value is par and len(gp.targets) == 1 and isinstance(gp.targets[0], ast.Name) and _local_worklist(fi, gp.targets[0].id):
                continue
            out.append(Site(fi, stmt_of(n), f"{ast.unparse(n)[:60]}", "a lazy iterator is placed in a container literal"))
            continue
        # A lazy iterator held in a local (or handed back to the caller) and consumed later in the same activation is
        # not reported here: whether the delay matters depends on what the deferred calls read and what changes in
        # between, which the rules of the property decide (C02.R3a/R3f: arguments visited inside the callee's frame
        # are harmless exactly when the frame's keys are fresh names).
    return out


_READ_ONLY_CALLS = {"len", "dict", "list", "set", "tuple", "frozenset", "sorted", "sum", "any", "all", "min", "max", "enumerate", "zip", "iter", "reversed", "isinstance", "bool", "str", "repr", "id", "type", "print"}
_READ_ONLY_METHODS = {"get", "keys", "values", "items", "copy", "index", "count", "__contains__"}


def _default_escapes(model: Model, fi: FuncInfo, pname: str, depth: int, seen) -> Optional[Tuple[ast.AST, str]]:
    """(statement, description) if the object bound to parameter pname may be mutated by fi, or stored somewhere that
    outlives the call (a constructed node, an attribute, a container that is kept) - directly or in a package function
    it is passed to.  Reads (iteration, len, `in`, `|`, copies) are fine; a helper that hands the object back makes
    its result another name for it in the caller."""
    issues = _param_uses(model, fi, pname, depth, seen)
    bad = [x for x in issues if x[2] != "returned"]
    if bad:
        return bad[0][0], bad[0][1]
    # at the top level, returning the default object itself hands the one shared object to every caller
    ret = [x for x in issues if x[2] == "returned"]
    return (ret[0][0], ret[0][1]) if ret else None


_MUTATORS = {"append", "extend", "insert", "pop", "remove", "clear", "update", "add", "discard", "setdefault", "popitem", "sort", "reverse", "appendleft", "popleft"}


def _elements_clean(model: Model, meth: FuncInfo, loop) -> bool:
    """the elements of a field iterated in a method: each use of the loop variable is a read, or an argument of a package
    function that neither keeps nor changes it."""
    from .model import parent as _parent

    if not isinstance(loop.target, ast.Name):
        return False
    v = loop.target.id
    for y in ast.walk(meth.node):
        if isinstance(y, ast.Name) and y.id == v and isinstance(y.ctx, ast.Load):
            p_ = _parent(y)
            if isinstance(p_, (ast.Attribute, ast.Subscript, ast.Compare, ast.BoolOp, ast.UnaryOp, ast.If, ast.IfExp, ast.FormattedValue, ast.BinOp)) and not isinstance(getattr(p_, "ctx", None), (ast.Store, ast.Del)):
                if isinstance(p_, ast.Attribute) and isinstance(_parent(p_), ast.Call) and _parent(p_).func is p_ and p_.attr in _MUTATORS:
                    return False
                continue
            if isinstance(p_, ast.Call) and y in p_.args and isinstance(p_.func, ast.Name):
                if p_.func.id in _READ_ONLY_CALLS:
                    continue
                g = model.lookup_target(model.resolve_dotted(meth.module, meth, p_.func.id))
                i_ = p_.args.index(y)
                if isinstance(g, FuncInfo) and i_ < len(g.pos_params) and not [u for u in _param_uses(model, g, g.pos_params[i_], 2, frozenset()) if u[2] != "returned"]:
                    continue
            return False
    return True


def _record_fields(tgt) -> Optional[List[str]]:
    """constructor parameter -> field, in order: a dataclass-style body of annotated names, or an __init__ whose
    parameters are stored under their own names."""
    init = tgt.methods.get("__init__")
    if init is None:
        return [s_.target.id for s_ in tgt.node.body if isinstance(s_, ast.AnnAssign) and isinstance(s_.target, ast.Name)] or None
    ps = init.pos_params[1:]
    sn = init.pos_params[0]
    stored = {s_.targets[0].attr: s_.value.id for s_ in ast.walk(init.node) if isinstance(s_, ast.Assign) and len(s_.targets) == 1 and isinstance(s_.targets[0], ast.Attribute) and isinstance(s_.targets[0].value, ast.Name) and s_.targets[0].value.id == sn and isinstance(s_.value, ast.Name)}
    if all(stored.get(p_) == p_ for p_ in ps):
        return ps
    return None


def _local_worklist(fi: FuncInfo, name: str) -> bool:
    """`name` is a local container that never leaves the activation: it is only indexed, measured, tested, iterated
    and used as the receiver of its own methods - never returned, stored, yielded or handed to a call"""
    from .model import parent as _parent

    if name in fi.params or isinstance(fi.node, ast.Lambda):
        return False
    if any(isinstance(x, (ast.Global, ast.Nonlocal)) and name in x.names for x in ast.walk(fi.node)):
        return False
    for x in ast.walk(fi.node):
        if isinstance(x, (ast.FunctionDef, ast.AsyncFunctionDef, ast.Lambda)) and x is not fi.node and any(isinstance(y, ast.Name) and y.id == name for y in ast.walk(x)):
            return False  # captured by a nested function
    for x in own_nodes(fi):
        if isinstance(x, ast.Name) and x.id == name and isinstance(x.ctx, ast.Load):
            p_ = _parent(x)
            if isinstance(p_, ast.Attribute) and p_.value is x and isinstance(_parent(p_), ast.Call) and _parent(p_).func is p_:
                continue
            if isinstance(p_, ast.Subscript) and p_.value is x:
                continue
            if isinstance(p_, (ast.While, ast.If, ast.IfExp)) and getattr(p_, "test", None) is x:
                continue
            if isinstance(p_, ast.UnaryOp) and isinstance(p_.op, ast.Not):
                continue
            if isinstance(p_, ast.BoolOp):
                continue
            if isinstance(p_, (ast.For, ast.comprehension)) and p_.iter is x:
                continue
            if isinstance(p_, ast.Call) and isinstance(p_.func, ast.Name) and p_.func.id in ("len", "bool") and x in p_.args:
                continue
            return False
    return True


def _transient_inert_record(model: Model, fi: FuncInfo, call: ast.Call, idx: Optional[int] = None, kwname: Optional[str] = None) -> bool:
    """`_Rec(a, b).method(x)` (or `r = _Rec(a, b)` with r only read through attributes / methods): the object does not
    outlive the activation, and the class - a private one of the package - is inert: its methods store nothing anywhere
    (outside __init__'s own fields), call no mutators, and never put a field itself into a container, a call of
    something outside the package's read-only helpers, or a return value."""
    from .model import ClassInfo
    from .model import parent as _parent

    tgt = model.lookup_target(model.resolve_dotted(fi.module, fi, call.func.id))
    if not isinstance(tgt, ClassInfo) or not tgt.name.startswith("_") or tgt.name.startswith("__") or model.is_visitor(tgt):
        return False
    par = _parent(call)
    transient = isinstance(par, ast.Attribute) and isinstance(_parent(par), ast.Call) and _parent(par).func is par
    if not transient and isinstance(par, ast.Assign) and len(par.targets) == 1 and isinstance(par.targets[0], ast.Name):
        nm = par.targets[0].id
        loads = [n for n in own_nodes(fi) if isinstance(n, ast.Name) and n.id == nm and isinstance(n.ctx, ast.Load)]
        transient = bool(loads) and all(isinstance(_parent(n), ast.Attribute) for n in loads)
    if not transient:
        return False
    fields = _record_fields(tgt) or []
    the_field = kwname if kwname in fields else (fields[idx] if idx is not None and idx < len(fields) and not any(isinstance(a, ast.Starred) for a in call.args[: idx + 1]) else None)
    for meth in tgt.methods.values():
        if not meth.pos_params:
            return False
        sn = meth.pos_params[0]
        for x in ast.walk(meth.node):
            if isinstance(x, (ast.Global, ast.Nonlocal)):
                return False
            if isinstance(x, (ast.Attribute, ast.Subscript)) and isinstance(x.ctx, (ast.Store, ast.Del)):
                if not (meth.name == "__init__" and isinstance(x, ast.Attribute) and isinstance(x.value, ast.Name) and x.value.id == sn):
                    return False
            if isinstance(x, ast.Call) and isinstance(x.func, ast.Attribute) and x.func.attr in _MUTATORS:
                return False
            if isinstance(x, ast.Attribute) and isinstance(x.ctx, ast.Load) and isinstance(x.value, ast.Name) and x.value.id == sn:
                if the_field is not None and x.attr != the_field and x.attr in fields:
                    continue  # another field: does not hold the value in question
                p_ = _parent(x)
                if isinstance(p_, (ast.comprehension, ast.For)) and p_.iter is x:
                    if not _elements_clean(model, meth, p_):
                        return False
                    continue
                # the field itself may be read, iterated, indexed, compared, formatted - not stored, splatted or handed on
                if isinstance(p_, (ast.Attribute, ast.Subscript, ast.comprehension, ast.For, ast.Compare, ast.BoolOp, ast.UnaryOp, ast.If, ast.IfExp, ast.FormattedValue, ast.BinOp)):
                    continue
                if isinstance(p_, ast.Call) and x in p_.args:
                    fn = p_.func
                    if isinstance(fn, ast.Name):
                        if fn.id in _READ_ONLY_CALLS:
                            continue
                        g = model.lookup_target(model.resolve_dotted(meth.module, meth, fn.id))
                        if isinstance(g, FuncInfo):
                            i_ = p_.args.index(x)
                            if i_ < len(g.pos_params) and not [u for u in _param_uses(model, g, g.pos_params[i_], 2, frozenset()) if u[2] != "returned"]:
                                continue
                    return False
                if isinstance(p_, ast.Call) and p_.func is x:
                    continue
                return False
    return True


def _param_uses(model: Model, fi: FuncInfo, pname: str, depth: int, seen) -> List[Tuple[ast.AST, str, str]]:
    from .model import parent as _parent

    if (fi.qual, pname) in seen or depth < 0:
        return []
    seen = seen | {(fi.qual, pname)}
    out: List[Tuple[ast.AST, str, str]] = []

    def _holder(x):
        """the outermost container literal that x is an element of (x itself if none)"""
        while isinstance(_parent(x), (ast.List, ast.Tuple, ast.Set, ast.Dict, ast.Starred)):
            x = _parent(x)
        return x

    def _callee_of(call: ast.Call):
        f = call.func
        if isinstance(f, ast.Name):
            tgt = model.lookup_target(model.resolve_dotted(fi.module, fi, f.id))
            return (tgt, 0) if isinstance(tgt, FuncInfo) else None
        if isinstance(f, ast.Attribute) and isinstance(f.value, ast.Name) and fi.cls is not None and fi.pos_params and f.value.id == fi.pos_params[0]:
            g = model.find_method(fi.cls, f.attr)
            if g is not None:
                return g, (0 if "staticmethod" in g.decorators else 1)
        return None

    names = {pname}
    values: List[ast.AST] = []  # expressions that evaluate to (something holding) the object
    changed = True
    passes: Dict[int, List] = {}
    while changed:
        changed = False
        values = [n for n in own_nodes(fi) if isinstance(n, ast.Name) and n.id in names and isinstance(n.ctx, ast.Load)]
        # results of helpers that hand the object back
        for v in list(values):
            h = _holder(v)
            par_ = _parent(h)
            call = None
            if isinstance(par_, ast.Call) and h in par_.args:
                call, kw, idx = par_, None, par_.args.index(h)
            elif isinstance(par_, ast.keyword):
                call, kw, idx = _parent(par_), par_.arg, None
            if call is None:
                continue
            got = _callee_of(call)
            if got is None:
                continue
            g, skip = got
            cp = kw if kw is not None else (g.pos_params[skip:][idx] if idx is not None and idx < len(g.pos_params[skip:]) else None)
            if cp is None:
                continue
            sub = passes.get(id(call))
            if sub is None:
                sub = _param_uses(model, g, cp, depth - 1, seen)
                passes[id(call)] = sub
            if any(x[2] == "returned" for x in sub):
                values.append(call)
        for v in values:
            h = _holder(v)
            par_ = _parent(h)
            if isinstance(par_, ast.Assign) and par_.value is h:
                for t in par_.targets:
                    if isinstance(t, ast.Name) and t.id not in names:
                        names.add(t.id)
                        changed = True
    for n0 in values:
        n = _holder(n0)
        par = _parent(n)
        st = stmt_of(n0)
        if isinstance(par, ast.Attribute) and par.value is n:
            gp = _parent(par)
            if isinstance(gp, ast.Call) and gp.func is par:
                if par.attr in MUTATORS:
                    out.append((st, f"is mutated (.{par.attr}())", "mutated"))
                continue
            if isinstance(par.ctx, (ast.Store, ast.Del)):
                out.append((st, "has an attribute written", "mutated"))
            continue
        if isinstance(par, ast.Subscript) and par.value is n:
            if isinstance(par.ctx, (ast.Store, ast.Del)):
                out.append((st, "is mutated (item store)", "mutated"))
            continue
        if isinstance(par, ast.AugAssign) and par.target is n:
            out.append((st, "is mutated (augmented assignment)", "mutated"))
            continue
        if isinstance(par, ast.IfExp) and par.test is not n:
            gp = _parent(par)
            if isinstance(gp, (ast.Return, ast.Yield)):
                out.append((st, "is returned", "returned"))
            elif not (isinstance(gp, ast.Assign) and all(isinstance(t, ast.Name) for t in gp.targets)):
                out.append((st, "may be stored through a conditional expression", "stored"))
            continue
        if isinstance(par, (ast.BinOp, ast.Compare, ast.BoolOp, ast.UnaryOp, ast.If, ast.IfExp, ast.While, ast.For, ast.comprehension, ast.Assert, ast.Starred, ast.FormattedValue, ast.Expr)):
            continue
        if isinstance(par, ast.Assign) and par.value is n:
            if all(isinstance(t, ast.Name) for t in par.targets):
                continue  # alias, followed above
            out.append((st, "is stored in an attribute / container", "stored"))
            continue
        if isinstance(par, (ast.Return, ast.Yield)):
            out.append((st, "is returned", "returned"))
            continue
        if isinstance(par, ast.keyword):
            par_call, kwname, idx = _parent(par), par.arg, None
        elif isinstance(par, ast.Call) and n in par.args:
            par_call, kwname, idx = par, None, par.args.index(n)
        else:
            continue
        f = par_call.func
        fname = f.id if isinstance(f, ast.Name) else (f.attr if isinstance(f, ast.Attribute) else None)
        if isinstance(f, ast.Name) and fname in _READ_ONLY_CALLS:
            continue
        if isinstance(f, ast.Name) and fname in ("map", "filter") and len(par_call.args) >= 2 and idx is not None and idx >= 1 and isinstance(par_call.args[0], ast.Name):
            # map(g, values): every value is handed to g's first parameter (and to nothing else); the iterator itself is
            # consumed where it stands or judged as a lazy iterator
            tg_ = model.lookup_target(model.resolve_dotted(fi.module, fi, par_call.args[0].id))
            if isinstance(tg_, FuncInfo) and tg_.pos_params:
                sub_ = [u for u in _param_uses(model, tg_, tg_.pos_params[0], depth - 1, seen) if u[2] != "returned"]
                if not sub_:
                    continue
        if isinstance(f, ast.Attribute) and fname in _READ_ONLY_METHODS:
            continue
        if isinstance(f, ast.Attribute) and isinstance(f.value, ast.Name) and f.value.id in ("str", "int", "float", "bytes", "object", "repr") and fname in ("__repr__", "__str__", "__format__", "__len__", "__eq__", "__hash__"):
            continue  # str.__repr__(x) and the like: the unbound form of a reading method
        got = _callee_of(par_call)
        if got is not None:
            callee, skip = got
            cp = kwname if kwname is not None else (callee.pos_params[skip:][idx] if idx is not None and idx < len(callee.pos_params[skip:]) else None)
            if cp is None and idx is not None and getattr(callee.node.args, "vararg", None) is not None:
                cp = callee.node.args.vararg.arg  # lands in *args: followed as the tuple that holds it
            if cp is None:
                out.append((st, f"is passed to {callee.name} in a way that cannot be followed", "stored"))
                continue
            sub = passes.get(id(par_call))
            if sub is None:
                sub = _param_uses(model, callee, cp, depth - 1, seen)
            for _s, why, kind in sub:
                if kind != "returned":
                    out.append((st, f"is passed to {callee.name}, where it {why}", kind))
            continue
        if isinstance(f, ast.Name) and _transient_inert_record(model, fi, par_call, idx, kwname):
            continue  # a private record object that lives for one expression and whose methods only read what it holds
        out.append((st, f"is handed to {ast.unparse(f)}(..), which may keep it (a constructed node / object holds the one shared default object)", "stored"))
    return out


def _only_called_from(model: Model, fi: FuncInfo, names: Set[str], depth: int) -> bool:
    """a private helper whose every call site is in one of the named functions (or in such a helper of theirs): the
    registry's writers wrote through it"""
    from .lib import call_sites_of

    if depth <= 0 or not fi.is_private:
        return False
    sites = call_sites_of(model, fi)
    refs = [n for g in model.funcs.values() for n in ast.walk(g.node) if isinstance(n, ast.Name) and n.id == fi.name and isinstance(n.ctx, ast.Load)] if fi.cls is None else []
    if not sites or (fi.cls is None and len(refs) > len(sites) * 1 and len({id(r) for r in refs}) != len(sites)):
        return False
    return all(c.name in names or _only_called_from(model, c, names, depth - 1) for c, _call, _sk in sites)


def check_stateless(run, rule: str, scope: Sequence[FuncInfo], what: str) -> None:
    """no persistent-state site inside `scope` (functions), registries excepted."""
    m = run.model
    run.rule(rule, f"history independence of {what}: no module-/class-level mutable state, memoisation or memo attributes written on the code path (configuration registries excepted, by name)")
    scope_q = {f.qual for f in scope}
    sites = getattr(m, "_state_sites", None)
    if sites is None:
        sites = persistent_state_sites(m)
        m._state_sites = sites  # type: ignore
    n_bad = 0
    for s in sites:
        if s.fi.qual not in scope_q:
            continue
        mod, _, nm = s.what.rpartition(".")
        allowed = REGISTRIES.get((mod, nm))
        if allowed is not None and (s.fi.name in allowed or _only_called_from(m, s.fi, allowed, 2)):
            continue
        n_bad += 1
        run.fail(rule, s.fi, s.stmt, f"{s.kind} ({s.what}) in {s.fi.name}: state that persists between calls makes {what} depend on the history of earlier calls in the process (a second query, a second dataset, a repeated helper), not only on its inputs", "compute from the inputs of this call; keep per-call state on a per-call object")
    if n_bad == 0:
        run.ok(rule, None, f"no persistent state written on the {len(scope_q)} functions of this property's code path")
    run.notes.setdefault("stateless_scope", {})[rule] = len(scope_q)


def light_reachable(model: Model, roots: Sequence[FuncInfo]) -> List[FuncInfo]:
    """functions reachable from roots over a cheap, purely name-resolved call graph (calls of package functions,
    instantiation of package classes -> all their methods, self.method, nested definitions)."""
    from .model import ClassInfo

    graph = getattr(model, "_light_graph", None)
    if graph is None:
        graph = {}
        for fi in model.funcs.values():
            outs: Set[str] = set()
            for c in calls_in(fi):
                f = c.func
                tgt = None
                if isinstance(f, ast.Name):
                    tgt = model.lookup_target(model.resolve_dotted(fi.module, fi, f.id))
                elif isinstance(f, ast.Attribute) and isinstance(f.value, ast.Name) and fi.cls is not None and fi.pos_params and f.value.id == fi.pos_params[0]:
                    tgt = model.find_method(fi.cls, f.attr)
                    if f.attr == "visit" and model.is_visitor(fi.cls):
                        for g in model.all_methods(fi.cls).values():
                            outs.add(g.qual)
                elif isinstance(f, ast.Attribute):
                    d = ast.unparse(f)
                    t2 = model.lookup_target(model.resolve_dotted(fi.module, fi, d)) if "." in d and "(" not in d else None
                    tgt = t2
                if isinstance(tgt, FuncInfo):
                    outs.add(tgt.qual)
                elif isinstance(tgt, ClassInfo):
                    for g in model.all_methods(tgt).values():
                        outs.add(g.qual)
            for g in model.funcs.values():
                if g.parent_func is fi:
                    outs.add(g.qual)
            for ci in model.classes.values():
                if ci.parent_func is fi:
                    for g in ci.methods.values():
                        outs.add(g.qual)
            graph[fi.qual] = outs
        model._light_graph = graph  # type: ignore
    seen: Set[str] = set()
    st = [r.qual for r in roots]
    while st:
        q = st.pop()
        if q in seen or q not in model.funcs:
            continue
        seen.add(q)
        st.extend(graph.get(q, ()))
    return [model.funcs[q] for q in sorted(seen)]


WHAT = {
    "C01": "what a query means", "C02": "the simplified query", "C03": "which lambda is recovered", "C04": "what is captured",
    "C05": "how a helper is inlined", "C06": "the lowered sugar", "C07": "call normalisation", "C08": "the followed types",
    "C09": "callback dispatch and metadata", "C10": "pass-through and refusals", "C11": "every existing stream's query", "C12": "what value() executes",
    "C13": "embedded values", "C14": "the simplified shape", "C15": "metadata extraction and removal", "C16": "query metadata lookup",
    "C17": "the function-form query", "C18": "the simplifier's totality", "C19": "the lowered aggregates", "C20": "the query hash",
}


def finalize(run) -> None:
    """shared last rule of every property: history independence of the code the property's rules analysed."""
    m = run.model
    roots = [m.funcs[q] for q in sorted(run.functions_analysed) if q in m.funcs]
    scope = light_reachable(m, roots)
    check_stateless(run, f"{run.prop}.S", scope, WHAT.get(run.prop, "the result"))
