"""E2 - reaching definitions and provenance terms.

For an expression at a program point, ``FuncAnalysis.term_of`` builds a *provenance term* by
reaching definitions + copy propagation + inlining of small package helpers.  Terms are nested
tuples (hashable, structurally comparable):

  ('param', name) | ('free', name) | ('global', dotted) | ('const', value)
  ('attr', t, name) | ('index', t, k) | ('slice', t, lo, hi) | ('subscript', t, t)
  ('list', (t..)) | ('tuple', (t..)) | ('dict', ((k, v)..)) | ('concat', a, b)
  ('new', 'Call', ((field, t)..))                      ast node construction
  ('app', callee, (args..), ((kw, t)..), site)         call that is not inlined
  ('visit', t) | ('gvisit', t)                         self.visit / (base) generic_visit
  ('phi', (t..)) | ('ifexp', c, a, b) | ('op', kind, (t..)) | ('fstr', parts) | ('elem', t)
  ('comp', kind, elt, gens) | ('bound', name) | ('lambda', ..) | ('top', why) | ('rec',)
"""
from __future__ import annotations

import ast
import builtins
from typing import Any, Callable, Dict, FrozenSet, List, Optional, Sequence, Set, Tuple

from .cfg import CFG, CNode, cfg_of, targets_store
from .model import (
    AnalysisError,
    ClassInfo,
    FuncInfo,
    Model,
    ancestors,
    dotted,
    parent,
)

Term = tuple

AST_CLASSES = {n for n in dir(ast) if isinstance(getattr(ast, n), type) and issubclass(getattr(ast, n), ast.AST)}


def ast_fields(cls_name: str) -> Tuple[str, ...]:
    return tuple(getattr(ast, cls_name)._fields)


# ---------------------------------------------------------------------------------- helpers on terms
def phi(alts: Sequence[Term]) -> Term:
    flat: List[Term] = []
    for a in alts:
        if a[0] == "phi":
            for x in a[1]:
                if x not in flat:
                    flat.append(x)
        elif a not in flat:
            flat.append(a)
    non_rec = [a for a in flat if a != ("rec",)]
    if non_rec:
        flat = non_rec + ([("rec",)] if len(non_rec) != len(flat) else [])
    if len(flat) == 1:
        return flat[0]
    return ("phi", tuple(_stable_order(flat)))


def _shallow(t: Any, d: int = 4) -> str:
    if not isinstance(t, tuple):
        return repr(t)
    if d == 0:
        return str(t[0]) if t and isinstance(t[0], str) else "_"
    return "(" + ",".join(_shallow(x, d - 1) for x in t[:6]) + ")"


def _stable_order(flat: List[Term]) -> List[Term]:
    """deterministic order of alternatives without printing whole (possibly huge) terms: a depth-bounded key first,
    the full rendering only to separate alternatives that agree on it"""
    keyed = sorted(((_shallow(a), i) for i, a in enumerate(flat)))
    out: List[Term] = []
    i = 0
    while i < len(keyed):
        j = i
        while j + 1 < len(keyed) and keyed[j + 1][0] == keyed[i][0]:
            j += 1
        grp = [flat[k] for _s, k in keyed[i:j + 1]]
        out.extend(grp if len(grp) == 1 else sorted(grp, key=repr))
        i = j + 1
    return out


_NEG_CMP = {"Compare:NotIn": "Compare:In", "Compare:In": "Compare:NotIn", "Compare:IsNot": "Compare:Is", "Compare:Is": "Compare:IsNot", "Compare:NotEq": "Compare:Eq", "Compare:Eq": "Compare:NotEq"}


def _cond(ct: Term, pol: bool) -> Term:
    """condition term with its polarity folded in: not (a not in b) is a in b, .."""
    if pol:
        return ct
    if ct[0] == "op" and ct[1] in _NEG_CMP and len(ct[2]) == 2:
        return ("op", _NEG_CMP[ct[1]], ct[2])
    if ct[0] == "op" and ct[1] == "Not" and len(ct[2]) == 1:
        return ct[2][0]
    return ("op", "Not", (ct,))


def resolve_global_consts(model, t: Term) -> Term:
    """every ('global', 'pkg.mod.NAME') that a module binds to a literal constant (directly or through re-exports),
    replaced by that constant: a named constant is its value"""
    if not isinstance(t, tuple):
        return t
    if len(t) == 2 and t[0] == "global" and isinstance(t[1], str):
        target = t[1]
        for _ in range(4):
            mod, _, nm = target.rpartition(".")
            mi = model.modules.get(mod)
            if mi is None:
                break
            if nm in mi.assigns:
                if isinstance(mi.assigns[nm], ast.Constant):
                    return ("const", mi.assigns[nm].value)
                break
            if nm in mi.imports:
                target = mi.imports[nm]
                continue
            break
        return t
    return tuple(resolve_global_consts(model, x) for x in t)


def decision_alternatives(t: Term, conds: Tuple = ()) -> List[Tuple[Tuple, Term]]:
    """[(conditions, alternative)] of a result rendered as a decision tree: conditions are (term, truth value) pairs
    collected along ifexp nodes; a plain phi contributes its alternatives without conditions."""
    if t and t[0] == "ifexp":
        return decision_alternatives(t[2], conds + ((t[1], True),)) + decision_alternatives(t[3], conds + ((t[1], False),))
    if t and t[0] == "phi":
        out: List[Tuple[Tuple, Term]] = []
        for a in t[1]:
            out += decision_alternatives(a, conds)
        return out
    if t and t[0] == "index" and isinstance(t[2], int) and isinstance(t[1], tuple) and t[1] and t[1][0] in ("ifexp", "phi"):
        # names, n = <helper that answers (names, n) or None>: the k-th element of each alternative
        out = []
        for c_, alt in decision_alternatives(t[1], conds):
            if alt[0] in ("tuple", "list") and -len(alt[1]) <= t[2] < len(alt[1]):
                out.append((c_, alt[1][t[2]]))
            elif alt == ("const", None):
                out.append((c_, alt))
            else:
                out.append((c_, ("index", alt, t[2])))
        return out
    return [(conds, t)]


def upd(t: Term, fields: Dict[str, Term]) -> Term:
    """object t with attribute stores applied."""
    if t[0] == "new":
        cur = dict(t[2])
        order = [f for f, _ in t[2]]
        for f, v in fields.items():
            if f not in cur:
                order.append(f)
            cur[f] = v
        return ("new", t[1], tuple((f, cur[f]) for f in order))
    if t[0] == "upd":
        cur = dict(t[2])
        cur.update(fields)
        return ("upd", t[1], tuple(sorted(cur.items())))
    return ("upd", t, tuple(sorted(fields.items())))


def subterms(t: Any):
    if isinstance(t, tuple):
        yield t
        for x in t:
            yield from subterms(x)


def contains(t: Term, pred: Callable[[Term], bool]) -> bool:
    return any(isinstance(s, tuple) and s and isinstance(s[0], str) and pred(s) for s in subterms(t))


def has_top(t: Term) -> bool:
    return contains(t, lambda s: s[0] == "top")


def tops(t: Term) -> List[str]:
    return [s[1] for s in subterms(t) if isinstance(s, tuple) and len(s) == 2 and s[0] == "top"]


def strip_sites(t: Any, _memo: Optional[Dict[int, Any]] = None) -> Any:
    """terms without the call-site tags of their applications. Terms are DAGs (a helper's result substituted at several
    places is one object): shared parts are rewritten once (memo by identity), or a generator-heavy function costs minutes."""
    if not isinstance(t, tuple):
        return t
    if _memo is None:
        _memo = {}
    got = _memo.get(id(t))
    if got is not None:
        return got[1]
    if t and t[0] == "app" and len(t) == 5:
        r = ("app", strip_sites(t[1], _memo), strip_sites(t[2], _memo), strip_sites(t[3], _memo))
    else:
        r = tuple(strip_sites(x, _memo) for x in t)
    _memo[id(t)] = (t, r)  # t kept alive so that its id is not re-used within this call
    return r


def strip_visits(t: Any) -> Any:
    """erase visit/gvisit wrappers (matching modulo visiting)."""
    if isinstance(t, tuple):
        if t and t[0] in ("visit", "gvisit") and len(t) == 2:
            return strip_visits(t[1])
        return tuple(strip_visits(x) for x in t)
    return t


def subst(t: Any, mapping: Dict[Term, Term]) -> Any:
    if isinstance(t, tuple):
        if t in mapping:
            return mapping[t]
        return tuple(subst(x, mapping) for x in t)
    return t


def _reduce_beta(t: Any) -> Any:
    """(lambda p: body)(a) is body with a for p - once a parameter that is called was bound to a lambda written at the
    call site.  Not done when a lambda nested in the body binds one of the same names."""
    if not isinstance(t, tuple) or not t:
        return t
    r = tuple(_reduce_beta(x) for x in t)
    if len(r) in (4, 5) and r[0] == "app" and isinstance(r[1], tuple) and len(r[1]) == 3 and r[1][0] == "lambda" and not r[3] and len(r[2]) == len(r[1][1]):
        ps, body = r[1][1], r[1][2]
        if not any(isinstance(x, tuple) and len(x) == 3 and x[0] == "lambda" and set(x[1]) & set(ps) for x in walk_all(body)):
            return subst(body, {("bound", p_): a_ for p_, a_ in zip(ps, r[2])})
    return r


def _reduce_fields(t: Any, alias: Optional[Dict[str, str]] = None) -> Any:
    """x.f where x is a constructed object whose field f is known (after a parameter was bound to the object); `alias`
    maps property names to the attributes they stand for (x.stream was read as x._stream before x was known to be a
    record that has a field called stream)"""
    if not isinstance(t, tuple) or not t:
        return t
    r = tuple(_reduce_fields(x, alias) for x in t)
    if len(r) == 3 and r[0] == "attr" and isinstance(r[1], tuple) and r[1][:1] == ("new",) and isinstance(r[2], str):
        for f, v in r[1][2]:
            if f == r[2]:
                return v
        if alias and isinstance(r[1][1], str) and ":" in r[1][1]:
            for f, v in r[1][2]:
                if alias.get(f) == r[2]:
                    return v
    return r


def _retag_sites(t: Any, k: int) -> Any:
    """the calls made for the k-th element of an unrolled comprehension are calls of their own: one call site in the
    text, one call per element"""
    if not isinstance(t, tuple) or not t:
        return t
    if t[0] == "app" and len(t) == 5:
        return ("app", _retag_sites(t[1], k), _retag_sites(t[2], k), _retag_sites(t[3], k), ("el", t[4], k))
    return tuple(_retag_sites(x, k) for x in t)


def splice_literals(t: Any, _memo: Optional[Dict[int, Any]] = None) -> Any:
    """after parameters were bound: `[f(v) for v in (a, b)]` is `[f(a), f(b)]`, `[x, *[y, z]]` is `[x, y, z]`, and a
    bound method that was handed to a helper and called there (`visitor(node)` with visitor := self.generic_visit)
    is the visit it stands for.  Shared sub-terms are processed once; unchanged terms keep their identity."""
    if not isinstance(t, tuple) or not t:
        return t
    if _memo is None:
        _memo = {}
    k = id(t)
    hit = _memo.get(k)
    if hit is not None and hit[0] is t:
        return hit[1]
    kids = [splice_literals(x, _memo) for x in t]
    r = t if all(a is b for a, b in zip(kids, t)) else tuple(kids)
    if len(r) >= 4 and r[0] == "app" and isinstance(r[1], tuple) and len(r[1]) == 3 and r[1][0] == "attr" and isinstance(r[1][1], tuple) and r[1][1][:1] == ("param",) and r[1][2] in ("visit", "generic_visit") and len(r[2]) == 1 and not r[3]:
        r = ("visit" if r[1][2] == "visit" else "gvisit", r[2][0])
    elif len(r) in (4, 5) and r[0] == "app" and r[1] == ("global", "builtins.map") and len(r[2]) == 2 and not r[3] and isinstance(r[2][1], tuple) and r[2][1][:1] in (("tuple",), ("list",)):
        # map(f, (a, b)) over a literal: [f(a), f(b)] wherever its elements are what matters (it is only ever spliced or listed)
        f_ = r[2][0]
        r = ("list", tuple(("app", f_, (x,), ()) for x in r[2][1][1]))
    elif len(r) == 3 and r[0] == "index" and isinstance(r[2], int) and isinstance(r[1], tuple) and len(r[1]) == 4 and r[1][0] == "comp" and r[1][1] == "GeneratorExp" and len(r[1][3]) == 1 and not r[1][3][0][1] and isinstance(r[1][3][0][0], tuple) and r[1][3][0][0][:1] in (("tuple",), ("list",)) and 0 <= r[2] < len(r[1][3][0][0][1]):
        # a, b = (f(x) for x in (p, q)): the i-th component is f(<i-th element>)
        it = r[1][3][0][0]
        r = _retag_sites(splice_literals(subst(r[1][2], {("elem", it): it[1][r[2]]}), _memo), r[2])
    elif len(r) == 4 and r[0] == "comp" and r[1] == "ListComp" and len(r[3]) == 1:
        it, conds = r[3][0]
        if isinstance(it, tuple) and it and it[0] in ("tuple", "list") and not conds:
            r = ("list", tuple(_retag_sites(splice_literals(subst(r[2], {("elem", it): x}), _memo), i_) for i_, x in enumerate(it[1])))
    elif len(r) == 2 and r[0] in ("list", "tuple") and isinstance(r[1], tuple) and any(isinstance(x, tuple) and len(x) == 3 and x[0] == "op" and x[1] == "Starred" and x[2][0][0] in ("list", "tuple") for x in r[1]):
        out = []
        for x in r[1]:
            if isinstance(x, tuple) and len(x) == 3 and x[0] == "op" and x[1] == "Starred" and x[2][0][0] in ("list", "tuple"):
                out.extend(x[2][0][1])
            else:
                out.append(x)
        r = (r[0], tuple(out))
    if len(r) == 3 and r[0] == "concat" and isinstance(r[1], tuple) and isinstance(r[2], tuple) and r[1][:1] == ("list",) and r[2][:1] == ("list",):
        r = ("list", tuple(r[1][1]) + tuple(r[2][1]))  # [a] + [b, c] is [a, b, c]
    _memo[k] = (t, r)
    return r


def root_of(t: Term) -> Term:
    """the term at the bottom of an attr/index/slice/elem chain."""
    while t and t[0] in ("attr", "index", "slice", "subscript", "elem"):
        t = t[1]
    return t


def path_of(t: Term) -> List[Any]:
    p = []
    while t and t[0] in ("attr", "index", "slice", "subscript", "elem"):
        p.append(t[2] if t[0] in ("attr", "index") else t[0])
        t = t[1]
    return list(reversed(p))


def show(t: Any, depth: int = 0) -> str:
    """compact human-readable rendering for reports / evidence."""
    if not isinstance(t, tuple) or not t or not isinstance(t[0], str):
        return repr(t)
    k = t[0]
    if depth > 12:
        return "..."
    s = lambda x: show(x, depth + 1)  # noqa
    if k == "param":
        return t[1]
    if k == "free":
        return f"^{t[1]}"
    if k == "global":
        return t[1].replace("func_adl.", "")
    if k == "const":
        return repr(t[1])
    if k == "attr":
        return f"{s(t[1])}.{t[2]}"
    if k == "index":
        return f"{s(t[1])}[{t[2]!r}]"
    if k == "slice":
        return f"{s(t[1])}[{'' if t[2] is None else t[2]}:{'' if t[3] is None else t[3]}]"
    if k == "subscript":
        return f"{s(t[1])}[{s(t[2])}]"
    if k == "list":
        return "[" + ", ".join(s(x) for x in t[1]) + "]"
    if k == "tuple":
        return "(" + ", ".join(s(x) for x in t[1]) + ",)"
    if k == "dict":
        return "{" + ", ".join(f"{s(a)}: {s(b)}" for a, b in t[1]) + "}"
    if k == "concat":
        return f"{s(t[1])} ++ {s(t[2])}"
    if k == "new":
        return f"ast.{t[1]}(" + ", ".join(f"{f}={s(v)}" for f, v in t[2]) + ")"
    if k == "app":
        a = ", ".join([s(x) for x in t[2]] + [f"{n}={s(v)}" for n, v in t[3]])
        return f"{s(t[1])}({a})"
    if k == "visit":
        return f"Visit({s(t[1])})"
    if k == "gvisit":
        return f"GVisit({s(t[1])})"
    if k == "upd":
        return f"{s(t[1])}{{" + ", ".join(f"{f}:={s(v)}" for f, v in t[2]) + "}"
    if k == "tvisit":
        return f"{t[1].split(':')[-1]}().visit({s(t[2])})"
    if k == "phi":
        return "Phi(" + " | ".join(s(x) for x in t[1]) + ")"
    if k == "ifexp":
        return f"({s(t[2])} if {s(t[1])} else {s(t[3])})"
    if k == "op":
        return f"{t[1]}(" + ", ".join(s(x) for x in t[2]) + ")"
    if k == "fstr":
        return "f'" + "".join(p[1] if p[0] == "const" and isinstance(p[1], str) else "{" + s(p[1]) + (("!" + p[2]) if len(p) > 2 and p[2] else "") + "}" for p in t[1]) + "'"
    if k == "elem":
        return f"elem({s(t[1])})"
    if k == "comp":
        return f"{t[1]}[{s(t[2])} for .. in " + "; ".join(s(g[0]) + ("" if not g[1] else " if " + " and ".join(s(c) for c in g[1])) for g in t[3]) + "]"
    if k == "bound":
        return f"${t[1]}"
    if k == "top":
        return f"TOP<{t[1]}>"
    if k == "rec":
        return "REC"
    if k == "lambda":
        return f"lambda {','.join(t[1])}: {s(t[2])}"
    return repr(t)


# ---------------------------------------------------------------------------------- context
class TermCtx:
    """Inlining policy shared by analyses in one rule evaluation."""

    def __init__(self, model: Model, opaque: Optional[Set[str]] = None, max_depth: int = 4, identity: Optional[Set[str]] = None):
        self.model = model
        self.opaque = set(opaque or ())  # simple function names never inlined
        self.max_depth = max_depth
        # functions summarised as the identity on their last positional argument
        self.identity = {"typing.cast"} | set(identity or ())
        self._fa: Dict[str, "FuncAnalysis"] = {}
        self.unresolved_calls: List[str] = []
        self.resolved_calls = 0

    def analysis(self, fi: FuncInfo) -> "FuncAnalysis":
        k = (fi.qual, id(fi.node))  # views of one function (sa/normalise.py) share its name, not its statements
        if k not in self._fa:
            self._fa[k] = FuncAnalysis(self, fi)
        return self._fa[k]


class Def:
    __slots__ = ("node", "name", "kind", "payload", "path")

    def __init__(self, node: Optional[CNode], name: str, kind: str, payload: Any = None, path: Tuple = ()):
        self.node = node
        self.name = name
        self.kind = kind
        self.payload = payload
        self.path = path

    def __repr__(self):
        return f"Def({self.name},{self.kind}@{self.node})"


def _unpack_targets(t: ast.AST, path: Tuple = ()):
    if isinstance(t, ast.Name):
        yield t.id, path
    elif isinstance(t, (ast.Tuple, ast.List)):
        for i, e in enumerate(t.elts):
            if isinstance(e, ast.Starred):
                yield from _unpack_targets(e.value, path + (("star", i),))
            else:
                yield from _unpack_targets(e, path + (i,))


class FuncAnalysis:
    def __init__(self, ctx: TermCtx, fi: FuncInfo):
        self.ctx = ctx
        self.model = ctx.model
        self.fi = fi
        self.cfg: CFG = cfg_of(fi.node)
        self.locals: Set[str] = set()
        self._collect_locals()
        self._defs_at: Dict[CNode, List[Def]] = {}
        self._rd_in: Dict[CNode, Dict[str, FrozenSet[Def]]] = {}
        self._compute_rd()
        self._def_cache: Dict[int, Term] = {}
        self._in_progress: Set[int] = set()
        self._ret_cache: Optional[Term] = None

    # ------------------------------------------------------------------ locals
    def _own_nodes(self):
        """ast nodes of this function, not descending into nested defs/classes/lambdas' bodies."""
        st = list(self.fi.node.body) if not isinstance(self.fi.node, ast.Lambda) else [self.fi.node.body]
        while st:
            n = st.pop()
            yield n
            if isinstance(n, (ast.FunctionDef, ast.AsyncFunctionDef, ast.ClassDef)):
                continue
            for c in ast.iter_child_nodes(n):
                if isinstance(c, ast.Lambda):
                    yield c
                    continue
                st.append(c)

    def _collect_locals(self) -> None:
        self.locals |= set(self.fi.params)
        nonlocal_names: Set[str] = set()
        for n in self._own_nodes():
            if isinstance(n, (ast.Global, ast.Nonlocal)):
                nonlocal_names |= set(n.names)
            elif isinstance(n, ast.Name) and isinstance(n.ctx, (ast.Store, ast.Del)):
                # comprehension targets are expression-local; handled in term_of
                if not any(isinstance(a, ast.comprehension) and _inside(n, a.target) for a in ancestors(n)):
                    self.locals.add(n.id)
            elif isinstance(n, (ast.FunctionDef, ast.AsyncFunctionDef, ast.ClassDef)):
                self.locals.add(n.name)
            elif isinstance(n, (ast.Import, ast.ImportFrom)):
                for a in n.names:
                    self.locals.add((a.asname or a.name).split(".")[0])
            elif isinstance(n, ast.ExceptHandler) and n.name:
                self.locals.add(n.name)
        self.locals -= nonlocal_names
        self.global_decl = nonlocal_names

    # ------------------------------------------------------------------ reaching definitions
    def _node_defs(self, n: CNode) -> List[Def]:
        out: List[Def] = []
        s = n.stmt
        if n.kind == "stmt" and s is not None:
            if isinstance(s, ast.Assign):
                for t in s.targets:
                    for name, path in _unpack_targets(t):
                        out.append(Def(n, name, "assign", s.value, path))
            elif isinstance(s, ast.AnnAssign) and s.value is not None:
                for name, path in _unpack_targets(s.target):
                    out.append(Def(n, name, "assign", s.value, path))
            elif isinstance(s, ast.AugAssign):
                for name, path in _unpack_targets(s.target):
                    out.append(Def(n, name, "aug", s))
            elif isinstance(s, (ast.Import, ast.ImportFrom)):
                tmp: Dict[str, str] = {}
                self.model._collect_imports(self.fi.module, s, tmp)
                for k, v in tmp.items():
                    out.append(Def(n, k, "import", v))
            elif isinstance(s, (ast.FunctionDef, ast.AsyncFunctionDef, ast.ClassDef)):
                out.append(Def(n, s.name, "def", s))
            elif isinstance(s, ast.Delete):
                for t in s.targets:
                    for name, _p in _unpack_targets(t):
                        out.append(Def(n, name, "del"))
        elif n.kind == "for" and s is not None:
            for name, path in _unpack_targets(s.target):  # type: ignore
                out.append(Def(n, name, "for", s.iter, path))  # type: ignore
        elif n.kind == "with" and s is not None:
            for it in s.items:  # type: ignore
                if it.optional_vars is not None:
                    for name, path in _unpack_targets(it.optional_vars):
                        out.append(Def(n, name, "with", it.context_expr, path))
        elif n.kind == "handler":
            h = n.ast
            if getattr(h, "name", None):
                out.append(Def(n, h.name, "except", h))  # type: ignore
        # walrus in any expression evaluated at this node
        from .cfg import _own_exprs

        src = n.ast if n.kind in ("test", "assert") else n.stmt
        if src is not None and n.kind not in ("handler", "try"):
            for e in _own_exprs(src):
                for y in ast.walk(e):
                    if isinstance(y, ast.NamedExpr) and isinstance(y.target, ast.Name):
                        out.append(Def(n, y.target.id, "assign", y.value, ()))
        return out

    def _compute_rd(self) -> None:
        cfg = self.cfg
        entry_defs: Dict[str, FrozenSet[Def]] = {}
        for p in self.fi.params:
            entry_defs[p] = frozenset([Def(None, p, "param")])
        for n in cfg.nodes:
            self._defs_at[n] = self._node_defs(n)
        OUT: Dict[CNode, Dict[str, FrozenSet[Def]]] = {n: {} for n in cfg.nodes}
        IN: Dict[CNode, Dict[str, FrozenSet[Def]]] = {n: {} for n in cfg.nodes}
        OUT[cfg.entry] = dict(entry_defs)
        changed = True
        order = cfg.nodes
        while changed:
            changed = False
            for n in order:
                if n is cfg.entry:
                    continue
                new_in: Dict[str, FrozenSet[Def]] = {}
                for p, _f in n.pred:
                    for k, v in OUT[p].items():
                        new_in[k] = new_in.get(k, frozenset()) | v
                if new_in != IN[n]:
                    IN[n] = new_in
                    changed = True
                new_out = dict(new_in)
                byname: Dict[str, List[Def]] = {}
                for d in self._defs_at[n]:
                    byname.setdefault(d.name, []).append(d)
                for k, ds in byname.items():
                    new_out[k] = frozenset(ds)
                if new_out != OUT[n]:
                    OUT[n] = new_out
                    changed = True
        self._rd_in = IN
        self._rd_out = OUT

    # ------------------------------------------------------------------ name classification
    def _resolve_nonlocal(self, name: str) -> Term:
        f = self.fi.parent_func
        while f is not None:
            fa = self.ctx.analysis(f)
            if name in fa.locals:
                return ("free", name)
            f = f.parent_func
        # class-body names are not visible from methods; module scope next
        mi = self.fi.module
        tgt = self.model.resolve_dotted(mi, self.fi, name)
        imported = name in mi.imports or name in self.model.local_imports(self.fi)
        if tgt == name and not imported and name not in mi.assigns and name not in mi.functions and name not in mi.classes:
            if hasattr(builtins, name):
                return ("global", f"builtins.{name}")
            return ("global", f"{mi.name}.{name}")
        return ("global", tgt)

    # ------------------------------------------------------------------ terms
    def term_of(self, e: ast.AST, at: Optional[CNode] = None, env: Optional[Dict[str, Term]] = None, depth: int = 0) -> Term:
        if at is None:
            at = self.cfg.node_of(e)
        if env is None:
            env = self._comp_env(e, at, depth)
        return self._t(e, at, env or {}, depth)

    def _comp_env(self, e: ast.AST, at: CNode, depth: int) -> Dict[str, Term]:
        """bindings of comprehension / lambda variables enclosing e inside its statement."""
        chain = []
        child = e
        for a in ancestors(e):
            if isinstance(a, ast.stmt) or a is self.fi.node:
                break
            if isinstance(a, (ast.ListComp, ast.SetComp, ast.GeneratorExp, ast.DictComp)):
                # which generators are in scope for `child`?
                gens = a.generators
                if child in gens:
                    idx = gens.index(child)
                    # inside generator idx: its iter sees generators[:idx]; its ifs see [:idx+1]
                    chain.append((a, idx, child))
                else:
                    chain.append((a, len(gens), None))
            elif isinstance(a, ast.Lambda):
                chain.append((a, None, None))
            child = a
        env: Dict[str, Term] = {}
        for a, idx, gen in reversed(chain):
            if isinstance(a, ast.Lambda):
                for p in a.args.posonlyargs + a.args.args:
                    env[p.arg] = ("bound", p.arg)
                continue
            upto = a.generators[:idx] if gen is None else a.generators[: idx + (0 if _inside(e, gen.iter) else 1)]
            for g in upto:
                it = self._t(g.iter, at, env, depth)
                for name, path in _unpack_targets(g.target):
                    env[name] = self._project(("elem", it), path)
        return env

    def _name(self, e: ast.Name, at: CNode, env, depth) -> Term:
        name = e.id
        if name in env:
            return env[name]
        if name not in self.locals:
            return self._resolve_nonlocal(name)
        defs = self._rd_in.get(at, {}).get(name)
        if at.kind in ("stmt",) and False:
            pass
        if not defs:
            return ("top", f"unbound local {name}")
        alts = []
        for d in sorted(defs, key=lambda d: (d.node.id if d.node else -1, d.path and repr(d.path))):
            td = self._def_term(d, depth)
            if d.kind == "assign" and d.node is not None and (d.path == () or td[0] in ("app", "new")):
                td = self._apply_stores(td, name, d, at, depth)
                if isinstance(d.payload, (ast.List, ast.ListComp)) or (isinstance(d.payload, ast.Call) and isinstance(d.payload.func, ast.Name) and d.payload.func.id in ("list", "bytearray")):
                    growing = self.__dict__.setdefault("_growing", set())
                    if name not in growing:
                        # the list as it is *before* the loops that fill it when those loops mention it (len(xs) in their header)
                        growing.add(name)
                        try:
                            td = self._apply_growth(td, name, d, at, depth)
                        finally:
                            growing.discard(name)
            alts.append(td)
        t = phi(alts)
        return self._refine(t, e, name)

    def _apply_growth(self, base: Term, name: str, d: "Def", at: CNode, depth: int) -> Term:
        """`xs = [..]` followed by `for v in it: [if c:] xs.append(e)` loops that have completed before `at`
        is rendered like the equivalent comprehension(s): base ++ [e for v in it if c] ++ .."""
        cfg = self.cfg
        sites = []
        for n in self._own_nodes():
            if isinstance(n, ast.Call) and isinstance(n.func, ast.Attribute) and isinstance(n.func.value, ast.Name) and n.func.value.id == name:
                if n.func.attr == "append" and len(n.args) == 1:
                    sites.append(n)
                elif n.func.attr == "extend" and len(n.args) == 1 and not any(isinstance(a, (ast.For, ast.While)) for a in ancestors(n)):
                    sites.append(n)
                elif n.func.attr in ("extend", "insert", "remove", "pop", "clear", "sort", "reverse"):
                    return base
            elif isinstance(n, ast.AugAssign) and isinstance(n.target, ast.Name) and n.target.id == name:
                return base
            elif isinstance(n, ast.Subscript) and isinstance(n.ctx, (ast.Store, ast.Del)) and isinstance(n.value, ast.Name) and n.value.id == name:
                return base
        parts = []
        for c in sorted(sites, key=lambda x: (x.lineno, x.col_offset)):
            if not cfg.has_node(c):
                return base
            cn = cfg.node_of(c)
            if self._rd_in.get(cn, {}).get(name) != frozenset([d]):
                continue
            loop = None
            nest = []  # the for-loops around the append, innermost first
            for a in ancestors(c):
                if isinstance(a, (ast.For,)):
                    nest.append(a)
                    continue
                if isinstance(a, (ast.While, ast.FunctionDef, ast.AsyncFunctionDef, ast.Lambda, ast.ListComp, ast.GeneratorExp, ast.Try, ast.With)):
                    break
            if nest:
                # the outermost loop that still lies after the list's definition and wholly before `at`
                loop = nest[0]
                for cand in nest[1:]:
                    cl = cfg.node_of(cand)
                    if cfg.dominates(d.node, cl) and cl is not d.node and not (at.stmt is not None and any(x is at.stmt for x in ast.walk(cand))):
                        loop = cand
                    else:
                        break
            if cn is at:
                continue
            if loop is None:
                if cfg.dominates(d.node, cn) and self._on_all_paths(d.node, cn, at):
                    if c.func.attr == "extend":
                        parts.append(self._t(c.args[0], cn, {}, depth))
                    else:
                        parts.append(("list", (self._t(c.args[0], cn, {}, depth),)))
                    continue
                return base
            ln = cfg.node_of(loop)
            if at is ln:
                continue  # the loop's own header is evaluated before the loop has added anything
            inside_at = at.stmt is not None and any(x is at.stmt for x in ast.walk(loop)) and at is not ln
            if inside_at or not (cfg.dominates(d.node, ln) and cfg.dominates(ln, at)):
                if inside_at:
                    continue
                return base
            if any(isinstance(x, (ast.Break, ast.Return)) for x in ast.walk(loop)):
                return base
            head_keys = {cfg.atom_key(a) for a in cfg.facts_after(ln)} | {cfg.atom_key(a) for a in cfg.facts_at(ln)}
            conds = []
            for fx, pol in cfg.facts_at(cn):
                if cfg.atom_key((fx, pol)) in head_keys:
                    continue
                try:
                    ct = self._t(fx, cfg.node_of(fx) if cfg.has_node(fx) else cn, {}, depth)
                except AnalysisError:
                    ct = ("top", "cond")
                conds.append(_cond(ct, pol))
            chain = [l_ for l_ in reversed(nest) if l_ is loop or any(x is l_ for x in ast.walk(loop))]
            gens = []
            for l_ in chain:
                gens.append((self._t(l_.iter, cfg.node_of(l_), {}, depth), ()))
            gens[-1] = (gens[-1][0], tuple(conds))  # all conditions are attached to the innermost generator
            parts.append(("comp", "ListComp", self._t(c.args[0], cn, {}, depth), tuple(gens)))
        t = base
        for p in parts:
            if t == ("list", ()):
                t = p
            else:
                t = ("concat", t, p)
        return t

    def _on_all_paths(self, a: CNode, m: CNode, b: CNode) -> bool:
        """every path a -> b passes through m."""
        seen = {m}
        st = [a]
        while st:
            x = st.pop()
            if x in seen:
                continue
            seen.add(x)
            for y, _f in x.succ:
                if y is b:
                    return False
                st.append(y)
        return True

    def attr_stores(self, name: str, d: "Def", at: CNode, depth: int = 0) -> List[Tuple[CNode, str, Term]]:
        """`name.f = v` / setattr(name, 'f', v) statements executed on every path between the single
        definition d of `name` and the program point `at` (dominance both ways)."""
        out: List[Tuple[CNode, str, Term]] = []
        cfg = self.cfg
        for m in cfg.nodes:
            if m.kind != "stmt" or m is at or m.stmt is None:
                continue
            s = m.stmt
            hits: List[Tuple[str, ast.AST]] = []
            if isinstance(s, ast.Assign):
                for tg in s.targets:
                    if isinstance(tg, ast.Attribute) and isinstance(tg.value, ast.Name) and tg.value.id == name:
                        hits.append((tg.attr, s.value))
            elif isinstance(s, ast.Expr) and isinstance(s.value, ast.Call) and isinstance(s.value.func, ast.Name) and s.value.func.id == "setattr":
                a = s.value.args
                if len(a) == 3 and isinstance(a[0], ast.Name) and a[0].id == name:
                    if isinstance(a[1], ast.Constant) and isinstance(a[1].value, str):
                        hits.append((a[1].value, a[2]))
                    else:
                        kt = self._t(a[1], m, {}, depth)
                        kt = self._global_const(kt)
                        if kt[0] == "const" and isinstance(kt[1], str):
                            hits.append((kt[1], a[2]))
            if not hits:
                continue
            if self._rd_in.get(m, {}).get(name) != frozenset([d]):
                continue
            if not (cfg.dominates(d.node, m) and self._on_all_paths(d.node, m, at)):
                continue
            for f, v in hits:
                out.append((m, f, self._t(v, m, {}, depth)))
        out.sort(key=lambda x: sum(1 for y in out if cfg.dominates(y[0], x[0])))
        return out

    def _global_const(self, t: Term) -> Term:
        """('global', 'pkg.mod.NAME') bound to a literal at module level -> that constant."""
        if t[0] == "global":
            target = t[1]
            for _ in range(4):  # follow re-exports: `from ._x import NAME` in the module named by the term
                mod, _, nm = target.rpartition(".")
                mi = self.model.modules.get(mod)
                if mi is None:
                    break
                if nm in mi.assigns:
                    if isinstance(mi.assigns[nm], ast.Constant):
                        return ("const", mi.assigns[nm].value)
                    break
                if nm in mi.imports:
                    target = mi.imports[nm]
                    continue
                break
        return t

    def _reduce_getattr(self, t: Any) -> Any:
        """getattr(x, <name>) whose name became a known constant once a parameter was bound: x.<name>"""
        if not isinstance(t, tuple) or not t:
            return t
        r = tuple(self._reduce_getattr(x) for x in t)
        if len(r) == 3 and r[0] == "attr" and r[2] in ("value", "name") and isinstance(r[1], tuple) and r[1] and r[1][0] in ("global", "attr"):
            red = self._attr(r[1], r[2], 0)
            if red[0] == "const":
                return red  # Kind.MEMBER.value once the parameter is known to be that member
        if len(r) in (4, 5) and r[0] == "app" and r[1] == ("global", "builtins.getattr") and len(r[2]) in (2, 3) and not r[3]:
            key = self._global_const(r[2][1]) if isinstance(r[2][1], tuple) and r[2][1] else ("top",)
            if key[0] == "const" and isinstance(key[1], str):
                got = ("attr", r[2][0], key[1])
                return got if len(r[2]) == 2 else phi([got, r[2][2]])
        return r

    def _apply_stores(self, t: Term, name: str, d: "Def", at: CNode, depth: int) -> Term:
        stores = self.attr_stores(name, d, at, depth)
        if not stores:
            return t
        fields: Dict[str, Term] = {}
        for _m, f, v in stores:
            fields[f] = v
        return upd(t, fields)

    def _refine(self, t: Term, e: ast.AST, name: str) -> Term:
        if t[0] == "upd":
            b = self._refine(t[1], e, name)
            return t if b is t[1] else ("upd", b, t[2])
        if t[0] == "ifexp" and (("const", None) in (t[2], t[3])):
            if self._known_not_none(e, name):
                return t[3] if t[2] == ("const", None) else t[2]
            return t
        if t[0] != "phi" or ("const", None) not in t[1]:
            return t
        if self._known_not_none(e, name):
            return phi([a for a in t[1] if a != ("const", None)])
        return t

    def _known_not_none(self, e: ast.AST, name: str) -> bool:
        try:
            facts = self.cfg.expr_facts(e)
        except AnalysisError:
            return False
        for fx, pol in facts:
            if isinstance(fx, ast.Compare) and len(fx.ops) == 1 and isinstance(fx.left, ast.Name) and fx.left.id == name:
                c = fx.comparators[0]
                if isinstance(c, ast.Constant) and c.value is None:
                    notnone = (isinstance(fx.ops[0], ast.IsNot) and pol) or (isinstance(fx.ops[0], ast.Is) and not pol)
                    if notnone:
                        return True
        return False

    def _def_term(self, d: Def, depth: int) -> Term:
        if d.kind == "param":
            return ("param", d.name)
        key = id(d)
        if key in self._def_cache:
            return self._def_cache[key]
        if key in self._in_progress:
            return ("rec",)
        self._in_progress.add(key)
        try:
            t = self._def_term_uncached(d, depth)
        finally:
            self._in_progress.discard(key)
        if not contains(t, lambda s: s == ("rec",)):
            self._def_cache[key] = t
        return t

    def _def_term_uncached(self, d: Def, depth: int) -> Term:
        n = d.node
        assert n is not None
        if d.kind == "assign":
            t = self._t(d.payload, n, {}, depth)
            return self._project(t, d.path)
        if d.kind == "for":
            t = ("elem", self._t(d.payload, n, {}, depth))
            return self._project(t, d.path)
        if d.kind == "with":
            t = ("app", ("attr", self._t(d.payload, n, {}, depth), "__enter__"), (), (), _site(d.payload))
            return self._project(t, d.path)
        if d.kind == "aug":
            s = d.payload
            old = self._t(ast.Name(id=d.name, ctx=ast.Load()), n, {}, depth) if isinstance(s.target, ast.Name) else ("top", "aug")
            return ("op", type(s.op).__name__, (old, self._t(s.value, n, {}, depth)))
        if d.kind == "import":
            return ("global", d.payload)
        if d.kind == "def":
            s = d.payload
            fi = getattr(s, "_finfo", None) or getattr(s, "_cinfo", None)
            return ("global", fi.qual.replace(":", ".")) if fi else ("top", "def")
        if d.kind == "except":
            return ("top", "exception object")
        if d.kind == "del":
            return ("top", "deleted")
        return ("top", d.kind)

    def _project(self, t: Term, path: Tuple) -> Term:
        for p in path:
            if isinstance(p, tuple):
                t = ("slice", t, p[1], None)
            else:
                t = self._index(t, p)
        return t

    def _index(self, t: Term, k: Any) -> Term:
        if t[0] in ("tuple", "list") and isinstance(k, int) and -len(t[1]) <= k < len(t[1]):
            return t[1][k]
        if t[0] == "phi":
            return phi([self._index(a, k) for a in t[1]])
        if t[0] == "ifexp":
            return ("ifexp", t[1], self._index(t[2], k), self._index(t[3], k))
        if t[0] == "concat" and isinstance(k, int) and k >= 0 and t[1][0] in ("list", "tuple"):
            n = len(t[1][1])
            return self._index(t[1], k) if k < n else self._index(t[2], k - n)
        return ("index", t, k)

    def _attr(self, t: Term, name: str, depth: int) -> Term:
        if t[0] == "phi":
            return phi([self._attr(a, name, depth) for a in t[1]])
        if name in ("value", "name") and t[0] == "attr" and isinstance(t[1], tuple) and t[1][:1] == ("global",) and isinstance(t[2], str):
            # Kind.MEMBER.value / .name of an Enum class of the package whose member is bound to a literal
            ec = self.model.lookup_target(t[1][1])
            if isinstance(ec, ClassInfo) and any(b.split(".")[-1] in ("Enum", "IntEnum", "StrEnum") for b in ec.base_names):
                lit = ec.class_assigns.get(t[2])
                if name == "name" and lit is not None:
                    return ("const", t[2])
                if isinstance(lit, ast.Constant):
                    return ("const", lit.value)
        if name in ("value", "name") and t[0] == "global" and isinstance(t[1], str) and "." in t[1]:
            cq, _, mem = t[1].rpartition(".")
            ec = self.model.lookup_target(cq)
            if isinstance(ec, ClassInfo) and any(b.split(".")[-1] in ("Enum", "IntEnum", "StrEnum") for b in ec.base_names):
                lit = ec.class_assigns.get(mem)
                if name == "name" and lit is not None:
                    return ("const", mem)
                if isinstance(lit, ast.Constant):
                    return ("const", lit.value)
        if t[0] == "new":
            for f, v in t[2]:
                if f == name:
                    return v
            if isinstance(t[1], str) and ":" in t[1]:
                for f, v in t[2]:
                    if self.model_property_alias(f) == name:
                        return v  # the record's own field, read under the name a same-named property stands for elsewhere
                rc_ = self.model.classes.get(t[1])
                pm_ = self.model.find_method(rc_, name) if rc_ is not None else None
                if pm_ is not None and pm_.is_property:
                    return self._inline(pm_, [t], [], ("site", 0, 0), depth)
        if t[0] == "upd":
            for f, v in t[2]:
                if f == name:
                    return v
            return self._attr(t[1], name, depth)
        return ("attr", t, name)

    def _t(self, e: ast.AST, at: CNode, env: Dict[str, Term], depth: int) -> Term:
        m = self.model
        if isinstance(e, ast.Name):
            return self._name(e, at, env, depth)
        if isinstance(e, ast.Constant):
            v = e.value
            try:
                hash(v)
            except TypeError:  # pragma: no cover
                v = repr(v)
            return ("const", v)
        if isinstance(e, ast.Attribute):
            base = self._t(e.value, at, env, depth)
            # module attribute: ast.Call, copy.copy, typing.Any
            if base[0] == "global":
                return ("global", f"{base[1]}.{e.attr}")
            return self._attr(self._dealias_property(base, e.attr), e.attr, depth) if False else self._attr_prop(base, e.attr, depth)
        if isinstance(e, ast.Subscript):
            base = self._t(e.value, at, env, depth)
            sl = e.slice
            if isinstance(sl, ast.Constant) and isinstance(sl.value, (int, str)):
                return self._index(base, sl.value)
            if isinstance(sl, ast.UnaryOp) and isinstance(sl.op, ast.USub) and isinstance(sl.operand, ast.Constant) and isinstance(sl.operand.value, int):
                return self._index(base, -sl.operand.value)
            if isinstance(sl, ast.Slice):
                lo = self._const_or_term(sl.lower, at, env, depth)
                hi = self._const_or_term(sl.upper, at, env, depth)
                return ("slice", base, lo, hi)
            return ("subscript", base, self._t(sl, at, env, depth))
        if isinstance(e, ast.List):
            return ("list", tuple(self._t(x, at, env, depth) for x in e.elts))
        if isinstance(e, ast.Tuple):
            return ("tuple", tuple(self._t(x, at, env, depth) for x in e.elts))
        if isinstance(e, ast.Set):
            return ("set", tuple(self._t(x, at, env, depth) for x in e.elts))
        if isinstance(e, ast.Dict):
            return (
                "dict",
                tuple(((("const", "**") if k is None else self._t(k, at, env, depth)), self._t(v, at, env, depth)) for k, v in zip(e.keys, e.values)),
            )
        if isinstance(e, ast.Call):
            return self._call(e, at, env, depth)
        if isinstance(e, ast.IfExp):
            return ("ifexp", self._t(e.test, at, env, depth), self._t(e.body, at, env, depth), self._t(e.orelse, at, env, depth))
        if isinstance(e, ast.BinOp):
            l, r = self._t(e.left, at, env, depth), self._t(e.right, at, env, depth)
            if isinstance(e.op, ast.Add) and (l[0] in ("list", "concat") or r[0] in ("list", "concat")):
                if l[0] == "list" and r[0] == "list":
                    return ("list", l[1] + r[1])
                return ("concat", l, r)
            return ("op", type(e.op).__name__, (l, r))
        if isinstance(e, ast.UnaryOp):
            return ("op", type(e.op).__name__, (self._t(e.operand, at, env, depth),))
        if isinstance(e, ast.BoolOp):
            return ("op", type(e.op).__name__, tuple(self._t(v, at, env, depth) for v in e.values))
        if isinstance(e, ast.Compare):
            ops = "_".join(type(o).__name__ for o in e.ops)
            return ("op", "Compare:" + ops, tuple(self._t(v, at, env, depth) for v in [e.left] + e.comparators))
        if isinstance(e, ast.JoinedStr):
            parts = []
            for v in e.values:
                if isinstance(v, ast.Constant):
                    parts.append(("const", v.value))
                elif isinstance(v, ast.FormattedValue):
                    conv = {-1: "", 115: "s", 114: "r", 97: "a"}.get(v.conversion, "?")
                    parts.append(("fmt", self._t(v.value, at, env, depth), conv))
            return ("fstr", tuple(parts))
        if isinstance(e, ast.NamedExpr):
            return self._t(e.value, at, env, depth)
        if isinstance(e, ast.Await):
            return ("op", "Await", (self._t(e.value, at, env, depth),))
        if isinstance(e, ast.Starred):
            return ("op", "Starred", (self._t(e.value, at, env, depth),))
        if isinstance(e, (ast.ListComp, ast.SetComp, ast.GeneratorExp, ast.DictComp)):
            env2 = dict(env)
            gens = []
            for g in e.generators:
                it = self._t(g.iter, at, env2, depth)
                for name, path in _unpack_targets(g.target):
                    env2[name] = self._project(("elem", it), path)
                conds = tuple(self._t(c, at, env2, depth) for c in g.ifs)
                gens.append((it, conds))
            if isinstance(e, ast.DictComp):
                elt = ("tuple", (self._t(e.key, at, env2, depth), self._t(e.value, at, env2, depth)))
            else:
                elt = self._t(e.elt, at, env2, depth)
            return ("comp", type(e).__name__, elt, tuple(gens))
        if isinstance(e, ast.Lambda):
            ps = tuple(a.arg for a in e.args.posonlyargs + e.args.args)
            env2 = dict(env)
            for p in ps:
                env2[p] = ("bound", p)
            return ("lambda", ps, self._t(e.body, at, env2, depth))
        if isinstance(e, ast.Slice):
            return ("top", "slice")
        return ("top", type(e).__name__)

    def _const_or_term(self, e, at, env, depth):
        if e is None:
            return None
        if isinstance(e, ast.Constant):
            return e.value
        return self._t(e, at, env, depth)

    # ------------------------------------------------------------------ attributes through properties
    def _attr_prop(self, base: Term, name: str, depth: int) -> Term:
        """x.query_ast == x._q_ast etc: de-alias @property bodies that return self.<field>."""
        alias = self.model_property_alias(name)
        return self._attr(base, alias, depth)

    _prop_alias_cache: Dict[int, Dict[str, str]] = {}

    def model_property_alias(self, name: str) -> str:
        cache = FuncAnalysis._prop_alias_cache.setdefault(id(self.model), {})
        if not cache and not getattr(self.model, "_prop_alias_done", False):
            for fi in self.model.funcs.values():
                if fi.is_property and fi.cls is not None:
                    body = [s for s in fi.node.body if not (isinstance(s, ast.Expr) and isinstance(s.value, ast.Constant))]
                    if len(body) == 1 and isinstance(body[0], ast.Return):
                        v = body[0].value
                        if isinstance(v, ast.Attribute) and isinstance(v.value, ast.Name) and v.value.id == "self":
                            prev = cache.get(fi.name)
                            if prev is None or prev == v.attr:
                                cache[fi.name] = v.attr
                            else:
                                cache[fi.name] = fi.name  # conflicting aliases: do not de-alias
            self.model._prop_alias_done = True  # type: ignore
        return cache.get(name, name)

    # ------------------------------------------------------------------ calls
    def _call(self, e: ast.Call, at: CNode, env, depth) -> Term:
        m = self.model
        args = [self._t(a, at, env, depth) for a in e.args]
        kws = [(k.arg, self._t(k.value, at, env, depth)) for k in e.keywords]
        site = _site(e)
        f = e.func

        # super().meth(...)
        if isinstance(f, ast.Attribute) and isinstance(f.value, ast.Call) and isinstance(f.value.func, ast.Name) and f.value.func.id == "super":
            ci = self.fi.cls or (self.fi.parent_func and None)
            if ci is not None:
                return self._method_call(ci, f.attr, ("param", self.fi.params[0] if self.fi.params else "self"), args, kws, site, depth, skip_self=True)
        # self.meth(...)
        if isinstance(f, ast.Attribute) and isinstance(f.value, ast.Name) and self.fi.cls is not None and self.fi.params and f.value.id == self.fi.params[0] and f.value.id not in env:
            # only if 'self' has not been re-assigned
            st = self._t(f.value, at, env, depth)
            if st == ("param", self.fi.params[0]):
                r = self._method_call(self.fi.cls, f.attr, st, args, kws, site, depth)
                if r is not None:
                    return r
        callee = self._t(f, at, env, depth)
        # Generic alias call: ObjectStream[T](...)
        if callee[0] in ("index", "subscript") and callee[1][0] == "global":
            callee = callee[1]
        # functools.partial(f, a, k=b)(c) is f(a, c, k=b)
        if callee[0] == "app" and callee[1] == ("global", "functools.partial") and callee[2] and not any(k_ is None for k_, _v in callee[3]):
            f0, bound = strip_sites(callee[2][0]), list(callee[2][1:])
            kws2 = [(k_, v_) for k_, v_ in callee[3] if k_ not in {x_ for x_, _y in kws}] + list(kws)
            if f0[0] == "attr" and self.fi.cls is not None and self.fi.params and f0[1] == ("param", self.fi.params[0]):
                r = self._method_call(self.fi.cls, f0[2], f0[1], bound + args, kws2, site, depth)
                if r is not None:
                    return r
            if f0[0] == "global":
                r = m.lookup_target(f0[1])
                if isinstance(r, FuncInfo) and r.cls is None:
                    self.ctx.resolved_calls += 1
                    return self._inline(r, bound + args, kws2, site, depth)
        # Cls.meth(self, ...)  explicit base call
        if callee[0] == "global":
            tgt = callee[1]
            if tgt in self.ctx.identity or tgt.split(".")[-1] in self.ctx.identity:
                self.ctx.resolved_calls += 1
                return args[-1] if args else ("top", "identity()")
            head = tgt.split(".")
            if tgt == "builtins.getattr" and len(args) >= 2 and not kws:
                key = self._global_const(args[1])
                if key[0] == "const" and isinstance(key[1], str):
                    self.ctx.resolved_calls += 1
                    got = self._attr_prop(args[0], key[1], depth)
                    return got if len(args) == 2 else phi([got, args[2]])
            if head[0] == "ast" and len(head) == 2 and head[1] in AST_CLASSES:
                self.ctx.resolved_calls += 1
                return self._new(head[1], args, kws)
            if tgt in ("itertools.filterfalse", "builtins.filter") and len(args) == 2 and not kws and isinstance(args[0], tuple) and args[0][:1] == ("global",):
                # filter(pred, xs) / filterfalse(pred, xs) with a package predicate: (x for x in xs if [not] pred(x))
                pf = m.lookup_target(args[0][1])
                if isinstance(pf, FuncInfo) and len(pf.pos_params) == 1:
                    self.ctx.resolved_calls += 1
                    el = ("elem", args[1])
                    c_ = strip_sites(self._inline(pf, [el], [], site, depth))
                    if tgt.endswith("filterfalse"):
                        c_ = ("op", "Not", (c_,))
                    return ("comp", "GeneratorExp", el, ((args[1], (c_,)),))
            if tgt in ("builtins.list", "builtins.tuple") and len(args) == 1 and not kws and isinstance(args[0], tuple) and len(args[0]) == 4 and args[0][0] == "comp" and args[0][1] == "GeneratorExp":
                self.ctx.resolved_calls += 1
                return ("comp", "ListComp", args[0][2], args[0][3])  # list(<generator>) has the generator's elements
            if tgt == "itertools.chain.from_iterable" and len(args) == 1 and not kws:
                # iterating chain.from_iterable(xss) is iterating `for xs in xss for x in xs`
                self.ctx.resolved_calls += 1
                outer = ("elem", args[0])
                return ("comp", "GeneratorExp", ("elem", outer), ((args[0], ()), (outer, ())))
            r = m.lookup_target(tgt)
            if isinstance(r, FuncInfo):
                self.ctx.resolved_calls += 1
                if r.cls is not None and args and not r.is_property:
                    # Class.method(self, ...) form
                    if r.name in ("visit",):
                        return ("visit", args[1]) if len(args) > 1 else ("top", "visit()")
                    return self._inline(r, args, kws, site, depth)
                return self._inline(r, args, kws, site, depth)
            if isinstance(r, ClassInfo):
                self.ctx.resolved_calls += 1
                rec = self._record_new(r, args, kws, depth)
                if rec is not None:
                    return rec
                return ("app", ("global", r.qual.replace(":", ".")), tuple(args), tuple(kws), site)
            if tgt in ("ast.NodeTransformer.generic_visit", "ast.NodeVisitor.generic_visit") and len(args) == 2:
                self.ctx.resolved_calls += 1
                return ("gvisit", args[1])
            self.ctx.resolved_calls += 1
            return ("app", callee, tuple(args), tuple(kws), site)
        # method on a value: x.visit(t) where x = SomeTransformer()
        if callee[0] == "attr":
            recv = callee[1]
            if recv[0] == "new" and isinstance(recv[1], str) and ":" in recv[1]:
                rc_ = m.classes.get(recv[1])
                tm_ = m.find_method(rc_, callee[2]) if rc_ is not None else None
                if tm_ is not None and not tm_.is_property:
                    self.ctx.resolved_calls += 1
                    if "staticmethod" in tm_.decorators:
                        return self._inline(tm_, list(args), kws, site, depth)
                    return self._inline(tm_, [recv] + list(args), kws, site, depth)
            if recv[0] == "app" and recv[1][0] == "global":
                r = m.lookup_target(recv[1][1])
                if isinstance(r, ClassInfo) and m.is_visitor(r) and callee[2] == "visit" and args:
                    self.ctx.resolved_calls += 1
                    return ("tvisit", r.qual, args[0])
        self.ctx.unresolved_calls.append(f"{self.fi.qual}:{getattr(e, 'lineno', '?')} {show(callee)}")
        return ("app", callee, tuple(args), tuple(kws), site)

    def _record_new(self, ci: ClassInfo, args: List[Term], kws, depth: int) -> Optional[Term]:
        """An instance of a *private record class* of the package - a dataclass without a hand-written __init__, or a
        class whose __init__ only stores expressions of its parameters in attributes - as ('new', <class>, fields).
        Fields that some method of the class changes (store outside __init__, mutator call, item store) are left out:
        reading them yields the opaque attribute, never a stale initial value."""
        m = self.model
        if m.is_visitor(ci) or not (ci.name.startswith("_") or ci.parent_func is not None) or ci.name.startswith("__"):
            return None
        if any(k is None for k, _v in kws):
            return None
        starred = [i for i, a_ in enumerate(args) if isinstance(a_, tuple) and len(a_) == 3 and a_[0] == "op" and a_[1] == "Starred"]
        if starred and (len(starred) != 1 or starred[0] != len(args) - 1 or kws):
            return None
        cache = self.ctx.__dict__.setdefault("_record_shapes", {})
        shape = cache.get(ci.qual, False)
        if shape is False:
            shape = self._record_shape(ci)
            cache[ci.qual] = shape
        if shape is None:
            return None
        kind, params, stores, mutated = shape
        bind: Dict[Term, Term] = {}
        names = [p_ for p_, _d in params]
        if starred:
            # C(*t): the components of t fill the remaining parameters in order (python raises when the lengths differ)
            src_ = args[-1][2][0]
            head = list(args[:-1])
            rest_n = len(names) - len(head)
            if rest_n < 0:
                return None
            args = head + [self._index(src_, i_) for i_ in range(rest_n)]
        if len(args) > len(names):
            return None
        for p_, a_ in zip(names, args):
            bind[("param", p_)] = a_
        for k_, v_ in kws:
            if k_ not in names or ("param", k_) in bind:
                return None
            bind[("param", k_)] = v_
        for p_, d_ in params:
            if ("param", p_) not in bind:
                if d_ is None:
                    return None
                bind[("param", p_)] = d_
        fields = []
        for f_, vt in stores:
            if f_ in mutated:
                continue
            fields.append((f_, subst(vt, bind)))
        return ("new", ci.qual, tuple(fields))

    def _record_shape(self, ci: ClassInfo):
        m = self.model
        init = ci.methods.get("__init__")
        decos = [dotted(d) or "" for d in ci.node.decorator_list]
        is_dc = any(d.split(".")[-1] == "dataclass" or (isinstance(dn, ast.Call) and (dotted(dn.func) or "").split(".")[-1] == "dataclass") for d, dn in zip(decos, ci.node.decorator_list))
        if ci.base_names and not all(b.split(".")[-1] in ("object", "Generic", "NamedTuple") or b.startswith("Generic[") for b in ci.base_names):
            return None
        if any(b.split(".")[-1] == "NamedTuple" for b in ci.base_names):
            is_dc = True  # the class form of a NamedTuple: annotated names are the fields, in order
        params: List[Tuple[str, Optional[Term]]] = []
        stores: List[Tuple[str, Term]] = []
        if init is None:
            if not is_dc:
                if any(True for _ in ci.methods) and not ci.node.body:
                    return None
                # a plain class without __init__: no fields
                params, stores = [], []
            else:
                for st in ci.node.body:
                    if isinstance(st, ast.AnnAssign) and isinstance(st.target, ast.Name):
                        d_ = None
                        if st.value is not None:
                            d_ = ("const", st.value.value) if isinstance(st.value, ast.Constant) else ("top", f"default of {ci.name}.{st.target.id}")
                        params.append((st.target.id, d_))
                        stores.append((st.target.id, ("param", st.target.id)))
                if "__post_init__" in ci.methods:
                    return None
        else:
            a = init.node.args
            if a.vararg or a.kwarg or a.posonlyargs:
                return None
            pos = [x.arg for x in a.args][1:]
            dfl = list(a.defaults)
            ifa = self.ctx.analysis(init)
            for i, p_ in enumerate(pos):
                j = i - (len(pos) - len(dfl))
                params.append((p_, strip_sites(ifa.term_of(dfl[j], ifa.cfg.entry)) if j >= 0 else None))
            for p_, d_ in zip([x.arg for x in a.kwonlyargs], a.kw_defaults):
                params.append((p_, strip_sites(ifa.term_of(d_, ifa.cfg.entry)) if d_ is not None else None))
            selfn = init.pos_params[0] if init.pos_params else "self"
            for st in init.node.body:
                if isinstance(st, ast.Expr) and isinstance(st.value, ast.Constant):
                    continue
                tg = st.targets[0] if isinstance(st, ast.Assign) and len(st.targets) == 1 else (st.target if isinstance(st, ast.AnnAssign) and st.value is not None else None)
                if not (isinstance(tg, ast.Attribute) and isinstance(tg.value, ast.Name) and tg.value.id == selfn):
                    return None
                if not ifa.cfg.has_node(st):
                    return None
                stores.append((tg.attr, strip_sites(ifa.term_of(st.value, ifa.cfg.node_of(st)))))
        # fields some method changes
        mutated = set()
        MUT = {"append", "extend", "insert", "pop", "remove", "clear", "update", "add", "discard", "setdefault", "popitem", "sort", "reverse", "appendleft", "popleft", "__setitem__"}
        for meth in ci.methods.values():
            if not meth.pos_params:
                continue
            sn = meth.pos_params[0]
            for x in ast.walk(meth.node):
                if meth.name != "__init__" and isinstance(x, ast.Attribute) and isinstance(x.ctx, (ast.Store, ast.Del)) and isinstance(x.value, ast.Name) and x.value.id == sn:
                    mutated.add(x.attr)
                if isinstance(x, ast.Call) and isinstance(x.func, ast.Attribute) and x.func.attr in MUT:
                    r_ = x.func.value
                    while isinstance(r_, (ast.Subscript, ast.Call)):
                        r_ = r_.value if isinstance(r_, ast.Subscript) else (r_.func.value if isinstance(r_.func, ast.Attribute) else None)
                        if r_ is None:
                            break
                    if isinstance(r_, ast.Attribute) and isinstance(r_.value, ast.Name) and r_.value.id == sn:
                        mutated.add(r_.attr)
                if isinstance(x, (ast.Subscript,)) and isinstance(x.ctx, (ast.Store, ast.Del)) and isinstance(x.value, ast.Attribute) and isinstance(x.value.value, ast.Name) and x.value.value.id == sn:
                    mutated.add(x.value.attr)
                if isinstance(x, ast.AugAssign) and isinstance(x.target, ast.Attribute) and isinstance(x.target.value, ast.Name) and x.target.value.id == sn:
                    mutated.add(x.target.attr)
        return ("dataclass" if is_dc else "init", params, stores, mutated)

    def _method_call(self, ci: ClassInfo, name: str, self_t: Term, args, kws, site, depth, skip_self=False) -> Optional[Term]:
        m = self.model
        if m.is_visitor(ci):
            if name == "visit" and args:
                self.ctx.resolved_calls += 1
                return ("visit", args[0])
            if name == "generic_visit" and args:
                target = m.find_method(ci, "generic_visit", skip_self=skip_self)
                if target is None:
                    self.ctx.resolved_calls += 1
                    return ("gvisit", args[0])
                # an overriding generic_visit inside the package: keep as a visit-like wrapper
                self.ctx.resolved_calls += 1
                return ("gvisit", args[0])
        target = m.find_method(ci, name, skip_self=skip_self)
        if target is None:
            return None
        self.ctx.resolved_calls += 1
        if target.is_property:
            return None
        if "staticmethod" in target.decorators:
            return self._inline(target, list(args), kws, site, depth)
        return self._inline(target, [self_t] + list(args), kws, site, depth)

    def _new(self, cls: str, args: List[Term], kws) -> Term:
        fields = ast_fields(cls)
        d: Dict[str, Term] = {}
        for i, a in enumerate(args):
            if i < len(fields):
                d[fields[i]] = a
            else:
                d[f"_extra{i}"] = a
        for k, v in kws:
            d[k or "**"] = v
        return ("new", cls, tuple((f, d[f]) for f in list(fields) + sorted(set(d) - set(fields)) if f in d))

    def _inline(self, callee: FuncInfo, args: List[Term], kws, site, depth: int) -> Term:
        ctx = self.ctx
        opaque_app = ("app", ("global", callee.qual.replace(":", ".")), tuple(args), tuple(kws), site)
        if callee.name in ctx.opaque or callee.qual in ctx.opaque:
            return opaque_app
        if depth >= ctx.max_depth:
            return opaque_app
        if isinstance(callee.node, ast.AsyncFunctionDef):
            return opaque_app
        if any(isinstance(x, (ast.Yield, ast.YieldFrom)) for x in ast.walk(callee.node)):
            return opaque_app
        stack = getattr(ctx, "_inline_stack", [])
        if callee.qual in stack:
            return opaque_app
        ctx._inline_stack = stack + [callee.qual]  # type: ignore
        try:
            # a *finder* - a loop over a literal table that returns at its first match - is read as the if-chain it
            # abbreviates (sa/normalise.py), so that its result is a decision tree and not "something from a loop"
            if not isinstance(callee.node, ast.Lambda) and any((isinstance(st_, ast.For) and any(isinstance(y_, ast.Return) for y_ in ast.walk(st_))) or (isinstance(st_, ast.Return) and isinstance(st_.value, ast.Call) and isinstance(st_.value.func, ast.Name) and st_.value.func.id == "next" and st_.value.args and isinstance(st_.value.args[0], ast.GeneratorExp)) for st_ in callee.node.body) and not callee.__dict__.get("_unrolled_from"):
                from .normalise import unrolled as _unrolled

                try:
                    callee = _unrolled(self.model, callee)
                except AnalysisError:
                    pass
            fa = ctx.analysis(callee)
            rt = fa.return_term(depth + 1)
        finally:
            ctx._inline_stack = stack  # type: ignore
        if rt is None:
            return opaque_app
        # bind parameters
        a = callee.node.args
        pos = [x.arg for x in a.posonlyargs + a.args]
        binding: Dict[Term, Term] = {}
        extra: List[Term] = []
        for i, t in enumerate(args):
            if i < len(pos):
                binding[("param", pos[i])] = t
            elif a.vararg:
                extra.append(t)
        if a.vararg and not any(t[0] == "op" and t[1] == "Starred" for t in args):
            binding[("param", a.vararg.arg)] = ("tuple", tuple(extra))
        for k, v in kws:
            if k is not None:
                binding[("param", k)] = v
        # defaults
        defaults = list(a.defaults)
        for name, dflt in zip(pos[len(pos) - len(defaults):], defaults):
            if ("param", name) not in binding:
                binding[("param", name)] = fa.term_of(dflt, fa.cfg.entry)
        for name, dflt in zip([x.arg for x in a.kwonlyargs], a.kw_defaults):
            if ("param", name) not in binding and dflt is not None:
                binding[("param", name)] = fa.term_of(dflt, fa.cfg.entry)
        for p in callee.params:
            binding.setdefault(("param", p), ("top", f"unbound parameter {p} of {callee.name}"))
        out = subst(rt, binding)
        if any(isinstance(v, tuple) and v and v[0] in ("global", "const") for v in binding.values()):
            out = self._reduce_getattr(out)
        if any(isinstance(v, tuple) and v and v[0] == "lambda" for v in binding.values()):
            out = _reduce_beta(out)
        if any(isinstance(v, tuple) and v and v[0] == "new" for v in binding.values()):
            self.model_property_alias("")
            out = _reduce_fields(out, FuncAnalysis._prop_alias_cache.get(id(self.model), {}))
        # normalisations that only matter when a vararg tuple, a bound method or a starred literal is involved
        need = a.vararg is not None or any(isinstance(v, tuple) and len(v) == 3 and v[0] == "attr" and v[2] in ("visit", "generic_visit") for v in binding.values())
        if not need and callee.cls is None and self.fi.cls is not None and self.fi.pos_params:
            # a module-level helper that is handed the visitor itself and calls visitor.visit / visitor.generic_visit
            need = any(v == ("param", self.fi.pos_params[0]) for v in binding.values())
        if not need:
            flag = getattr(fa, "_rt_has_starred", None)
            if flag is None:
                flag = any(isinstance(x, tuple) and len(x) == 3 and x[0] == "op" and x[1] == "Starred" for x in walk_all(rt))
                fa._rt_has_starred = flag  # type: ignore
            need = flag
        return splice_literals(out) if need else out

    # ------------------------------------------------------------------ returns
    def returns(self) -> List[Tuple[ast.Return, CNode]]:
        out = []
        for n in self.cfg.nodes:
            if n.kind == "return" and self.cfg.reachable(n):
                out.append((n.stmt, n))
        return out

    def return_term(self, depth: int = 0) -> Optional[Term]:
        if self._ret_cache is not None:
            return self._ret_cache
        try:
            st = self._structured(list(self.fi.node.body) if not isinstance(self.fi.node, ast.Lambda) else [], depth, 0)
        except _GiveUp:
            st = None
        if st is not None and st != _RAISE and len(self.returns()) >= 1 and not isinstance(self.fi.node, ast.Lambda):
            if not contains(st, lambda s: s == ("rec",)):
                self._ret_cache = st
            return st
        return self._phi_return_term(depth)

    def _structured(self, stmts: List[ast.stmt], depth: int, budget: int) -> Term:
        """decision-tree rendering of the function's result: if/elif/else and early returns become
        ('ifexp', cond, a, b); raising branches disappear (they do not produce a value)."""
        if budget > 400:
            raise _GiveUp()
        for i, s in enumerate(stmts):
            rest = stmts[i + 1:]
            if isinstance(s, ast.Return):
                n = self.cfg.node_of(s)
                return ("const", None) if s.value is None else self._t(s.value, n, {}, depth)
            if isinstance(s, ast.Raise):
                return _RAISE
            if isinstance(s, ast.If):
                if not _has_exit(s):
                    continue
                t_exit, e_exit = _always_exits(s.body), _always_exits(s.orelse)
                a = self._structured(list(s.body) + ([] if t_exit else rest), depth, budget + 1)
                b = self._structured(list(s.orelse) + ([] if e_exit else rest), depth, budget + 1)
                cond = self._t(s.test, self.cfg.node_of(s), {}, depth)
                if a == _RAISE:
                    return b
                if b == _RAISE:
                    return a
                if a == b:
                    return a
                return ("ifexp", cond, a, b)
            if isinstance(s, (ast.For, ast.AsyncFor, ast.While, ast.With, ast.AsyncWith, ast.Try)) or (hasattr(ast, "Match") and isinstance(s, ast.Match)):
                if _has_exit(s):
                    raise _GiveUp()
                continue
        return ("const", None)

    def _phi_return_term(self, depth: int = 0) -> Optional[Term]:
        alts = []
        for s, n in self.returns():
            alts.append(("const", None) if s.value is None else self._t(s.value, n, {}, depth))
        # falling off the end
        if any(p.kind != "return" for p, _ in self.cfg.exit.pred):
            alts.append(("const", None))
        if not alts:
            return None
        t = phi(alts)
        if not contains(t, lambda s: s == ("rec",)):
            self._ret_cache = t
        return t


class _GiveUp(Exception):
    pass


_RAISE = ("raise",)


def _has_exit(s: ast.AST) -> bool:
    for x in ast.walk(s):
        if isinstance(x, (ast.Return, ast.Raise)):
            # not inside a nested def
            return True
    return False


def _always_exits(stmts) -> bool:
    for s in stmts:
        if isinstance(s, (ast.Return, ast.Raise)):
            return True
        if isinstance(s, ast.If) and s.orelse and _always_exits(s.body) and _always_exits(s.orelse):
            return True
    return False


def _inside(n: ast.AST, root: ast.AST) -> bool:
    return any(x is n for x in ast.walk(root))


def _site(e: ast.AST) -> Tuple[int, int]:
    return (getattr(e, "lineno", 0), getattr(e, "col_offset", 0))


def unphi_terms(t: Term) -> List[Term]:
    """value alternatives of a term: Phi alternatives and both arms of conditional expressions, flattened."""
    if t[0] == "phi":
        out: List[Term] = []
        for a in t[1]:
            for x in unphi_terms(a):
                if x not in out:
                    out.append(x)
        return out
    if t[0] == "ifexp":
        out = []
        for a in (t[2], t[3]):
            for x in unphi_terms(a):
                if x not in out:
                    out.append(x)
        return out
    return [t]


def walk_all(t: Any):
    """every sub-tuple of t that is a term (first element a str tag)."""
    for s in subterms(t):
        if isinstance(s, tuple) and s and isinstance(s[0], str):
            yield s


def dynamic_dispatch(t: Term) -> Optional[Term]:
    """a sub-term that calls the result of getattr(obj, <computed name>): which method runs is decided by data
    (a table, a string built at run time) that a shape-based rule cannot read.  Checks that compare what a
    function builds against a law refuse to judge such a function rather than report a difference."""
    for sub in walk_all(t):
        # .. also when the chosen method is the element of a search: next(getattr(self, name) for .. in <table> if ..)(args)
        if isinstance(sub, tuple) and sub and sub[0] == "comp" and isinstance(sub[2], tuple) and sub[2][:2] == ("app", ("global", "builtins.getattr")) and len(sub[2][2]) >= 2 and sub[2][2][1][0] != "const":
            return sub[2]
        if isinstance(sub, tuple) and sub and sub[0] == "app" and isinstance(sub[1], tuple) and sub[1] and sub[1][0] == "app":
            f = strip_sites(sub[1])
            if f[1] == ("global", "builtins.getattr") and len(f[2]) >= 2 and f[2][1][0] != "const":
                nm = f[2][1]
                if nm[0] == "fstr" and nm[1] and nm[1][0][0] == "const" and str(nm[1][0][1]).endswith("_"):
                    continue  # the visitor protocol itself: getattr(self, f"call_{name}") / f"visit_{cls}"
                return sub
    return None
