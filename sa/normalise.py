"""Source-level normalisation of *first-match table dispatch*.

Some rules compare the branches of a function with a law (C02.R1 / C14.R1) or follow sub-trees into the
calls a function makes (E4a).  They read an if/elif chain.  The same decision is often written with a table:

    def _find(subject, table):                 # a private helper (function or method)
        for key, value in table.items():       # or: for key, value in table  (a sequence of pairs)
            if PRED(subject, key):
                return value                   # or: return getattr(self, value)
        return None

    handler = _find(subject_expr, {k1: v1, k2: v2})      # literal with constant keys, or a module-level
    if handler is not None:                               # literal tuple/list of constant pairs that nothing writes
        return handler(args..)
    <rest>

For a *literal* table this is, statement for statement, the chain

    if PRED(subject_expr, k1): return v1(args..)
    if PRED(subject_expr, k2): return v2(args..)
    <rest>

(the keys are constants, the loop visits them in literal order, the first match returns).  `unrolled(model, fi)`
returns a synthetic function with that chain when fi has exactly this shape, else fi itself.  Nothing is executed:
the rewrite is on the syntax tree, the result is analysed by the same engine.  Anything that departs from the
shape (the handler variable used elsewhere, a table that is not a literal, a loop body with more in it) is left
alone and the consuming rule refuses to judge it (see terms.dynamic_dispatch).
"""
from __future__ import annotations

import ast
import copy
from typing import Dict, List, Optional, Tuple

from .lib import _Subst, clone_ast, own_nodes
from .model import FuncInfo, Model


def _resolve_helper(model: Model, fi: FuncInfo, call: ast.Call) -> Optional[Tuple[FuncInfo, int]]:
    f = call.func
    if isinstance(f, ast.Name):
        tgt = model.lookup_target(model.resolve_dotted(fi.module, fi, f.id))
        return (tgt, 0) if isinstance(tgt, FuncInfo) else None
    if isinstance(f, ast.Attribute) and isinstance(f.value, ast.Name) and fi.cls is not None and fi.pos_params and f.value.id == fi.pos_params[0]:
        g = model.find_method(fi.cls, f.attr)
        if g is not None:
            return g, (0 if "staticmethod" in g.decorators else 1)
    if isinstance(f, ast.Attribute) and isinstance(f.value, ast.Name):
        # x.meth(..) where x is a local bound once, to a new object of a private record class
        ci = _local_record_class(model, fi, f.value.id)
        if ci is not None:
            g = ci.methods.get(f.attr)
            if g is not None and not g.decorators:
                return g, 1
    return None


def _fresh_literal(e: ast.AST) -> bool:
    """an initial value that does not depend on anything: a constant, an empty container"""
    if isinstance(e, ast.Constant):
        return True
    if isinstance(e, (ast.List, ast.Tuple, ast.Set)) and not e.elts:
        return True
    if isinstance(e, ast.Dict) and not e.keys:
        return True
    return isinstance(e, ast.Call) and isinstance(e.func, ast.Name) and e.func.id in ("list", "dict", "set", "tuple") and not e.args and not e.keywords


def _record_layout(ci) -> Optional[List[Tuple[str, object]]]:
    """[(field, source)] of a private record-like class: source is the index of the constructor argument stored in the
    field, or the literal the field starts with.  A dataclass-style body of annotated names (no __init__), or an
    __init__ that only stores parameters and fresh literals in attributes."""
    if any(k in ci.methods for k in ("__post_init__", "__new__", "__setattr__", "__getattr__", "__getattribute__")):
        return None
    init = ci.methods.get("__init__")
    if init is None:
        if not any(ast.unparse(d).split("(")[0].split(".")[-1] == "dataclass" for d in ci.node.decorator_list) and not any(b.split(".")[-1] == "NamedTuple" for b in ci.base_names):
            return None
        out: List[Tuple[str, object]] = []
        for st in ci.node.body:
            if isinstance(st, ast.AnnAssign) and isinstance(st.target, ast.Name):
                if st.value is not None:
                    return None  # defaults: not modelled
                out.append((st.target.id, len(out)))
        return out or None
    ps = init.pos_params[1:]
    a = init.node.args
    if a.vararg or a.kwarg or a.kwonlyargs or a.defaults:
        return None
    body = [st for st in init.node.body if not (isinstance(st, ast.Expr) and isinstance(st.value, ast.Constant))]
    out = []
    used = set()
    for st in body:
        if not (isinstance(st, ast.Assign) and len(st.targets) == 1 and isinstance(st.targets[0], ast.Attribute) and isinstance(st.targets[0].value, ast.Name) and st.targets[0].value.id == init.pos_params[0]):
            return None
        f_ = st.targets[0].attr
        if f_ in [x[0] for x in out]:
            return None
        if isinstance(st.value, ast.Name) and st.value.id in ps and st.value.id not in used:
            used.add(st.value.id)
            out.append((f_, ps.index(st.value.id)))  # self._x = x: the field that holds parameter x
        elif _fresh_literal(st.value):
            out.append((f_, st.value))
        else:
            return None
    return out if used == set(ps) and out else None


def _ctor_params(ci) -> Optional[List[str]]:
    init = ci.methods.get("__init__")
    if init is not None:
        return init.pos_params[1:]
    lay = _record_layout(ci)
    return [f for f, _s in lay] if lay is not None else None


def _record_field_names(ci) -> Optional[List[str]]:
    lay = _record_layout(ci)
    return [f for f, _s in lay] if lay is not None else None


def _local_record_class(model: Model, fi: FuncInfo, name: str):
    from .model import ClassInfo

    if name in fi.params or isinstance(fi.node, ast.Lambda):
        return None
    roots = _CUR_BODY if _CUR_BODY is not None else [fi.node]  # the statements as they stand now (helpers already in place)
    defs = [n for r_ in roots for n in ast.walk(r_) if isinstance(n, ast.Name) and n.id == name and isinstance(n.ctx, (ast.Store, ast.Del))]
    if len(defs) != 1:
        return None
    asg = [n for r_ in roots for n in ast.walk(r_) if isinstance(n, ast.Assign) and len(n.targets) == 1 and n.targets[0] is defs[0]]
    if len(asg) != 1 or not isinstance(asg[0].value, ast.Call) or not isinstance(asg[0].value.func, ast.Name):
        return None
    tgt = model.lookup_target(model.resolve_dotted(fi.module, fi, asg[0].value.func.id))
    if not isinstance(tgt, ClassInfo) or not tgt.name.startswith("_") or tgt.name.startswith("__") or model.is_visitor(tgt) or not all(b.split(".")[-1] in ("NamedTuple", "object") for b in tgt.base_names):
        return None
    if _record_field_names(tgt) is None:
        return None
    return tgt


def _expand_record_properties(body: List[ast.stmt], classes: Dict[str, object]) -> Tuple[List[ast.stmt], bool]:
    n_done = 0

    class _P(ast.NodeTransformer):
        def visit_Attribute(self, n: ast.Attribute):
            nonlocal n_done
            self.generic_visit(n)
            if isinstance(n.ctx, ast.Load) and isinstance(n.value, ast.Name) and n.value.id in classes:
                ci = classes[n.value.id]
                g = ci.methods.get(n.attr)  # type: ignore
                if g is not None and g.decorators == ["property"] and len(g.pos_params) == 1:
                    b = [st for st in g.node.body if not (isinstance(st, ast.Expr) and isinstance(st.value, ast.Constant))]
                    if len(b) == 1 and isinstance(b[0], ast.Return) and b[0].value is not None and not any(isinstance(y, (ast.Lambda, ast.NamedExpr, ast.Await, ast.Yield)) for y in ast.walk(b[0].value)):
                        # names of the property body other than self must mean the same here: comprehension variables only
                        bound = {y.id for y in ast.walk(b[0].value) if isinstance(y, ast.Name) and isinstance(y.ctx, ast.Store)}
                        free = {y.id for y in ast.walk(b[0].value) if isinstance(y, ast.Name) and isinstance(y.ctx, ast.Load)} - bound - {g.pos_params[0]}
                        import builtins as _b

                        if all(hasattr(_b, f_) for f_ in free):
                            n_done += 1
                            return ast.copy_location(_Sub({g.pos_params[0]: ast.Name(id=n.value.id, ctx=ast.Load())}).visit(clone_ast(b[0].value)), n)
            return n

    out = []
    for st in body:
        if any(isinstance(n, ast.Name) and n.id in classes for n in ast.walk(st)):
            before = n_done
            st2 = _P().visit(clone_ast(st))
            if n_done != before:
                ast.fix_missing_locations(st2)
                st2._fresh = True  # type: ignore
                out.append(st2)
                continue
        out.append(st)
    return out, n_done > 0


def _split_records(model: Model, fi: FuncInfo, body: List[ast.stmt]) -> Tuple[List[ast.stmt], bool]:
    """x = _Rec(a, b) where x is a local that is only ever read or written field by field (x.f): one local per field.
    The object cannot be observed as a whole, so its fields are variables of the function."""
    global _CUR_BODY
    changed = False
    cands: Dict[str, Tuple[ast.Assign, List[str]]] = {}
    layouts: Dict[str, List[Tuple[str, object]]] = {}
    classes: Dict[str, object] = {}
    _CUR_BODY = body
    try:
        for st in body:
            for n in ast.walk(st):
                if isinstance(n, ast.Assign) and len(n.targets) == 1 and isinstance(n.targets[0], ast.Name) and isinstance(n.value, ast.Call) and isinstance(n.value.func, ast.Name):
                    ci = _local_record_class(model, fi, n.targets[0].id)
                    if ci is not None:
                        cands[n.targets[0].id] = (n, _record_field_names(ci))  # type: ignore
                        layouts[n.targets[0].id] = _record_layout(ci)
                        classes[n.targets[0].id] = ci
    finally:
        _CUR_BODY = None
    for st in []:
        for n in ast.walk(st):
            if isinstance(n, ast.Assign) and len(n.targets) == 1 and isinstance(n.targets[0], ast.Name) and isinstance(n.value, ast.Call) and isinstance(n.value.func, ast.Name):
                ci = _local_record_class(model, fi, n.targets[0].id)
                if ci is not None and ci.name == n.value.func.id.split(".")[-1] or (ci is not None):
                    cands[n.targets[0].id] = (n, _record_field_names(ci))  # type: ignore
                    layouts[n.targets[0].id] = _record_layout(ci)
                    classes[n.targets[0].id] = ci
    if not cands:
        return body, False
    # reads of properties whose body is one `return <expression over self>`: that expression, about the object
    body, ch_p = _expand_record_properties(body, classes)
    changed = changed or ch_p
    if ch_p:
        for x_ in list(cands):
            asg_new = [n for st in body for n in ast.walk(st) if isinstance(n, ast.Assign) and len(n.targets) == 1 and isinstance(n.targets[0], ast.Name) and n.targets[0].id == x_ and isinstance(n.value, ast.Call)]
            if len(asg_new) != 1:
                del cands[x_]
            else:
                cands[x_] = (asg_new[0], cands[x_][1])
    if not cands:
        return body, changed

    # parents inside the (partly synthetic) body
    par: Dict[int, ast.AST] = {}
    for st in body:
        for n in ast.walk(st):
            for c in ast.iter_child_nodes(n):
                par[id(c)] = n
    all_names = {n.id for st in body for n in ast.walk(st) if isinstance(n, ast.Name)} | set(fi.params)
    for x, (asg, fields) in list(cands.items()):
        ok = True
        call = asg.value
        n_params = sum(1 for _f, src in layouts[x] if isinstance(src, int))
        pn = _ctor_params(classes[x])
        if any(isinstance(a, ast.Starred) for a in call.args) or pn is None or any(k.arg is None or k.arg not in pn[len(call.args):] for k in call.keywords) or len(call.args) + len(call.keywords) != n_params or len({k.arg for k in call.keywords}) != len(call.keywords):
            ok = False
        n_store = 0
        for st in body:
            for n in ast.walk(st):
                if isinstance(n, ast.Name) and n.id == x:
                    if n is asg.targets[0]:
                        n_store += 1
                        continue
                    p_ = par.get(id(n))
                    if not (isinstance(p_, ast.Attribute) and p_.value is n and p_.attr in fields):
                        ok = False
                        continue
                    gp = par.get(id(p_))
                    if isinstance(gp, ast.Call) and gp.func is p_:
                        ok = False
        if n_store != 1 or any(f"{x}__{f_}" in all_names for f_ in fields):
            ok = False
        if not ok:
            del cands[x]
    if not cands:
        return body, changed

    class _S(ast.NodeTransformer):
        def visit_Attribute(self, n: ast.Attribute):
            if isinstance(n.value, ast.Name) and n.value.id in cands and n.attr in cands[n.value.id][1]:
                return ast.copy_location(ast.Name(id=f"{n.value.id}__{n.attr}", ctx=n.ctx), n)
            return self.generic_visit(n)

        def visit_Assign(self, n: ast.Assign):
            if len(n.targets) == 1 and isinstance(n.targets[0], ast.Name) and n.targets[0].id in cands and isinstance(n.value, ast.Call):
                x_ = n.targets[0].id
                fields_ = cands[x_][1]
                vals: Dict[str, ast.AST] = {}
                pn_ = _ctor_params(classes[x_]) or []
                actual = list(n.value.args) + [next(k.value for k in n.value.keywords if k.arg == p_) for p_ in pn_[len(n.value.args):]]
                for f_, src in layouts[x_]:
                    vals[f_] = actual[src] if isinstance(src, int) else clone_ast(src)  # type: ignore
                tgt = ast.Tuple(elts=[ast.Name(id=f"{x_}__{f_}", ctx=ast.Store()) for f_ in fields_], ctx=ast.Store())
                val = ast.Tuple(elts=[self.visit(vals[f_]) for f_ in fields_], ctx=ast.Load())
                if len(fields_) == 1:
                    new = ast.Assign(targets=[tgt.elts[0]], value=val.elts[0], type_comment=None)
                else:
                    # evaluated left to right like the constructor's arguments, bound together
                    new = ast.Assign(targets=[tgt], value=val, type_comment=None)
                ast.copy_location(new, n)
                ast.fix_missing_locations(new)
                return new
            return self.generic_visit(n)

    out = []
    for st in body:
        if any(isinstance(n, ast.Name) and n.id in cands for n in ast.walk(st)):
            st2 = _S().visit(clone_ast(st))
            ast.fix_missing_locations(st2)
            st2._fresh = True  # type: ignore
            out.append(st2)
            changed = True
        else:
            out.append(st)
    return out, changed


def _finder_shape(h: FuncInfo, skip: int):
    """(subject param, table param, key var, value var, test expr, value kind) if h is a first-match finder"""
    body = [s for s in h.node.body if not (isinstance(s, ast.Expr) and isinstance(s.value, ast.Constant))]
    if not body or not isinstance(body[0], ast.For) or body[0].orelse:
        return None
    rest = body[1:]
    if rest and not (len(rest) == 1 and isinstance(rest[0], ast.Return) and (rest[0].value is None or (isinstance(rest[0].value, ast.Constant) and rest[0].value.value is None))):
        return None
    lp = body[0]
    if not (isinstance(lp.target, ast.Tuple) and len(lp.target.elts) == 2 and all(isinstance(e, ast.Name) for e in lp.target.elts)):
        return None
    kv, vv = lp.target.elts[0].id, lp.target.elts[1].id  # type: ignore
    it = lp.iter
    items = False
    if isinstance(it, ast.Call) and isinstance(it.func, ast.Attribute) and it.func.attr == "items" and not it.args and isinstance(it.func.value, ast.Name):
        tparam, items = it.func.value.id, True
    elif isinstance(it, ast.Name):
        tparam = it.id
    else:
        return None
    params = h.pos_params[skip:]
    if tparam not in params:
        return None
    if len(lp.body) != 1 or not isinstance(lp.body[0], ast.If) or lp.body[0].orelse:
        return None
    br = lp.body[0]
    if len(br.body) != 1 or not isinstance(br.body[0], ast.Return) or br.body[0].value is None:
        return None
    rv = br.body[0].value
    if isinstance(rv, ast.Name) and rv.id == vv:
        kind = "value"
    elif isinstance(rv, ast.Call) and isinstance(rv.func, ast.Name) and rv.func.id == "getattr" and len(rv.args) == 2 and isinstance(rv.args[0], ast.Name) and skip == 1 and rv.args[0].id == h.pos_params[0] and isinstance(rv.args[1], ast.Name) and rv.args[1].id == vv:
        kind = "method"
    else:
        return None
    # the test may mention the key variable, the other parameters and globals; not the value variable
    names = {x.id for x in ast.walk(br.test) if isinstance(x, ast.Name)}
    if vv in names or kv not in names:
        return None
    stores = [x for x in own_nodes(h) if isinstance(x, ast.Name) and isinstance(x.ctx, ast.Store)]
    if {x.id for x in stores} != {kv, vv}:
        return None
    return tparam, items, kv, vv, br.test, kind


def _literal_table(model: Model, fi: FuncInfo, e: ast.AST, items: bool) -> Optional[List[Tuple[ast.AST, ast.AST]]]:
    """[(constant key, value expression)] in literal order"""
    if isinstance(e, ast.Attribute) and isinstance(e.value, ast.Name) and fi.cls is not None and fi.pos_params and e.value.id == fi.pos_params[0]:
        # a class-level literal read through self, that nothing in the package writes
        lit = fi.cls.class_assigns.get(e.attr)
        if lit is None:
            return None
        for f in model.funcs.values():
            for n in own_nodes(f):
                if isinstance(n, ast.Attribute) and n.attr == e.attr and isinstance(n.ctx, (ast.Store, ast.Del)):
                    return None
        e = lit
        if not all(isinstance(v, ast.Constant) for v in (e.values if isinstance(e, ast.Dict) else [x for p in getattr(e, "elts", []) if isinstance(p, (ast.Tuple, ast.List)) for x in p.elts])):
            return None
    if isinstance(e, ast.Name):
        # a module-level literal that nothing in the package writes
        lit = fi.module.assigns.get(e.id)
        if lit is None or e.id in fi.params:
            return None
        for f in model.funcs.values():
            for n in own_nodes(f):
                if isinstance(n, ast.Name) and n.id == e.id and isinstance(n.ctx, (ast.Store, ast.Del)) and f.module is fi.module:
                    return None
                if isinstance(n, ast.Global) and e.id in n.names:
                    return None
        e = lit
        if not all(isinstance(v, ast.Constant) for v in (e.values if isinstance(e, ast.Dict) else [x for p in getattr(e, "elts", []) if isinstance(p, (ast.Tuple, ast.List)) for x in p.elts])):
            return None
    if isinstance(e, ast.Dict):
        if not items or not e.keys or any(k is None or not isinstance(k, ast.Constant) for k in e.keys):
            return None
        if len({repr(k.value) for k in e.keys}) != len(e.keys):  # type: ignore
            return None
        return list(zip(e.keys, e.values))  # type: ignore
    if isinstance(e, (ast.Tuple, ast.List)) and not items:
        out = []
        for p in e.elts:
            if not (isinstance(p, (ast.Tuple, ast.List)) and len(p.elts) == 2 and isinstance(p.elts[0], ast.Constant)):
                return None
            out.append((p.elts[0], p.elts[1]))
        return out or None
    return None


class _Sub(ast.NodeTransformer):
    def __init__(self, mapping: Dict[str, ast.AST]):
        self.mapping = mapping

    def visit_Name(self, node: ast.Name):
        if isinstance(node.ctx, ast.Load) and node.id in self.mapping:
            return clone_ast(self.mapping[node.id])
        return node

    def visit_Call(self, node: ast.Call):
        self.generic_visit(node)
        # getattr(x, "name") with a (now) constant identifier is x.name
        if isinstance(node.func, ast.Name) and node.func.id == "getattr" and len(node.args) == 2 and not node.keywords and isinstance(node.args[1], ast.Constant) and isinstance(node.args[1].value, str) and node.args[1].value.isidentifier():
            return ast.Attribute(value=node.args[0], attr=node.args[1].value, ctx=ast.Load())
        return node

    def visit_Subscript(self, node: ast.Subscript):
        self.generic_visit(node)
        # (a, b, c)[1] with a (now) literal tuple of plain expressions is b
        if isinstance(node.ctx, ast.Load) and isinstance(node.value, (ast.Tuple, ast.List)) and isinstance(node.slice, ast.Constant) and type(node.slice.value) is int and all(_pure(e) for e in node.value.elts) and -len(node.value.elts) <= node.slice.value < len(node.value.elts):
            return node.value.elts[node.slice.value]
        return node


_KEEP: frozenset = frozenset()
_HOIST_TESTS = False
_COMP_LOOPS = False
_CUR_BODY: Optional[List[ast.stmt]] = None
_TABLE_BODY: Optional[List[ast.stmt]] = None
_VIEW_DEPTH = 0


def unrolled(model: Model, fi: FuncInfo, keep: frozenset = frozenset(), hoist_tests: bool = False, comp_loops: bool = False) -> FuncInfo:
    """keep: names of helpers that stay calls (a rule that reasons about the call of a named helper asks for that);
    hoist_tests: a private helper called in the test of an `if` is read in place too (t = h(..); if t: ..) - for rules
    that follow what the helper does, not the name of the predicate"""
    global _KEEP, _HOIST_TESTS, _COMP_LOOPS
    cache = model.__dict__.setdefault("_unrolled_cache", {})
    k = (fi.qual, keep, hoist_tests, comp_loops)
    if k in cache:
        return cache[k]
    old, _KEEP = _KEEP, keep
    old_h, _HOIST_TESTS = _HOIST_TESTS, hoist_tests
    old_c, _COMP_LOOPS = _COMP_LOOPS, comp_loops
    try:
        out = _unroll(model, fi)
    finally:
        _KEEP = old
        _HOIST_TESTS = old_h
        _COMP_LOOPS = old_c
    cache[k] = out
    return out


class _TableCalls(ast.NodeTransformer):
    """TABLE["key"](args) with TABLE a module-level literal dict that nothing writes and "key" a constant: the call of
    the function that entry names (also TABLE.get("key")(..))"""

    def __init__(self, model: Model, fi: FuncInfo):
        self.model, self.fi, self.n = model, fi, 0

    def visit_Call(self, node: ast.Call):
        self.generic_visit(node)
        f = node.func
        key = tbl = None
        if isinstance(f, ast.Subscript) and isinstance(f.value, ast.Name) and isinstance(f.slice, ast.Constant):
            tbl, key = f.value, f.slice
        elif isinstance(f, ast.Call) and isinstance(f.func, ast.Attribute) and f.func.attr == "get" and isinstance(f.func.value, ast.Name) and len(f.args) == 1 and isinstance(f.args[0], ast.Constant) and not f.keywords:
            tbl, key = f.func.value, f.args[0]
        if tbl is None:
            return node
        lit = self.fi.module.assigns.get(tbl.id)
        if not isinstance(lit, ast.Dict) or tbl.id in self.fi.params:
            return node
        for g in self.model.funcs.values():
            if g.module is not self.fi.module:
                continue
            for n in own_nodes(g):
                if (isinstance(n, ast.Name) and n.id == tbl.id and isinstance(n.ctx, (ast.Store, ast.Del))) or (isinstance(n, ast.Global) and tbl.id in n.names):
                    return node
                if isinstance(n, ast.Subscript) and isinstance(n.ctx, (ast.Store, ast.Del)) and isinstance(n.value, ast.Name) and n.value.id == tbl.id:
                    return node
                if isinstance(n, ast.Call) and isinstance(n.func, ast.Attribute) and isinstance(n.func.value, ast.Name) and n.func.value.id == tbl.id and n.func.attr in ("update", "setdefault", "pop", "clear", "popitem", "__setitem__"):
                    return node
        vals = [v for k, v in zip(lit.keys, lit.values) if isinstance(k, ast.Constant) and k.value == key.value and type(k.value) is type(key.value)]
        if len(vals) != 1 or not isinstance(vals[0], ast.Name) or not all(isinstance(k, ast.Constant) for k in lit.keys):
            return node
        self.n += 1
        new = ast.copy_location(ast.Call(func=ast.copy_location(ast.Name(id=vals[0].id, ctx=ast.Load()), f), args=node.args, keywords=node.keywords), node)
        return new


def _inline_returned_helpers(model: Model, fi: FuncInfo, body: List[ast.stmt]) -> Tuple[List[ast.stmt], bool]:
    """every `return self._h(..)` statement of the body - at any nesting depth, it is a tail position wherever it
    stands - replaced by the statements of the private, single-use helper _h"""
    global _CUR_BODY
    all_names = {x.id for st in body for x in ast.walk(st) if isinstance(x, ast.Name)} | set(fi.pos_params)
    changed = False
    _CUR_BODY = body

    def hoist(stmts: List[ast.stmt]) -> List[ast.stmt]:
        """a call of an inlinable private helper that is the first thing a statement evaluates (everything evaluated
        before it is a plain name, constant or attribute read) moves in front of the statement: t = h(..); <statement
        with t>.  `x = h(..)`, `return h(..)` and `h(..)` themselves are the forms the inliner reads, and stay."""
        out: List[ast.stmt] = []
        for st in stmts:
            cur = st
            for _ in range(4):
                if isinstance(cur, ast.Return) and _classified_dispatch(model, fi, cur, set(all_names)) is not None:
                    break  # read as a whole by the inliner
                if isinstance(cur, (ast.Return, ast.Expr, ast.Assign, ast.AugAssign)):
                    holder, fld = cur, "value"
                elif isinstance(cur, ast.If) and _HOIST_TESTS:
                    holder, fld = cur, "test"
                else:
                    break  # (tests of if statements keep their predicate calls: rules read those as guards)
                e = getattr(holder, fld)
                if e is None:
                    break
                first = next(_eval_order(e), None)
                plain_target = isinstance(cur, ast.Assign) and len(cur.targets) == 1 and (isinstance(cur.targets[0], ast.Name) or (isinstance(cur.targets[0], ast.Tuple) and all(isinstance(x_, ast.Name) for x_ in cur.targets[0].elts)))
                if not isinstance(first, ast.Call) or (first is e and not isinstance(cur, ast.If) and not (isinstance(cur, ast.Assign) and not plain_target)):
                    break  # (obj.attr = h(..) is hoisted too: the right-hand side is evaluated before the target)
                got = _resolve_helper(model, fi, first)
                if got is None or not got[0].is_private or got[0] is fi or got[0].name in _KEEP or isinstance(got[0].node, ast.Lambda):
                    break
                if not any(isinstance(r_, ast.Return) and r_.value is not None for r_ in ast.walk(got[0].node)):
                    break
                k = 0
                tmp = "result_h"
                while tmp in all_names:
                    k += 1
                    tmp = f"result_h{k}"
                all_names.add(tmp)
                a_ = _fresh(ast.copy_location(ast.Assign(targets=[ast.Name(id=tmp, ctx=ast.Store())], value=first, type_comment=None), st))
                ast.fix_missing_locations(a_)

                # the statement's expression is rebuilt (never changed in place: it belongs to the function's own tree)
                e2 = clone_ast(e)
                twin = next((y for x, y in zip(ast.walk(e), ast.walk(e2)) if x is first), None)
                if twin is None:
                    break

                class _Rep(ast.NodeTransformer):
                    def visit(self, n):
                        if n is twin:
                            return ast.copy_location(ast.Name(id=tmp, ctx=ast.Load()), first)
                        return self.generic_visit(n)

                new = copy.copy(cur)
                setattr(new, fld, _Rep().visit(e2))
                _fresh(new)
                out.append(a_)
                cur = new
            out.append(cur)
        return out

    def block(stmts: List[ast.stmt]) -> List[ast.stmt]:
        nonlocal changed
        out: List[ast.stmt] = []
        skip_next = False
        stmts = hoist(stmts)
        # x = h(..); if x is None: <leave>; return E(x)   is   x = h(..); if x is not None: return E(x); <leave>
        for j_ in range(len(stmts) - 1):
            a_, g_, r_ = stmts[j_], stmts[j_ + 1], stmts[j_ + 2:]
            if isinstance(g_, ast.If) and g_.orelse and not r_ and _terminates(list(g_.body)):
                # (the tail was already moved into the else branch)
                g2_ = copy.copy(g_)
                r_ = list(g_.orelse)
                g2_.orelse = []
                g_ = g2_
            if isinstance(a_, ast.Assign) and len(a_.targets) == 1 and isinstance(a_.targets[0], ast.Name) and isinstance(a_.value, ast.Call) and isinstance(g_, ast.If) and not g_.orelse and _terminates(list(g_.body)) and len(r_) == 1 and isinstance(r_[0], ast.Return) and r_[0].value is not None:
                t_ = g_.test
                if isinstance(t_, ast.Compare) and len(t_.ops) == 1 and isinstance(t_.ops[0], ast.Is) and isinstance(t_.left, ast.Name) and t_.left.id == a_.targets[0].id and _is_none(t_.comparators[0]):
                    pos = ast.copy_location(ast.If(test=ast.Compare(left=ast.Name(id=t_.left.id, ctx=ast.Load()), ops=[ast.IsNot()], comparators=[ast.Constant(value=None)]), body=[r_[0]], orelse=[]), g_)
                    ast.fix_missing_locations(pos)
                    _fresh(pos)
                    stmts = list(stmts[:j_ + 1]) + [pos] + list(g_.body)
                    break
        for i_, st in enumerate(stmts):
            if skip_next:
                skip_next = False
                continue
            nxt_ = stmts[i_ + 1] if i_ + 1 < len(stmts) else None
            if _is_first_non_none_pair(st, nxt_):
                # x = self._h(..); if x is not None: return x   with _h a private helper answering None for "not mine"
                pseudo = ast.copy_location(ast.Return(value=st.value), st)
                rep = _tail_helper_body(model, fi, [pseudo], all_names)
                rep2 = _optional_conv(rep, st.targets[0].id, st, nxt_.body[0]) if rep is not None else None
                if rep2 is not None:
                    out.extend(rep2)
                    changed = True
                    skip_next = True
                    continue
            if isinstance(st, ast.Return):
                rep = _classified_dispatch(model, fi, st, all_names)
                if rep is not None:
                    out.extend(block(rep))
                    changed = True
                    continue
                rep = _tail_helper_body(model, fi, [st], all_names)
                if rep is not None:
                    out.extend(rep)
                    changed = True
                    continue
            if isinstance(st, ast.Assign) and len(st.targets) == 1 and (isinstance(st.targets[0], ast.Name) or (isinstance(st.targets[0], ast.Tuple) and all(isinstance(e_, ast.Name) for e_ in st.targets[0].elts))) and isinstance(st.value, ast.Call):
                # x = self._h(..) where _h is `checks..; return e` (one return, the last statement): the checks, then x = e
                pseudo = ast.copy_location(ast.Return(value=st.value), st)
                rep = _tail_helper_body(model, fi, [pseudo], all_names, assign_to=st.targets[0])
                if rep is not None:
                    out.extend(rep)
                    changed = True
                    continue
            if isinstance(st, ast.Expr) and isinstance(st.value, ast.Call):
                # a statement that calls a private single-use *procedure* (no return in it): its statements, here
                pseudo = ast.copy_location(ast.Return(value=st.value), st)
                rep = _tail_helper_body(model, fi, [pseudo], all_names, procedure=True)
                if rep is not None:
                    out.extend(rep)
                    changed = True
                    continue
            if isinstance(st, (ast.If, ast.For, ast.While, ast.With, ast.Try)) and any((isinstance(x, ast.Return) and isinstance(x.value, ast.Call)) or (isinstance(x, ast.Expr) and isinstance(x.value, ast.Call)) or (isinstance(x, ast.Assign) and isinstance(x.value, ast.Call)) for x in ast.walk(st)):
                st2 = copy.copy(st)
                for fld in ("body", "orelse", "finalbody"):
                    if isinstance(getattr(st2, fld, None), list):
                        setattr(st2, fld, block(getattr(st2, fld)))
                if isinstance(st2, ast.Try):
                    hs = []
                    for h_ in st2.handlers:
                        h2 = copy.copy(h_)
                        h2.body = block(h_.body)
                        hs.append(h2)
                    st2.handlers = hs
                out.append(st2)
                continue
            out.append(st)
        return out

    try:
        new = block(body)
    finally:
        _CUR_BODY = None
    return new, changed


class _Opaque:
    pass


def _eval_order(e: ast.AST):
    """the calls of an expression in the order python evaluates them (arguments before the call that takes them);
    anything evaluated conditionally, lazily or in an order not modelled here yields an opaque marker instead"""
    if isinstance(e, (ast.Name, ast.Constant)):
        return
    if isinstance(e, ast.Attribute):
        yield from _eval_order(e.value)
    elif isinstance(e, ast.Subscript):
        yield from _eval_order(e.value)
        yield from _eval_order(e.slice)
    elif isinstance(e, ast.Call):
        yield from _eval_order(e.func)
        for a in e.args:
            yield from _eval_order(a)
        for k in e.keywords:
            yield from _eval_order(k.value)
        yield e
    elif isinstance(e, (ast.Tuple, ast.List, ast.Set)):
        for x in e.elts:
            yield from _eval_order(x)
    elif isinstance(e, ast.BinOp):
        yield from _eval_order(e.left)
        yield from _eval_order(e.right)
    elif isinstance(e, ast.UnaryOp):
        yield from _eval_order(e.operand)
    elif isinstance(e, ast.Compare) and len(e.ops) == 1:
        yield from _eval_order(e.left)
        yield from _eval_order(e.comparators[0])
    elif isinstance(e, ast.Starred):
        yield from _eval_order(e.value)
    elif isinstance(e, ast.JoinedStr):
        for v in e.values:
            yield from _eval_order(v)
    elif isinstance(e, ast.FormattedValue):
        yield from _eval_order(e.value)
    else:
        yield _Opaque()


def _table_entry(model: Model, fi: FuncInfo, e: ast.AST) -> ast.AST:
    """TABLE["key"] with TABLE a module-level literal dict that nothing writes and whose entry for that constant key is a
    plain expression or a tuple of plain expressions: that entry"""
    if not (isinstance(e, ast.Subscript) and isinstance(e.value, ast.Name) and isinstance(e.slice, ast.Constant) and e.value.id not in fi.params):
        return e
    lit = fi.module.assigns.get(e.value.id)
    if not isinstance(lit, ast.Dict) or not all(isinstance(k, ast.Constant) for k in lit.keys):
        return e
    for g in model.funcs.values():
        if g.module is not fi.module:
            continue
        for n in own_nodes(g):
            if (isinstance(n, ast.Name) and n.id == e.value.id and isinstance(n.ctx, (ast.Store, ast.Del))) or (isinstance(n, ast.Global) and e.value.id in n.names):
                return e
            if isinstance(n, ast.Subscript) and isinstance(n.ctx, (ast.Store, ast.Del)) and isinstance(n.value, ast.Name) and n.value.id == e.value.id:
                return e
            if isinstance(n, ast.Call) and isinstance(n.func, ast.Attribute) and isinstance(n.func.value, ast.Name) and n.func.value.id == e.value.id and n.func.attr in ("update", "setdefault", "pop", "clear", "popitem", "__setitem__"):
                return e
    vals = [v for k, v in zip(lit.keys, lit.values) if k.value == e.slice.value and type(k.value) is type(e.slice.value)]
    if len(vals) != 1:
        return e
    v = vals[0]
    if _pure(v) or (isinstance(v, (ast.Tuple, ast.List)) and all(_pure(x) for x in v.elts)):
        return clone_ast(v)
    return e


def _unroll_literal_loop(st: ast.stmt, literal: Optional[ast.AST] = None) -> List[ast.stmt]:
    """for v in (a, b): body   /   for k, v in ((k1, v1), (k2, v2)): body   with a literal tuple of plain names,
    constants and attribute reads, loop variables the body does not re-bind, no break / continue / else:
    body[v:=a]; body[v:=b].  `literal` stands for the iterable when that is a local name bound once to a literal."""
    if not (isinstance(st, ast.For) and not st.orelse):
        return [st]
    it = literal if literal is not None else st.iter
    if not isinstance(it, (ast.Tuple, ast.List)) or not it.elts:
        return [st]
    if isinstance(st.target, ast.Name):
        names = [st.target.id]
        rows = [[e] for e in it.elts]
    elif isinstance(st.target, (ast.Tuple, ast.List)) and all(isinstance(e, ast.Name) for e in st.target.elts):
        names = [e.id for e in st.target.elts]
        if not all(isinstance(r, (ast.Tuple, ast.List)) and len(r.elts) == len(names) for r in it.elts):
            return [st]
        rows = [list(r.elts) for r in it.elts]
    else:
        return [st]
    if not all(_pure(e) for r in rows for e in r):
        return [st]
    for x in ast.walk(st):
        if isinstance(x, (ast.Break, ast.Continue, ast.Return, ast.Yield, ast.YieldFrom, ast.Lambda, ast.FunctionDef)):
            return [st]
        if isinstance(x, ast.Name) and x.id in names and isinstance(x.ctx, (ast.Store, ast.Del)) and not any(x is t_ for t_ in ast.walk(st.target)):
            return [st]
    out: List[ast.stmt] = []
    for r in rows:
        for b in st.body:
            nb = _Sub(dict(zip(names, r))).visit(clone_ast(b))
            ast.fix_missing_locations(nb)
            nb._fresh = True  # type: ignore
            out.append(nb)
    return out


def _comps_to_loops(fi: FuncInfo, body: List[ast.stmt]) -> Tuple[List[ast.stmt], bool]:
    """x = {k: v for k, v in it if c}  ->  x = {}; for k, v in it: if c: x[k] = v   (and the list form with append), for
    a plain local x at statement level and one generator whose variables are used nowhere else in the function - what a
    rule that reads a per-item loop asks for (`comp_loops=True`)"""
    changed = False
    def _names(o, hide=frozenset()):
        # names used in o; a nested def's own parameters are other variables than same-named ones outside it
        if isinstance(o, (ast.FunctionDef, ast.AsyncFunctionDef, ast.Lambda)):
            own = {a_.arg for a_ in ast.walk(o.args) if isinstance(a_, ast.arg)}
            inner = set()
            for ch in (o.body if isinstance(o.body, list) else [o.body]):
                inner |= _names(ch)
            return (inner - own) | {n.id for d_ in getattr(o, "decorator_list", []) for n in ast.walk(d_) if isinstance(n, ast.Name)}
        out_ = {o.id} if isinstance(o, ast.Name) else set()
        for ch in ast.iter_child_nodes(o):
            out_ |= _names(ch)
        return out_

    names_elsewhere = lambda st_: set().union(*[_names(o) for o in body if o is not st_]) | set(fi.params) if len(body) > 1 else set(fi.params)  # noqa: E731
    out: List[ast.stmt] = []
    for st in body:
        v = st.value if isinstance(st, ast.Assign) and len(st.targets) == 1 and isinstance(st.targets[0], ast.Name) else None
        if isinstance(v, (ast.DictComp, ast.ListComp)) and len(v.generators) == 1 and not v.generators[0].is_async:
            g = v.generators[0]
            tn = {n.id for n in ast.walk(g.target) if isinstance(n, ast.Name)}
            x = st.targets[0].id
            if tn and not (tn & names_elsewhere(st)) and x not in tn and not any(isinstance(n, ast.Name) and n.id == x for n in ast.walk(v)) and not any(isinstance(n, (ast.Lambda, ast.NamedExpr, ast.Yield, ast.Await)) for n in ast.walk(v)):
                init = ast.Assign(targets=[ast.Name(id=x, ctx=ast.Store())], value=(ast.Dict(keys=[], values=[]) if isinstance(v, ast.DictComp) else ast.List(elts=[], ctx=ast.Load())), type_comment=None)
                if isinstance(v, ast.DictComp):
                    store: ast.stmt = ast.Assign(targets=[ast.Subscript(value=ast.Name(id=x, ctx=ast.Load()), slice=clone_ast(v.key), ctx=ast.Store())], value=clone_ast(v.value), type_comment=None)
                else:
                    store = ast.Expr(value=ast.Call(func=ast.Attribute(value=ast.Name(id=x, ctx=ast.Load()), attr="append", ctx=ast.Load()), args=[clone_ast(v.elt)], keywords=[]))
                inner: List[ast.stmt] = [store]
                for c in reversed(g.ifs):
                    inner = [ast.If(test=clone_ast(c), body=inner, orelse=[])]
                loop = ast.For(target=clone_ast(g.target), iter=clone_ast(g.iter), body=inner, orelse=[], type_comment=None)
                for n_ in (init, loop):
                    ast.copy_location(n_, st)
                    ast.fix_missing_locations(n_)
                    n_._fresh = True  # type: ignore
                for n_ in ast.walk(loop):
                    if isinstance(n_, ast.Name) and n_.id in tn and any(n_ is y for y in ast.walk(loop.target)):
                        n_.ctx = ast.Store()
                out += [init, loop]
                changed = True
                continue
        out.append(st)
    return out, changed


def _unroll_local_tables(fi: FuncInfo, body: List[ast.stmt]) -> Tuple[List[ast.stmt], bool]:
    """t = ((k1, v1), (k2, v2)); for k, v in t: body   (t a local bound once to a literal of plain expressions and read
    only by that loop; the loop variables dead afterwards): the loop body once per row, in order"""
    changed = False
    out: List[ast.stmt] = []
    all_nodes = [n for st in body for n in ast.walk(st)]
    for i, st in enumerate(body):
        if isinstance(st, ast.For) and not st.orelse:
            lit = None
            if isinstance(st.iter, (ast.Tuple, ast.List)):
                lit = st.iter
            elif isinstance(st.iter, ast.Name) and st.iter.id not in fi.params:
                nm = st.iter.id
                stores = [n for n in all_nodes if isinstance(n, ast.Name) and n.id == nm and isinstance(n.ctx, (ast.Store, ast.Del))]
                loads = [n for n in all_nodes if isinstance(n, ast.Name) and n.id == nm and isinstance(n.ctx, ast.Load)]
                prev = out[-1] if out else None
                if len(stores) == 1 and len(loads) == 1 and isinstance(prev, ast.Assign) and len(prev.targets) == 1 and prev.targets[0] is stores[0] and isinstance(prev.value, (ast.Tuple, ast.List)):
                    # the rows' expressions are evaluated when the table is built, just before the loop: nothing in between
                    lit = prev.value
            if lit is not None:
                tnames = {n.id for n in ast.walk(st.target) if isinstance(n, ast.Name)}
                used_after = any(isinstance(n, ast.Name) and n.id in tnames for later in body[i + 1:] for n in ast.walk(later))
                rep = _unroll_literal_loop(st, lit) if not used_after else [st]
                if not (len(rep) == 1 and rep[0] is st):
                    if lit is not st.iter:
                        out.pop()  # the table itself is no longer read
                    out.extend(rep)
                    changed = True
                    continue
        if isinstance(st, ast.If) and any(isinstance(x_, ast.For) and isinstance(x_.iter, (ast.Tuple, ast.List)) for x_ in ast.walk(st)):
            # the same inside the branches of a conditional (on a copy: the function's own tree is never edited)
            st2 = clone_ast(st)
            ch_any = False
            for fld_ in ("body", "orelse"):
                nb_, ch_ = _unroll_local_tables(fi, getattr(st2, fld_))
                setattr(st2, fld_, nb_)
                ch_any = ch_any or ch_
            if ch_any:
                ast.fix_missing_locations(st2)
                _fresh(st2)
                out.append(st2)
                changed = True
                continue
        out.append(st)
    return out, changed


def _is_none(e) -> bool:
    return e is None or (isinstance(e, ast.Constant) and e.value is None)


def _is_first_non_none_pair(st, nxt, in_loop: bool = False) -> bool:
    if not (isinstance(st, ast.Assign) and len(st.targets) == 1 and isinstance(st.targets[0], ast.Name) and isinstance(st.value, ast.Call)):
        return False
    x = st.targets[0].id
    if not (isinstance(nxt, ast.If) and not nxt.orelse and len(nxt.body) == 1 and isinstance(nxt.body[0], ast.Return) and nxt.body[0].value is not None):
        return False
    if in_loop and not (isinstance(nxt.body[0].value, ast.Name) and nxt.body[0].value.id == x):
        return False
    t = nxt.test
    return isinstance(t, ast.Compare) and len(t.ops) == 1 and isinstance(t.ops[0], ast.IsNot) and isinstance(t.left, ast.Name) and t.left.id == x and _is_none(t.comparators[0])


def _classified_dispatch(model: Model, fi: FuncInfo, st: ast.Return, all_names) -> Optional[List[ast.stmt]]:
    """return getattr(self, "prefix_" + self._kind(x))(args) where _kind is a private helper every return of which is a
    string constant: the helper's statements with `return "k"` replaced by `return self.prefix_k(args)`"""
    v = st.value
    if not (isinstance(v, ast.Call) and isinstance(v.func, ast.Call) and isinstance(v.func.func, ast.Name) and v.func.func.id == "getattr" and len(v.func.args) == 2 and not v.func.keywords):
        return None
    recv, name_e = v.func.args
    if not (isinstance(recv, ast.Name) and fi.pos_params and recv.id == fi.pos_params[0]):
        return None
    prefix = suffix = ""
    inner = None
    if isinstance(name_e, ast.BinOp) and isinstance(name_e.op, ast.Add) and isinstance(name_e.left, ast.Constant) and isinstance(name_e.left.value, str) and isinstance(name_e.right, ast.Call):
        prefix, inner = name_e.left.value, name_e.right
    elif isinstance(name_e, ast.JoinedStr):
        parts = name_e.values
        calls = [p_ for p_ in parts if isinstance(p_, ast.FormattedValue)]
        if len(calls) != 1 or calls[0].format_spec is not None or calls[0].conversion not in (-1, None) or not isinstance(calls[0].value, ast.Call):
            return None
        i = parts.index(calls[0])
        if not all(isinstance(p_, ast.Constant) for p_ in parts[:i] + parts[i + 1:]):
            return None
        prefix = "".join(p_.value for p_ in parts[:i])
        suffix = "".join(p_.value for p_ in parts[i + 1:])
        inner = calls[0].value
    elif isinstance(name_e, ast.Call):
        inner = name_e
    if inner is None:
        return None
    got = _resolve_helper(model, fi, inner)
    if got is None or not got[0].is_private or got[0] is fi:
        return None
    rets = [x for x in ast.walk(got[0].node) if isinstance(x, ast.Return)]
    if not rets or not all(isinstance(r_.value, ast.Constant) and isinstance(r_.value.value, str) for r_ in rets):
        return None
    if any(isinstance(x, (ast.Call,)) and not isinstance(x.func, (ast.Name, ast.Attribute)) for a_ in v.args for x in ast.walk(a_)) or v.keywords:
        return None
    pseudo = ast.copy_location(ast.Return(value=inner), st)
    saved = _KEEP
    body = _tail_helper_body(model, fi, [pseudo], all_names)
    if body is None:
        return None
    if not all((prefix + r_.value.value + suffix).isidentifier() for r_ in rets):
        return None

    class _K(ast.NodeTransformer):
        def visit_Return(self, n: ast.Return):
            if isinstance(n.value, ast.Constant) and isinstance(n.value.value, str):
                call = ast.Call(func=ast.Attribute(value=ast.Name(id=recv.id, ctx=ast.Load()), attr=prefix + n.value.value + suffix, ctx=ast.Load()), args=[clone_ast(a_) for a_ in v.args], keywords=[])
                new = ast.copy_location(ast.Return(value=call), st)
                ast.fix_missing_locations(new)
                return new
            return n

        def visit_FunctionDef(self, n):
            return n

        def visit_Lambda(self, n):
            return n

    out = []
    for b in body:
        nb = _K().visit(b)
        nb._fresh = True  # type: ignore
        out.append(nb)
    return out


def _assign_conv(stmts: List[ast.stmt], target: ast.expr, at: ast.stmt) -> Optional[List[ast.stmt]]:
    """the statements of a helper with several `return e` (all in if/else structure, every path ending in a return or a
    raise), placed where `target = helper(..)` stood: each `return e` is `target = e`, and what followed an `if` in the
    helper moves into the branches that reach it"""

    def has_ret(n) -> bool:
        return any(isinstance(y, ast.Return) for y in ast.walk(n))

    def conv(ss: List[ast.stmt]) -> Optional[List[ast.stmt]]:
        out: List[ast.stmt] = []
        for i, st in enumerate(ss):
            rest = ss[i + 1:]
            if isinstance(st, ast.Return):
                tnames = [e.id for e in target.elts] if isinstance(target, ast.Tuple) else []
                if isinstance(target, ast.Tuple) and isinstance(st.value, ast.Tuple) and len(st.value.elts) == len(target.elts) and not any(isinstance(y, ast.Name) and y.id in tnames for y in ast.walk(st.value)):
                    # (a, b) = (x, y) with x, y not reading a, b: a = x; b = y - flags and values are then plain locals
                    for t_, v_ in zip(target.elts, st.value.elts):
                        out.append(_fresh(ast.copy_location(ast.Assign(targets=[clone_ast(t_)], value=v_, type_comment=None), at)))
                    return out
                a_ = ast.copy_location(ast.Assign(targets=[clone_ast(target)], value=st.value, type_comment=None), at)
                out.append(_fresh(a_))
                return out
            if isinstance(st, ast.Raise):
                out.append(st)
                return out
            if not has_ret(st):
                out.append(st)
                continue
            if isinstance(st, ast.If):
                b = conv(list(st.body) + [clone_ast(r_) for r_ in rest])
                o = conv(list(st.orelse) + [clone_ast(r_) for r_ in rest])
                if b is None or o is None:
                    return None
                out.append(_fresh(ast.copy_location(ast.If(test=st.test, body=b, orelse=o), st)))
                return out
            return None
        return None  # a path falls off the end: the helper answers None there, which `target = e` cannot express here

    r = conv(list(stmts))
    if r is None:
        return None
    for st in r:
        for y in ast.walk(st):
            if not hasattr(y, "lineno") and isinstance(y, (ast.stmt, ast.expr)):
                ast.copy_location(y, at)
    return r


def _optional_conv(stmts: List[ast.stmt], x: str, at: ast.stmt, ret: Optional[ast.Return] = None) -> Optional[List[ast.stmt]]:
    """the statements of a helper (parameters already renamed) that answers None for "not mine", placed where
    `x = helper(..); if x is not None: return x` stood: `return None` falls out to what follows, `return E` becomes
    `x = E; if x is not None: return x` (just `return E` for a constructor call, which is never None)."""

    def has_ret(n) -> bool:
        return any(isinstance(y, ast.Return) for y in ast.walk(n))

    def conv(ss: List[ast.stmt]) -> Optional[List[ast.stmt]]:
        out: List[ast.stmt] = []
        for i, st in enumerate(ss):
            rest = ss[i + 1:]
            if isinstance(st, ast.Return):
                if _is_none(st.value):
                    return out
                e = st.value
                never_none = (isinstance(e, ast.Call) and isinstance(e.func, ast.Attribute) and isinstance(e.func.value, ast.Name) and e.func.value.id == "ast") or (isinstance(e, ast.Constant) and e.value is not None)
                plain = ret is None or (isinstance(ret.value, ast.Name) and ret.value.id == x)
                the_ret = ast.Return(value=ast.Name(id=x, ctx=ast.Load())) if plain else clone_ast(ret)
                if never_none and plain:
                    out.append(_fresh(ast.copy_location(ast.Return(value=e), at)))
                else:
                    a_ = _fresh(ast.copy_location(ast.Assign(targets=[ast.Name(id=x, ctx=ast.Store())], value=e, type_comment=None), at))
                    if never_none and isinstance(e, ast.Constant) and not plain:
                        # x = "name"; return getattr(self, x)(..)  is  return self.name(..)
                        r2 = _Sub({x: e}).visit(clone_ast(ret))
                        ast.fix_missing_locations(r2)
                        out += [_fresh(ast.copy_location(r2, at))]
                    elif never_none:
                        out += [a_, _fresh(ast.copy_location(the_ret, at))]
                    else:
                        t_ = ast.Compare(left=ast.Name(id=x, ctx=ast.Load()), ops=[ast.IsNot()], comparators=[ast.Constant(value=None)])
                        i_ = _fresh(ast.copy_location(ast.If(test=t_, body=[the_ret], orelse=[]), at))
                        out += [a_, i_]
                return out
            if not has_ret(st):
                out.append(st)
                continue
            if isinstance(st, ast.If):
                b = conv(list(st.body) + [clone_ast(r_) for r_ in rest])
                o = conv(list(st.orelse) + [clone_ast(r_) for r_ in rest])
                if b is None or o is None:
                    return None
                new = _fresh(ast.copy_location(ast.If(test=st.test, body=b or [ast.Pass()], orelse=o), st))
                out.append(new)
                return out
            if isinstance(st, ast.Try) and not st.orelse and not st.finalbody and (not rest or (_terminates(list(st.body)) and all(_terminates(list(h_.body)) for h_ in st.handlers))):
                b = conv(list(st.body))
                hs = []
                for h_ in st.handlers:
                    hb = conv(list(h_.body))
                    if hb is None:
                        return None
                    h2 = copy.copy(h_)
                    h2.body = hb or [ast.Pass()]
                    hs.append(h2)
                if b is None:
                    return None
                new = _fresh(ast.copy_location(ast.Try(body=b or [ast.Pass()], handlers=hs, orelse=[], finalbody=[]), st))
                out.append(new)
                return out
            return None
        return out

    r = conv(list(stmts))
    if r is None:
        return None
    for st in r:
        for y in ast.walk(st):
            if not hasattr(y, "lineno") and isinstance(y, (ast.stmt, ast.expr)):
                ast.copy_location(y, at)
    return r


def _tail_helper_body(model: Model, fi: FuncInfo, body: List[ast.stmt], caller_names=None, procedure: bool = False, assign_to: Optional[ast.expr] = None) -> Optional[List[ast.stmt]]:
    """`...; return self._h(a, b)` where _h is a private helper called from nowhere else and a, b are locals: the
    statements of _h with its parameters renamed to a, b (its other locals get a suffix when they would collide)."""
    from .lib import call_sites_of

    if not body or not isinstance(body[-1], ast.Return) or not isinstance(body[-1].value, ast.Call):
        return None
    call = body[-1].value
    if any(k.arg is None for k in call.keywords) or any(isinstance(a, ast.Starred) for a in call.args):
        return None
    got = _resolve_helper(model, fi, call)
    if got is None:
        return None
    h, skip = got
    if not call.args and not call.keywords and not skip:
        return None
    global _VIEW_DEPTH
    if _VIEW_DEPTH < 2 and not isinstance(h.node, ast.Lambda) and any((isinstance(st_, ast.For) and any(isinstance(y_, ast.Return) for y_ in ast.walk(st_))) or (isinstance(st_, ast.Return) and isinstance(st_.value, ast.Call) and isinstance(st_.value.func, ast.Name) and st_.value.func.id == "next") for st_ in h.node.body):
        # a finder (first match over a literal table): read through its own view - the if-chain it abbreviates
        _VIEW_DEPTH += 1
        saved = (_KEEP, _HOIST_TESTS, _COMP_LOOPS, _CUR_BODY, _TABLE_BODY)
        try:
            h = unrolled(model, h)
        finally:
            _VIEW_DEPTH -= 1
            globals().update(dict(zip(("_KEEP", "_HOIST_TESTS", "_COMP_LOOPS", "_CUR_BODY", "_TABLE_BODY"), saved)))
    if call.keywords:
        # keyword arguments name the parameters they bind (they are evaluated after the positional ones, as written)
        rest_ = h.pos_params[skip + len(call.args):]
        kw_ = {k.arg: k.value for k in call.keywords}
        if h.node.args.vararg or len(kw_) != len(call.keywords) or set(kw_) != set(rest_):
            return None
        call = copy.copy(call)
        written = [k.arg for k in call.keywords]
        call.args = list(call.args) + [kw_[p_] for p_ in rest_]
        call.keywords = []
        _kw_order = written if written != rest_ else None
    else:
        _kw_order = None
    if h is fi or h.name in _KEEP or isinstance(h.node, ast.Lambda) or not h.is_private:
        return None
    decos_ = [ast.unparse(d) for d in got[0].node.decorator_list]
    if any(d_ not in ("staticmethod", "classmethod") for d_ in decos_):
        return None
    if "classmethod" in decos_:
        # a class method whose statements (as read: a finder over a class-level table is its if-chain) no longer
        # mention `cls` is a static helper
        if not h.pos_params or any(isinstance(x_, ast.Name) and x_.id == h.pos_params[0] for st_ in h.node.body for x_ in ast.walk(st_)):
            return None
        skip = 1
    h0 = got[0]
    n_sites = len(call_sites_of(model, h0))
    if n_sites == 0 and h.cls is not None and h.cls is not fi.cls:
        # a method of a private record class: its call sites are the `x.name(..)` calls of the package
        n_sites = sum(1 for g_ in model.funcs.values() for c_ in ast.walk(g_.node) if isinstance(c_, ast.Call) and isinstance(c_.func, ast.Attribute) and c_.func.attr == h.name and g_.parent_func is None)
    small = sum(1 for x in ast.walk(h.node) if isinstance(x, ast.stmt) and not (isinstance(x, ast.Expr) and isinstance(x.value, ast.Constant))) <= 12 and not any(c_ is h0 for c_, _cl, _sk in call_sites_of(model, h0))
    if (n_sites != 1 and not small) or (len(h.pos_params) - skip != len(call.args) and not h.node.args.vararg):
        return None
    a = h.node.args
    if a.kwarg or a.kwonlyargs or a.defaults or a.posonlyargs:
        return None
    vararg_elts: Optional[List[ast.expr]] = None
    if a.vararg:
        # *nodes: bound to the tuple of the remaining arguments (plain names / constants only)
        n_fixed = len(h.pos_params) - skip
        extra = call.args[n_fixed:]
        if len(call.args) < n_fixed or not all(isinstance(e_, (ast.Name, ast.Constant)) for e_ in extra):
            return None
        vararg_elts = list(extra)
        call = copy.copy(call)
        call.args = list(call.args[:n_fixed])
    if any(isinstance(x, (ast.AsyncFunctionDef, ast.ClassDef, ast.Global, ast.Nonlocal, ast.Yield, ast.YieldFrom)) for st in h.node.body for x in ast.walk(st)):
        return None
    nested = [x for st in h.node.body for x in ast.walk(st) if isinstance(x, (ast.FunctionDef, ast.Lambda))]
    if procedure and any(isinstance(x, ast.Return) for st in h.node.body for x in ast.walk(st)):
        return None
    multi_ret = False
    if assign_to is not None:
        rets_ = [x for st in h.node.body for x in ast.walk(st) if isinstance(x, ast.Return)]
        if not rets_ or any(r_.value is None for r_ in rets_):
            return None
        if len(rets_) != 1 or rets_[0] is not h.node.body[-1]:
            multi_ret = True  # several results: each `return e` becomes `target = e` in an if/else structure (below)
    ren: Dict[str, str] = {}
    if skip:
        if not (isinstance(call.func, ast.Attribute) and isinstance(call.func.value, ast.Name)):
            return None
        ren[h.pos_params[0]] = call.func.value.id
    pre: List[ast.stmt] = []
    const_args: Dict[str, ast.expr] = {}
    caller_names_stores = {x.id for x in ast.walk(fi.node) if isinstance(x, ast.Name) and isinstance(x.ctx, (ast.Store, ast.Del))} | set(fi.params)
    for p_, a_ in zip(h.pos_params[skip:], call.args):
        a_ = _table_entry(model, fi, a_)
        if isinstance(a_, ast.Name):
            ren[p_] = a_.id
        elif isinstance(a_, (ast.Tuple, ast.List)) and a_.elts and all(_pure(e_) and not (isinstance(e_, ast.Name) and e_.id in caller_names_stores) for e_ in a_.elts) and not any(isinstance(x_, ast.Name) and x_.id == p_ and isinstance(x_.ctx, ast.Store) for st_ in h.node.body for x_ in ast.walk(st_)):
            const_args[p_] = a_  # a literal tuple of constants / module-level names: read wherever the parameter is read
        elif isinstance(a_, ast.Constant) or (isinstance(a_, ast.Attribute) and isinstance(a_.value, ast.Name) and a_.value.id in fi.module.imports and a_.value.id not in caller_names_stores):
            const_args[p_] = a_  # a constant argument (or a name of an imported module: ast.Call) is that wherever the parameter is read
        else:
            # an argument expression is evaluated once, before the helper's body: a temporary named after the parameter
            tmp = f"{p_}_arg"
            st_ = ast.Assign(targets=[ast.Name(id=tmp, ctx=ast.Store())], value=clone_ast(a_), type_comment=None)
            ast.copy_location(st_, body[-1])
            st_._fresh = True  # type: ignore
            pre.append(st_)
            ren[p_] = tmp
    if _kw_order is not None and len([st_ for st_ in pre if isinstance(st_, ast.Assign)]) > 1:
        return None  # keywords written in another order than the parameters, more than one of them with an effect: not re-ordered
    # a parameter of the helper must not be re-bound there (it would re-bind the caller's local: harmless, but keep it simple)
    stores = {x.id for st in h.node.body for x in ast.walk(st) if isinstance(x, ast.Name) and isinstance(x.ctx, ast.Store)}
    if stores & set(const_args):
        return None
    for p_ in sorted(stores & set(ren)):
        # a parameter the helper re-binds: a local of the helper that starts as the argument (the caller's variable of
        # that name is not touched)
        tmp = f"{p_}_h"
        while tmp in (caller_names or set()) or tmp in stores:
            tmp += "_"
        st_ = ast.Assign(targets=[ast.Name(id=tmp, ctx=ast.Store())], value=ast.Name(id=ren[p_], ctx=ast.Load()), type_comment=None)
        ast.copy_location(st_, body[-1])
        ast.fix_missing_locations(st_)
        st_._fresh = True  # type: ignore
        pre.append(st_)
        ren[p_] = tmp
    caller_names = (caller_names or set()) | {x.id for st in body for x in ast.walk(st) if isinstance(x, ast.Name)} | set(fi.pos_params)
    for loc in stores:
        if loc in caller_names and loc not in ren:
            ren[loc] = loc + "_h"

    # nested functions / lambdas of the helper move along unchanged: they must not mention anything that is renamed
    for nf in nested:
        inner = {x.id for x in ast.walk(nf) if isinstance(x, ast.Name)} | {a.arg for a in ast.walk(nf) if isinstance(a, ast.arg)}
        if inner & (set(ren) | set(const_args)):
            return None

    if h.module is not fi.module:
        # the helper's global names must mean the same thing where its statements now stand: an import is added for
        # each one that does not (and the move is given up when the name is taken)
        import builtins as _b

        local_ = stores | set(h.pos_params) | {a.arg for nf in nested for a in ast.walk(nf) if isinstance(a, ast.arg)}
        for st_ in h.node.body:
            for x in ast.walk(st_):
                if isinstance(x, (ast.Import, ast.ImportFrom)):
                    local_ |= {(al.asname or al.name).split(".")[0] for al in x.names}
        frees = sorted({x.id for st_ in h.node.body for x in ast.walk(st_) if isinstance(x, ast.Name) and isinstance(x.ctx, ast.Load)} - local_)
        for g_ in frees:
            there = model.resolve_dotted(h.module, h, g_)
            if there == g_ and hasattr(_b, g_):
                continue
            here = model.resolve_dotted(fi.module, fi, g_)
            if here == there and here != g_:
                continue
            if g_ in caller_names or "." not in there:
                return None
            mod_, _, nm_ = there.rpartition(".")
            imp = ast.ImportFrom(module=mod_, names=[ast.alias(name=nm_, asname=(g_ if g_ != nm_ else None))], level=0)
            ast.copy_location(imp, body[-1])
            imp._fresh = True  # type: ignore
            pre.insert(0, imp)

    if vararg_elts is not None and a.vararg.arg in stores:
        return None

    class _R(ast.NodeTransformer):
        def visit_Name(self, n: ast.Name):
            if vararg_elts is not None and n.id == a.vararg.arg and isinstance(n.ctx, ast.Load):
                return ast.copy_location(ast.Tuple(elts=[clone_ast(e_) for e_ in vararg_elts], ctx=ast.Load()), n)
            if n.id in const_args and isinstance(n.ctx, ast.Load):
                return ast.copy_location(clone_ast(const_args[n.id]), n)
            return self._rest(n)

        def visit_Subscript(self, n: ast.Subscript):
            self.generic_visit(n)
            # <literal tuple argument>[k] is its k-th element
            if isinstance(n.ctx, ast.Load) and isinstance(n.value, (ast.Tuple, ast.List)) and isinstance(n.slice, ast.Constant) and type(n.slice.value) is int and all(_pure(e_) for e_ in n.value.elts) and -len(n.value.elts) <= n.slice.value < len(n.value.elts):
                return n.value.elts[n.slice.value]
            return n

        def _rest(self, n: ast.Name):
            if n.id in ren:
                return ast.copy_location(ast.Name(id=ren[n.id], ctx=n.ctx), n)
            return n

    h_body = h.node.body
    hb = [st for st in h_body if not (isinstance(st, ast.Expr) and isinstance(st.value, ast.Constant) and isinstance(st.value.value, str))]
    if vararg_elts is not None:
        hb2: List[ast.stmt] = []
        for st in hb:
            c_ = _R().visit(clone_ast(st))
            ast.fix_missing_locations(c_)
            hb2.extend(_unroll_literal_loop(c_))
        ren_done = True
    else:
        # `for k in ("a", "b"): setattr(x, k, ..)` in a helper is the statements it abbreviates (as it is in the function itself)
        hb2 = [y_ for st in hb for y_ in (_unroll_literal_loop(st) if isinstance(st, ast.For) and isinstance(st.iter, (ast.Tuple, ast.List)) else [st])]
        ren_done = False
    if multi_ret:
        conv = _assign_conv([(st if ren_done else _R().visit(clone_ast(st))) for st in hb2], assign_to, body[-1])
        if conv is None:
            return None
        for c_ in conv:
            c_._fresh = True  # type: ignore
        return list(pre) + conv
    out = list(pre)
    for st in hb2:
        c_ = st if ren_done else _R().visit(clone_ast(st))
        if assign_to is not None and st is hb2[-1]:
            c_ = ast.copy_location(ast.Assign(targets=[clone_ast(assign_to)], value=c_.value, type_comment=None), body[-1])
        c_._fresh = True  # type: ignore
        out.append(c_)
    return out


def _terminates(stmts: List[ast.stmt]) -> bool:
    if not stmts:
        return False
    last = stmts[-1]
    if isinstance(last, (ast.Return, ast.Raise)):
        return True
    if isinstance(last, ast.If):
        return _terminates(last.body) and _terminates(last.orelse)
    return False


def _sink_tail(body: List[ast.stmt]) -> Tuple[List[ast.stmt], bool]:
    """if A: x = 1 / elif B: x = 2 / else: return g  followed by a short straight-line tail ending in `return f(x)`:
    the tail is copied to the end of every branch that reaches it. Each outcome is then a return under its own
    condition, which is how the rules read a decision."""
    for i, st in enumerate(body):
        if not isinstance(st, ast.If):
            continue
        tail = body[i + 1:]
        if not tail or len(tail) > 5 or not isinstance(tail[-1], ast.Return):
            continue
        if not all(isinstance(t_, (ast.Assign, ast.Expr, ast.Return)) for t_ in tail) or any(isinstance(x, (ast.Lambda, ast.NamedExpr, ast.Yield)) for t_ in tail for x in ast.walk(t_)):
            continue
        if _terminates([st]):
            continue

        def simple(stmts):
            return all(isinstance(s_, (ast.Assign, ast.Expr, ast.Return, ast.Raise, ast.Pass)) or (isinstance(s_, ast.If) and simple(s_.body) and simple(s_.orelse)) for s_ in stmts)

        if not (simple(st.body) and simple(st.orelse)):
            continue

        def sink(node: ast.If) -> ast.If:
            new = copy.copy(node)
            b = list(node.body)
            new.body = b if _terminates(b) else b + [_fresh(clone_ast(t_)) for t_ in tail]
            o = list(node.orelse)
            if len(o) == 1 and isinstance(o[0], ast.If):
                new.orelse = [sink(o[0])]
            else:
                new.orelse = o if _terminates(o) else o + [_fresh(clone_ast(t_)) for t_ in tail]
            new._fresh = True  # type: ignore
            return new

        return body[:i] + [sink(st)], True
    return body, False


def _fresh(n):
    n._fresh = True  # type: ignore
    return n


def _unroll(model: Model, fi: FuncInfo) -> FuncInfo:
    if isinstance(fi.node, ast.Lambda):
        return fi
    body = list(fi.node.body)
    changed = False

    def tables(stmts: List[ast.stmt]) -> Tuple[List[ast.stmt], bool]:
        """first-match dispatch over literal tables, read as the if-chain it abbreviates"""
        out_: List[ast.stmt] = []
        ch_ = False
        i = 0
        while i < len(stmts):
            s = stmts[i]
            nxt = stmts[i + 1] if i + 1 < len(stmts) else None
            rep = _match(model, fi, s, nxt)
            if rep is not None:
                out_.extend(rep)
                ch_ = True
                i += 2
                continue
            rep = _match_first_non_none_loop(model, fi, s)
            if rep is not None:
                out_.extend(rep)
                ch_ = True
                i += 1
                continue
            rep = _match_inline_loop(model, fi, s)
            if rep is not None:
                out_.extend(rep)
                ch_ = True
                i += 1
                continue
            if isinstance(s, (ast.If, ast.With, ast.Try)) and any(isinstance(y, ast.For) for y in ast.walk(s)):
                # a dispatch loop inside a branch
                s2 = copy.copy(s)
                sub_ch = False
                for fld in ("body", "orelse", "finalbody"):
                    if isinstance(getattr(s2, fld, None), list) and getattr(s2, fld):
                        nb, c2 = tables(getattr(s2, fld))
                        setattr(s2, fld, nb)
                        sub_ch = sub_ch or c2
                if sub_ch:
                    _fresh(s2)
                    out_.append(s2)
                    ch_ = True
                    i += 1
                    continue
            out_.append(s)
            i += 1
        return out_, ch_

    # x = next((v for k, v in TABLE if test), D); if x is D: <leave>; return E(x)   is the finder loop
    # `for k, v in TABLE: if test: return E(v)` followed by <leave>
    for i_ in range(len(body) - 2):
        a_, t_, r_ = body[i_], body[i_ + 1], body[i_ + 2]
        if not (isinstance(a_, ast.Assign) and len(a_.targets) == 1 and isinstance(a_.targets[0], ast.Name) and isinstance(t_, ast.If) and not t_.orelse and isinstance(r_, ast.Return) and r_.value is not None and i_ + 3 == len(body)):
            continue
        v_ = a_.value
        x_ = a_.targets[0].id
        if not (isinstance(v_, ast.Call) and isinstance(v_.func, ast.Name) and v_.func.id == "next" and len(v_.args) == 2 and not v_.keywords and isinstance(v_.args[0], ast.GeneratorExp) and len(v_.args[0].generators) == 1 and v_.args[0].generators[0].ifs and isinstance(v_.args[1], (ast.Name, ast.Constant))):
            continue
        tt_ = t_.test
        is_d = isinstance(tt_, ast.Compare) and len(tt_.ops) == 1 and isinstance(tt_.ops[0], ast.Is) and isinstance(tt_.left, ast.Name) and tt_.left.id == x_ and ast.dump(tt_.comparators[0]) == ast.dump(v_.args[1])
        leaves = bool(t_.body) and isinstance(t_.body[-1], (ast.Return, ast.Raise))
        uses_x = [n_ for st2 in body for n_ in ast.walk(st2) if isinstance(n_, ast.Name) and n_.id == x_]
        in_ret = [n_ for n_ in ast.walk(r_) if isinstance(n_, ast.Name) and n_.id == x_]
        g_ = v_.args[0].generators[0]
        tn_ = {n_.id for n_ in ast.walk(g_.target) if isinstance(n_, ast.Name)}
        others_ = {n_.id for o_ in body if o_ is not a_ for n_ in ast.walk(o_) if isinstance(n_, ast.Name)} | set(fi.params)
        if not (is_d and leaves and len(uses_x) == 2 + len(in_ret) and tn_ and not (tn_ & others_)):
            continue
        test_ = g_.ifs[0] if len(g_.ifs) == 1 else ast.BoolOp(op=ast.And(), values=[clone_ast(j_) for j_ in g_.ifs])
        ret_ = _Subst({x_: clone_ast(v_.args[0].elt)}).visit(clone_ast(r_))
        inner_ = ast.If(test=clone_ast(test_), body=[ret_], orelse=[])
        loop_ = ast.For(target=clone_ast(g_.target), iter=clone_ast(g_.iter), body=[inner_], orelse=[], type_comment=None)
        for n_ in ast.walk(loop_.target):
            if isinstance(n_, ast.Name):
                n_.ctx = ast.Store()
        ast.copy_location(loop_, a_)
        ast.fix_missing_locations(loop_)
        loop_._fresh = True  # type: ignore
        body = body[:i_] + [loop_] + list(t_.body)
        changed = True
        break
    # return next((v for k, v in TABLE if test), default) is the finder loop `for k, v in TABLE: if test: return v` followed
    # by `return default`
    nb_: List[ast.stmt] = []
    for st_ in body:
        v_ = st_.value if isinstance(st_, ast.Return) else None
        if isinstance(v_, ast.Call) and isinstance(v_.func, ast.Name) and v_.func.id == "next" and len(v_.args) == 2 and not v_.keywords and isinstance(v_.args[0], ast.GeneratorExp) and len(v_.args[0].generators) == 1 and not v_.args[0].generators[0].is_async and _pure(v_.args[1]):
            g_ = v_.args[0].generators[0]
            tn_ = {n_.id for n_ in ast.walk(g_.target) if isinstance(n_, ast.Name)}
            others_ = {n_.id for o_ in body if o_ is not st_ for n_ in ast.walk(o_) if isinstance(n_, ast.Name)} | set(fi.params)
            if tn_ and not (tn_ & others_) and g_.ifs:
                test_ = g_.ifs[0] if len(g_.ifs) == 1 else ast.BoolOp(op=ast.And(), values=[clone_ast(i_) for i_ in g_.ifs])
                inner_ = ast.If(test=clone_ast(test_), body=[ast.Return(value=clone_ast(v_.args[0].elt))], orelse=[])
                loop_ = ast.For(target=clone_ast(g_.target), iter=clone_ast(g_.iter), body=[inner_], orelse=[], type_comment=None)
                for n_ in ast.walk(loop_.target):
                    if isinstance(n_, ast.Name):
                        n_.ctx = ast.Store()
                dflt_ = ast.Return(value=clone_ast(v_.args[1]))
                for n_ in (loop_, dflt_):
                    ast.copy_location(n_, st_)
                    ast.fix_missing_locations(n_)
                    n_._fresh = True  # type: ignore
                nb_ += [loop_, dflt_]
                changed = True
                continue
        nb_.append(st_)
    body = nb_
    global _TABLE_BODY
    _TABLE_BODY = body
    # table dispatch first (its pattern is two adjacent statements), then the re-shaping passes, then tables once more
    # for what the inlined helpers brought in
    try:
        body, ch = tables(body)
    finally:
        _TABLE_BODY = None
    changed = changed or ch
    body, ch = _sink_tail(body)
    changed = changed or ch
    for _ in range(3):
        body, ch = _inline_returned_helpers(model, fi, body)
        if not ch:
            break
        changed = True
        body, ch2 = tables(body)
        # a constant that arrived as an argument may now select an entry of a dispatch table
        tc = _TableCalls(model, fi)
        body = [tc.visit(clone_ast(st_)) if any(isinstance(x, ast.Subscript) or (isinstance(x, ast.Attribute) and x.attr == "get") for x in ast.walk(st_)) else st_ for st_ in body]
        if tc.n:
            for st_ in body:
                _fresh(st_)
    if _COMP_LOOPS:
        body, ch = _comps_to_loops(fi, body)
        changed = changed or ch
        if ch:
            for _ in range(2):
                body, ch2 = _inline_returned_helpers(model, fi, body)
                if not ch2:
                    break
    body, ch = _split_records(model, fi, body)
    changed = changed or ch
    body, ch = _unroll_local_tables(fi, body)
    changed = changed or ch
    new_body = body
    if not changed:
        return fi
    fn = ast.FunctionDef(name=fi.node.name, args=clone_ast(fi.node.args), body=[clone_ast(x) if not getattr(x, "_fresh", False) else x for x in new_body], decorator_list=[], returns=None, type_comment=None, type_params=[])
    mod = ast.Module(body=[fn], type_ignores=[])
    ast.fix_missing_locations(mod)
    src = ast.unparse(mod)
    from .spec import spec_function

    out = spec_function(model, src, fi.module.name, fi.cls.name if fi.cls is not None else None, fi.parent_func)
    out.__dict__["_unrolled_from"] = fi
    return out


def _match(model: Model, fi: FuncInfo, s: ast.stmt, nxt: Optional[ast.stmt]) -> Optional[List[ast.stmt]]:
    if not (isinstance(s, ast.Assign) and len(s.targets) == 1 and isinstance(s.targets[0], ast.Name) and isinstance(s.value, ast.Call) and not s.value.keywords):
        return None
    x = s.targets[0].id
    if not (isinstance(nxt, ast.If) and not nxt.orelse and len(nxt.body) == 1 and isinstance(nxt.body[0], ast.Return)):
        return None
    t = nxt.test
    if not (isinstance(t, ast.Compare) and len(t.ops) == 1 and isinstance(t.ops[0], ast.IsNot) and isinstance(t.left, ast.Name) and t.left.id == x and isinstance(t.comparators[0], ast.Constant) and t.comparators[0].value is None):
        return None
    ret = nxt.body[0].value
    if not (isinstance(ret, ast.Call) and isinstance(ret.func, ast.Name) and ret.func.id == x):
        return None
    # the handler variable is used nowhere else
    uses = [n for n in own_nodes(fi) if isinstance(n, ast.Name) and n.id == x]
    if len(uses) != 3:
        return None
    got = _resolve_helper(model, fi, s.value)
    if got is None:
        return None
    h, skip = got
    shape = _finder_shape(h, skip)
    if shape is None:
        return None
    tparam, items, kv, _vv, test, kind = shape
    params = h.pos_params[skip:]
    if len(s.value.args) != len(params) or any(isinstance(a, ast.Starred) for a in s.value.args):
        return None
    actual = dict(zip(params, s.value.args))
    table = _literal_table(model, fi, actual[tparam], items)
    if table is None:
        return None
    # the other actual arguments are evaluated once by the helper call and once per test after unrolling: names only
    for p, a in actual.items():
        if p != tparam and not isinstance(a, (ast.Name, ast.Constant)):
            return None
    out: List[ast.stmt] = []
    for k, v in table:
        mapping = {p: a for p, a in actual.items() if p != tparam}
        if skip == 1 and fi.pos_params:
            mapping[h.pos_params[0]] = ast.Name(id=fi.pos_params[0], ctx=ast.Load())
        mapping[kv] = k
        cond = _Sub(mapping).visit(clone_ast(test))
        if kind == "method":
            if not (isinstance(v, ast.Constant) and isinstance(v.value, str) and v.value.isidentifier()):
                return None
            callee: ast.AST = ast.Attribute(value=ast.Name(id=fi.pos_params[0], ctx=ast.Load()), attr=v.value, ctx=ast.Load())
        else:
            callee = clone_ast(v)
        call = ast.Call(func=callee, args=[clone_ast(a) for a in ret.args], keywords=[clone_ast(kw) for kw in ret.keywords])
        st = ast.If(test=cond, body=[ast.Return(value=call)], orelse=[])
        st._fresh = True  # type: ignore
        out.append(st)
    return out


def _pure(e: ast.AST) -> bool:
    return isinstance(e, (ast.Constant, ast.Name)) or (isinstance(e, ast.Attribute) and _pure(e.value))


def _pairs_literal(model: Model, fi: FuncInfo, it: ast.AST) -> Optional[List[Tuple[ast.AST, ast.AST]]]:
    """the literal behind `for k, v in <it>`: a module-level name or a class attribute read through self, holding a
    tuple/list of pairs (or a dict, iterated with .items()) of pure expressions, that nothing in the package writes"""
    items = False
    if isinstance(it, ast.Call) and isinstance(it.func, ast.Attribute) and it.func.attr == "items" and not it.args and not it.keywords:
        it, items = it.func.value, True
    lit = None
    name = None
    sub_key = None
    if isinstance(it, ast.Subscript) and isinstance(it.slice, ast.Constant):
        # TABLES["Select"]: one entry of a literal dict of tables
        it, sub_key = it.value, it.slice.value
    if isinstance(it, ast.Name) and it.id not in fi.params:
        name = it.id
        lit = fi.module.assigns.get(name)
        for f in model.funcs.values():
            for n in own_nodes(f):
                if isinstance(n, ast.Name) and n.id == name and isinstance(n.ctx, (ast.Store, ast.Del)) and f.module is fi.module:
                    return None
    elif isinstance(it, ast.Attribute) and isinstance(it.value, ast.Name) and fi.cls is not None and fi.pos_params and it.value.id == fi.pos_params[0]:
        name = it.attr
        lit = fi.cls.class_assigns.get(name)
        for f in model.funcs.values():
            for n in own_nodes(f):
                if isinstance(n, ast.Attribute) and n.attr == name and isinstance(n.ctx, (ast.Store, ast.Del)):
                    return None
    if lit is None:
        return None
    if sub_key is not None:
        if not isinstance(lit, ast.Dict):
            return None
        hits = [v for k, v in zip(lit.keys, lit.values) if isinstance(k, ast.Constant) and k.value == sub_key and type(k.value) is type(sub_key)]
        if len(hits) != 1:
            return None
        lit = hits[0]
    if isinstance(lit, ast.Dict) and items:
        if any(k is None or not _pure(k) for k in lit.keys) or not all(_pure(v) for v in lit.values):
            return None
        return list(zip(lit.keys, lit.values))  # type: ignore
    if isinstance(lit, (ast.Tuple, ast.List)) and not items:
        out = []
        for p in lit.elts:
            if not (isinstance(p, (ast.Tuple, ast.List)) and len(p.elts) == 2 and _pure(p.elts[0]) and _pure(p.elts[1])):
                return None
            out.append((p.elts[0], p.elts[1]))
        return out or None
    return None


def _names_literal(model: Model, fi: FuncInfo, it: ast.AST) -> Optional[List[ast.AST]]:
    """the literal behind `for name in <it>`: a module-level name or a class attribute read through self, holding a
    tuple/list of constants or plain names, that nothing in the package writes"""
    lit = None
    if isinstance(it, ast.Name) and it.id not in fi.params:
        lit = fi.module.assigns.get(it.id)
        for f in model.funcs.values():
            for n in own_nodes(f):
                if isinstance(n, ast.Name) and n.id == it.id and isinstance(n.ctx, (ast.Store, ast.Del)) and f.module is fi.module:
                    return None
                if isinstance(n, ast.Global) and it.id in n.names:
                    return None
    elif isinstance(it, ast.Attribute) and isinstance(it.value, ast.Name) and fi.cls is not None and fi.pos_params and it.value.id == fi.pos_params[0]:
        lit = fi.cls.class_assigns.get(it.attr)
        for f in model.funcs.values():
            for n in own_nodes(f):
                if isinstance(n, ast.Attribute) and n.attr == it.attr and isinstance(n.ctx, (ast.Store, ast.Del)):
                    return None
    if not isinstance(lit, (ast.Tuple, ast.List)) or not lit.elts or not all(isinstance(e, (ast.Constant, ast.Name)) for e in lit.elts):
        return None
    return list(lit.elts)


def _match_first_non_none_loop(model: Model, fi: FuncInfo, s: ast.stmt) -> Optional[List[ast.stmt]]:
    """for h in TABLE: x = getattr(self, h)(args) [or h(args)]; if x is not None: return x   -> one such pair per entry"""
    if not (isinstance(s, ast.For) and not s.orelse and isinstance(s.target, ast.Name) and len(s.body) == 2 and _is_first_non_none_pair(s.body[0], s.body[1], True)):
        return None
    hv = s.target.id
    x = s.body[0].targets[0].id  # type: ignore
    if any(isinstance(y, (ast.NamedExpr, ast.Await, ast.Yield, ast.YieldFrom)) for y in ast.walk(s)):
        return None
    for n in own_nodes(fi):
        if isinstance(n, ast.Name) and n.id == hv and not any(n is y for y in ast.walk(s)):
            return None
    table = _names_literal(model, fi, s.iter)
    if table is None:
        return None
    out: List[ast.stmt] = []
    for e in table:
        for st in s.body:
            out.append(_fresh(_Sub({hv: e}).visit(clone_ast(st))))
    return out


def _match_inline_loop(model: Model, fi: FuncInfo, s: ast.stmt) -> Optional[List[ast.stmt]]:
    """for k, v in TABLE: if TEST(k): return F(v)   ->   if TEST(k1): return F(v1); if TEST(k2): return F(v2); .."""
    if not (isinstance(s, ast.For) and not s.orelse and isinstance(s.target, ast.Tuple) and len(s.target.elts) == 2 and all(isinstance(e, ast.Name) for e in s.target.elts)):
        return None
    kv, vv = s.target.elts[0].id, s.target.elts[1].id  # type: ignore
    if len(s.body) != 1 or not isinstance(s.body[0], ast.If) or s.body[0].orelse:
        return None
    br = s.body[0]
    if len(br.body) != 1 or not isinstance(br.body[0], ast.Return):
        return None
    if any(isinstance(x, (ast.NamedExpr, ast.Await, ast.Yield, ast.YieldFrom)) for x in ast.walk(br)):
        return None
    # the loop variables live only in this loop
    scope_nodes = [n for st_ in _TABLE_BODY for n in ast.walk(st_)] if _TABLE_BODY is not None else list(own_nodes(fi))
    for n in scope_nodes:
        if isinstance(n, ast.Name) and n.id in (kv, vv) and not any(n is x for x in ast.walk(s)):
            return None
    table = _pairs_literal(model, fi, s.iter)
    if table is None:
        return None
    def const_of(e):
        """a module-level name bound once to a constant stands for that constant"""
        if isinstance(e, ast.Name) and e.id not in fi.params:
            lit = fi.module.assigns.get(e.id)
            if isinstance(lit, ast.Constant):
                n_st = sum(1 for f in model.funcs.values() if f.module is fi.module for n in own_nodes(f) if isinstance(n, ast.Name) and n.id == e.id and isinstance(n.ctx, (ast.Store, ast.Del)))
                if n_st == 0:
                    return lit
        return e

    class _Bound(ast.NodeTransformer):
        """f(self, a) where f names a method of the class (an entry of a class-level table): self.f(a)"""

        def visit_Call(self, node: ast.Call):
            self.generic_visit(node)
            if fi.cls is not None and fi.pos_params and isinstance(node.func, ast.Name) and node.func.id in fi.cls.methods and node.func.id not in fi.params and node.args and isinstance(node.args[0], ast.Name) and node.args[0].id == fi.pos_params[0] and not fi.cls.methods[node.func.id].decorators:
                return ast.copy_location(ast.Call(func=ast.Attribute(value=node.args[0], attr=node.func.id, ctx=ast.Load()), args=node.args[1:], keywords=node.keywords), node)
            return node

    out: List[ast.stmt] = []
    for k, v in table:
        k, v = const_of(k), const_of(v)
        st = _Sub({kv: k, vv: v}).visit(clone_ast(br))
        st = _Bound().visit(st)
        ast.fix_missing_locations(st)
        st._fresh = True  # type: ignore
        out.append(st)
    return out
