"""C10 - untyped queries pass through unchanged; refusals are explicit."""
from __future__ import annotations

import ast

from ..effects import effects_for, reachable_from
from ..lib import Facts, calls_in, own_nodes, stmt_of
from ..model import AnalysisError, FuncInfo
from ..report import Run
from ..terms import TermCtx, contains, show, strip_sites, strip_visits, unphi_terms
from .c07 import check_env_merge

EXPLANATION = (
    "(R1) every read of the type table _found_types is total: through lookup_type / .get, or an index guarded by a membership fact on the "
    "same key (not every expression kind records a type); (R2) every type_transformer.visit_* other than visit_Call returns its node "
    "(or the generic_visit result) on every non-raising path, so only call normalisation can change structure; (R3) partial operations "
    "on the untyped path are guarded: the parameterized-call path is skipped when the object's type is Any, and make_dataclass is fed "
    "only keys that are unique identifier strings that are not keywords; (R4) every explicit raise reachable from the three operators' "
    "lambda pipeline is a ValueError (exceptions: enumerated, with reason) and every assert is either an internal node-kind invariant or "
    "enumerated; (R5) the type environment handed to a nested lambda is a new dict: nothing a query binds is visible to a later query."
    " In R3 the dictionary guard is exact in both directions (nothing but uniqueness, str, isidentifier and not iskeyword excludes a dictionary from being typed); in R4 package code called inside a raise expression must not be able to fail before the refusal arrives."
    " (R11) the node type rules of C08.R1 are re-evaluated: they decide which filters Where accepts and which conditionals are refused."
)
NOT_DECIDED = "structural identity of output and input for every expression of the grammar (needs enumeration against the running code); implicit exceptions raised inside stdlib calls."

RAISE_WHITELIST = {
    ("func_adl.util_ast:lambda_unwrap", "Exception"): "argument is not a lambda: outside the property's domain (single-parameter lambda)",
    ("func_adl.util_types:build_type_dict_from_type", "TypeError"): "caught by resolve_type_vars (try/except TypeError) - never escapes",
}
ASSERT_WHITELIST = {
    "func_adl.type_based_replacement:remap_from_lambda": "len(args) == 1: outside 'single-parameter lambda'",
    "func_adl.util_types:unwrap_iterable": "typed models only (Iterable without a parameter)",
    "func_adl.util_types:get_inherited": "typed models only",
    "func_adl.type_based_replacement:fixup_ast_from_modifications.arg_fixer.redone_ast": "internal invariant of the copy bookkeeping",
    "func_adl.type_based_replacement:remap_by_types.type_transformer.process_method_call_on_stream_obj": "method was found by get_method_and_class just before",
    "func_adl.util_ast:_parse_source_for_lambda": "tokens found by the loop above",
    "func_adl.util_ast:parse_as_ast": "third alternative of callable / str / ast",
    "func_adl.object_stream:_local_simplification": "sugar resolution of a Lambda returns a Lambda",
    "func_adl.ast.syntatic_sugar:resolve_syntatic_sugar.syntax_transformer.convert_call_to_dict": "only reached for Constant callees (guarded in visit_Call)",
    "func_adl.ast.syntatic_sugar:resolve_syntatic_sugar.syntax_transformer.visit_Call": "inside isinstance(a.func, ast.Constant) branch",
}


# the same entries by function path alone: a function keeps its entry when it is moved to another module
_BY_PATH = {k.split(":")[1]: v for k, v in ASSERT_WHITELIST.items()}


def _partial_reads(m, f, seen=None, depth: int = 0):
    """constructs in package function f (and the package functions it calls) that can raise for a value the caller
    did not vet: direct reads of dunder attributes (typing objects do not all have __args__ / __name__ / __origin__),
    subscripts, raise / assert."""
    seen = seen if seen is not None else set()
    if f.qual in seen or depth > 3:
        return []
    seen.add(f.qual)
    out = []
    for x in own_nodes(f):
        if isinstance(x, ast.Attribute) and isinstance(x.ctx, ast.Load) and x.attr.startswith("__") and x.attr.endswith("__"):
            out.append((f, x, f"reads {ast.unparse(x)} directly (AttributeError when the object has none)"))
        elif isinstance(x, ast.Subscript) and isinstance(x.ctx, ast.Load):
            out.append((f, x, f"indexes {ast.unparse(x)[:40]}"))
        elif isinstance(x, (ast.Raise, ast.Assert)):
            out.append((f, x, "raises / asserts"))
        elif isinstance(x, ast.Call) and isinstance(x.func, ast.Name):
            tgt = m.lookup_target(m.resolve_dotted(f.module, f, x.func.id))
            if isinstance(tgt, FuncInfo) and tgt is not f:
                out += _partial_reads(m, tgt, seen, depth + 1)
    return out


def _check_message_total(run: Run, m, fi: FuncInfo, r: ast.Raise) -> None:
    """A designed refusal must arrive: computing its message may not fail first. Package functions called inside the
    raise expression are read for constructs that can raise on a value nobody has looked at."""
    if r.exc is None or not isinstance(r.exc, ast.Call):
        return
    # str.join over elements that are not known to be strings (sep.join(k.value for k in keys): TypeError for an int key):
    # in the raise expression itself, or in the definition of a local the message uses that was made on the way to it
    from ..model import parent as _par

    exprs = [r.exc]
    blk = next((getattr(_par(r), f_) for f_ in ("body", "orelse", "finalbody") if isinstance(getattr(_par(r), f_, None), list) and any(y is r for y in getattr(_par(r), f_))), [])
    used = {n_.id for n_ in ast.walk(r.exc) if isinstance(n_, ast.Name)}
    for st_ in blk:
        if st_ is r:
            break
        if isinstance(st_, ast.Assign) and len(st_.targets) == 1 and isinstance(st_.targets[0], ast.Name) and st_.targets[0].id in used:
            exprs.append(st_.value)
    for e_ in exprs:
        for x in ast.walk(e_):
            if isinstance(x, ast.Call) and isinstance(x.func, ast.Attribute) and x.func.attr == "join" and isinstance(x.func.value, ast.Constant) and isinstance(x.func.value.value, str) and len(x.args) == 1:
                a0 = x.args[0]
                elt = a0.elt if isinstance(a0, (ast.GeneratorExp, ast.ListComp)) else None
                is_text = elt is not None and (isinstance(elt, ast.JoinedStr) or (isinstance(elt, ast.Call) and isinstance(elt.func, ast.Name) and elt.func.id in ("str", "repr")) or (isinstance(elt, ast.Constant) and isinstance(elt.value, str)) or (isinstance(elt, ast.Call) and isinstance(elt.func, ast.Attribute) and elt.func.attr == "unparse"))
                if elt is not None and not is_text:
                    run.fail("C10.R4", fi, r, f"the message of this refusal joins {ast.unparse(elt)[:40]} with str.join, which raises TypeError for an element that is not a string: for {{1: e.x, 'a': e.y}}.b the designed ValueError ('key not found') never arrives, the user gets an internal TypeError", "', '.join(str(k.value) for k in ..) / f-string", key=f"refusal message joins non-strings in {fi.name}")
    for x in ast.walk(r.exc):
        if x is r.exc or not (isinstance(x, ast.Call) and isinstance(x.func, (ast.Name, ast.Attribute))):
            continue
        name = x.func.id if isinstance(x.func, ast.Name) else None
        tgt = m.lookup_target(m.resolve_dotted(fi.module, fi, name)) if name else None
        if not isinstance(tgt, FuncInfo):
            continue
        bad = _partial_reads(m, tgt)
        if isinstance(r.exc.func, ast.Name) and tgt.name == r.exc.func.id:
            continue  # the exception factory itself (its type is judged above)
        # an assert that was enumerated for the function the refusal stands in (it used to precede the raise there) and
        # now sits in a private helper that only that function calls: the same assert, still enumerated
        if bad and (ASSERT_WHITELIST.get(fi.qual) or _BY_PATH.get(fi.qual.split(":")[1])):
            from ..lib import call_sites_of as _cs

            bad = [b_ for b_ in bad if not (isinstance(b_[1], ast.Assert) and (b_[0].is_private or b_[0].qual.startswith(fi.qual + ".")) and all(c_.qual == fi.qual or c_.qual.startswith(fi.qual + ".") for c_, _a, _b in _cs(m, b_[0])))]  # (.. or its nested functions)
        run.check(
            not bad,
            "C10.R4",
            fi,
            r,
            f"the message of the refusal is computed by {tgt.name}, which cannot fail",
            f"the message of this refusal is computed by {tgt.name}(..), which {bad[0][2] if bad else ''} ({bad[0][0].module.name.split('.')[-1]}.py:{getattr(bad[0][1], 'lineno', '?')}): for a value of the kind being refused (a bare typing.Callable recorded for a nested lambda, a builtin) the helper raises first and the designed ValueError never arrives" if bad else "",
            "format the values in hand: f\"{t_true} and {t_false}\"",
            key=f"refusal message computed by partial helper {tgt.name}",
        )


def check(run: Run) -> None:
    m = run.model
    mod = "func_adl.type_based_replacement"
    for i, d in (("R1", "total reads of _found_types"), ("R2", "visit_* (except visit_Call) return their node"), ("R3", "Any excluded before property lookup; make_dataclass only on clean keys"), ("R4", "refusal inventory: reachable raises are ValueError; asserts enumerated"), ("R5", "fresh type environment per lambda")):
        run.rule(f"C10.{i}", d)
    ctx = TermCtx(m, max_depth=1, opaque={"lookup_type", "remap_by_types"})
    outer = m.find_func("remap_by_types", in_module=mod)
    from ..lib import used_visitor

    classes = [used_visitor(m, ctx, outer, True)]
    if len(classes) != 1:
        raise AnalysisError("remap_by_types no longer contains one transformer")
    tt = classes[0]

    # ---------------- R1
    n_reads = 0
    for name, fi in tt.methods.items():
        fa = ctx.analysis(fi)
        ft = ("attr", ("param", fi.pos_params[0]), "_found_types") if fi.pos_params else None
        for n in own_nodes(fi):
            if isinstance(n, ast.Subscript) and isinstance(n.ctx, ast.Load) and fa.cfg.has_node(n) and strip_sites(fa.term_of(n.value)) == ft:
                n_reads += 1
                key = strip_sites(fa.term_of(n.slice))
                fx = Facts(fa, n)
                guarded = any(pol and isinstance(a, ast.Compare) and isinstance(a.ops[0], ast.In) and strip_sites(fa.term_of(a.left)) == key and strip_sites(fa.term_of(a.comparators[0])) == ft for a, pol in fx.atoms)
                run.check(guarded, "C10.R1", fi, stmt_of(n), "indexed read of the type table is guarded by membership of the same key", f"{name} reads self._found_types[{show(key)[:40]}] without knowing the key is present: not every expression kind records a type (an attribute of an untyped object does not), so a valid expression raises KeyError", "self.lookup_type(..)")
    run.floor("C10.R1", n_reads, 1, "indexed reads of _found_types")
    lk = tt.methods.get("lookup_type")
    if lk is None:
        raise AnalysisError("anchor vanished: type_transformer.lookup_type")
    flk = TermCtx(m, max_depth=1).analysis(lk)
    gets = [c for c in calls_in(lk) if isinstance(c.func, ast.Attribute) and c.func.attr == "get"]
    rt = strip_sites(flk.return_term())
    ok = len(gets) >= 1 and ("global", "typing.Any") in unphi_terms(rt) and not any(a == ("const", None) for a in unphi_terms(rt))
    run.check(ok, "C10.R1", lk, lk.node, "lookup_type is total: table.get(..) and Any when unknown, never None", f"lookup_type returns {show(rt)[:100]}")

    # ---------------- R2
    n_v = 0
    for name, fi in sorted(tt.methods.items()):
        if not name.startswith("visit_") or name == "visit_Call":
            continue
        n_v += 1
        fa = ctx.analysis(fi)
        nodep = ("param", fi.pos_params[1])
        for s, n in fa.returns():
            t = strip_sites(fa.term_of(s.value, n)) if s.value is not None else ("const", None)
            ok = all(strip_visits(a) == nodep for a in unphi_terms(t))
            run.check(ok, "C10.R2", fi, s, f"{name} returns its node", f"{name} returns {show(t)[:100]}: an untyped expression is not passed through structurally unchanged", "return node / t_node", show(t))
        if any(p.kind != "return" for p, _ in fa.cfg.exit.pred):
            run.fail("C10.R2", fi, fi.node, f"a path of {name} returns None: the expression is deleted from the lambda")
    run.floor("C10.R2", n_v, 11, "type_transformer.visit_* methods")

    # ---------------- R3
    vc = tt.methods.get("visit_Call")
    if vc is None:
        raise AnalysisError("anchor vanished: type_transformer.visit_Call")
    from ..lib import view as _view_vc

    vc = _view_vc(m, vc, keep=("process_method_call", "process_function_call", "process_parameterized_method_call", "process_method_callbacks"))
    fvc = ctx.analysis(vc)
    from ..lib import call_events

    pcs = [e for e in call_events(ctx, vc, lambda nm: nm == "process_parameterized_method_call") if len(e.args) >= 2]
    run.floor("C10.R3", len(pcs), 1, "parameterized-call sites")
    for e in pcs:
        fx = e.facts(ctx)
        tyt = e.args[1]
        ok = any(isinstance(a, ast.Compare) and len(a.ops) == 1 and fx._term(a.left) == tyt and fx._term(a.comparators[0]) == ("global", "typing.Any") and ((isinstance(a.ops[0], (ast.IsNot, ast.NotEq)) and pol) or (isinstance(a.ops[0], (ast.Is, ast.Eq)) and not pol)) for a, pol in fx.atoms)
        run.check(ok, "C10.R3", vc, stmt_of(e.call) if e.owner is vc else vc.node, "property lookup skipped when the object's type is Any", "obj.attr[params](args) on an object of unknown type reaches getattr(<type>, attr) with type Any: AttributeError instead of passing the call through (a test 'is not None' on lookup_type's result is vacuous - it never returns None)", "if found_type is not Any")
    check_dict_typing(run, ctx, m, tt, "C10.R3")
    # every path of visit_Dict still returns the node (R2 covers), and the dataclass is only *recorded*
    # ---------------- R4
    eff = effects_for(m)
    os_cls = m.find_class("ObjectStream", in_module="func_adl.object_stream")
    roots = [os_cls.methods[n] for n in ("Select", "SelectMany", "Where") if n in os_cls.methods]
    if len(roots) != 3:
        raise AnalysisError("anchor vanished: ObjectStream.Select/SelectMany/Where")
    reach = reachable_from(eff, roots)
    run.notes["reachable_functions"] = len(reach)
    run.floor("C10.R4", len(reach), 60, "functions reachable from the three operators")
    n_raise = n_assert = 0
    # an enumerated assert keeps its status when the code around it is moved into a private helper that only the
    # enumerated function's unit calls
    from ..lib import call_sites_of, unit

    inherited = {}
    for q_, why_ in list(ASSERT_WHITELIST.items()):
        F = m.funcs.get(q_) or next((f for f in m.funcs.values() if f.qual.split(":")[1] == q_.split(":")[1]), None)
        if F is None:
            continue
        u_ = unit(m, F)
        for g_ in u_:
            if g_ is not F and all(any(c_ is x for x in u_) for c_, _call, _sk in call_sites_of(m, g_)):
                inherited[g_.qual] = why_ + f" (moved out of {F.name})"
    def _judge_assert(fa, fi, n):
        """why the assert cannot fail for a valid expression (None when no reason is known)"""
        t = n.test
        kind_inv = isinstance(t, ast.Call) and isinstance(t.func, ast.Name) and t.func.id == "isinstance" and len(t.args) == 2 and ast.unparse(t.args[1]).startswith("ast.") and isinstance(t.args[0], (ast.Name, ast.Attribute))
        if kind_inv:
            st = strip_sites(fa.term_of(t.args[0])) if fa.cfg.has_node(t) else ("top", "?")
            # the asserted value is the result of visiting / a callback / a constructor: internal invariant
            if st[0] in ("gvisit", "visit", "tvisit", "new", "app", "index", "phi", "attr", "upd", "ifexp"):
                return "node-kind invariant of an internal value"
            # already established on every path to the assert (e.g. by the guard at the helper's only call site): cannot fail
            if fa.cfg.has_node(n):
                cls_names = {Facts(fa, n)._cls_name(c_) for c_ in (t.args[1].elts if isinstance(t.args[1], ast.Tuple) else [t.args[1]])}
                if Facts(fa, n).isinstance_of(st, cls_names):
                    return "already known where it is made"
        wl = ASSERT_WHITELIST.get(fi.qual) or _BY_PATH.get(fi.qual.split(":")[1]) or inherited.get(fi.qual)
        if wl is None and isinstance(t, ast.Compare) and len(t.ops) == 1 and isinstance(t.ops[0], ast.IsNot) and isinstance(t.comparators[0], ast.Constant) and t.comparators[0].value is None and isinstance(t.left, ast.Attribute) and isinstance(t.left.value, ast.Name) and fi.cls is not None and fi.pos_params and t.left.value.id == fi.pos_params[0]:
            wl = "bookkeeping invariant of the object's own state (self.<attr> is not None)"
        if wl is None and isinstance(t, ast.Compare) and len(t.ops) == 1 and isinstance(t.ops[0], ast.IsNot) and isinstance(t.comparators[0], ast.Constant) and t.comparators[0].value is None and isinstance(t.left, ast.Attribute) and isinstance(t.left.value, ast.Name) and fa.cfg.has_node(t.left.value):
            # the same about a worker object this function has just made (a visitor it constructed and ran)
            ot_ = strip_sites(fa.term_of(t.left.value))
            ot_ = ot_[1] if ot_[0] == "upd" else ot_
            from ..model import ClassInfo as _CI

            if ot_[0] == "app" and ot_[1][0] == "global" and isinstance(m.lookup_target(ot_[1][1]), _CI):
                wl = "bookkeeping invariant of a worker object made in this function (<obj>.<attr> is not None)"
        if wl is None and isinstance(t, ast.Compare) and len(t.ops) == 1 and isinstance(t.ops[0], ast.IsNot) and isinstance(t.comparators[0], ast.Constant) and t.comparators[0].value is None and isinstance(t.left, ast.Name):
            # a local that is not None on every path to the assert (read in the function's view, where helper objects
            # are taken apart): the assert restates what the code before it established
            from ..lib import nonnull_at, view as _view5

            for g_ in (fi, _view5(m, fi)):
                ga = fa if g_ is fi else ctx.analysis(g_)
                twins = [x_ for x_ in own_nodes(g_) if isinstance(x_, ast.Assert) and ast.unparse(x_) == ast.unparse(n) and ga.cfg.has_node(x_)]
                if twins and all(t.left.id in nonnull_at(ga)[ga.cfg.node_of(x_)] for x_ in twins):
                    return "not None on every path to the assert"
        return f"enumerated: {wl}" if wl is not None else None

    for fi in sorted(reach, key=lambda f: f.qual):
        fa = None
        for n in own_nodes(fi):
            if isinstance(n, ast.Raise):
                n_raise += 1
                if n.exc is None:
                    run.ok("C10.R4", fi, "re-raise")
                    continue
                exc = n.exc.func if isinstance(n.exc, ast.Call) else n.exc
                nm = ast.unparse(exc)
                if isinstance(n.exc, ast.Call) and isinstance(exc, ast.Name) and isinstance(m.lookup_target(m.resolve_dotted(fi.module, fi, exc.id)), FuncInfo):
                    # an exception built by a package helper: the type is what the helper constructs
                    fa = fa or ctx.analysis(fi)
                    et = strip_sites(fa.term_of(n.exc)) if fa.cfg.has_node(n.exc) else ("top", "?")
                    if et[0] == "app" and et[1][0] == "global" and et[1][1].startswith("builtins."):
                        nm = et[1][1].split(".")[-1]
                _check_message_total(run, m, fi, n)
                wl = RAISE_WHITELIST.get((fi.qual, nm))
                run.check(nm == "ValueError" or wl is not None, "C10.R4", fi, n, f"raise {nm}" + (f" (enumerated: {wl})" if wl else " is a designed ValueError"), f"{fi.qual.split(':')[1]} raises {nm} on the operators' lambda pipeline: refusals must be ValueError", "ValueError")
            elif isinstance(n, ast.Assert):
                n_assert += 1
                fa = fa or ctx.analysis(fi)
                why = _judge_assert(fa, fi, n)
                if why is None and fi.is_private:
                    # a private checking helper (assert isinstance(node, kind); return node): judged where it is used -
                    # in the view of each caller, which has the helper's statements in place of the call
                    from ..lib import view as _view4

                    sites_ = call_sites_of(m, fi)
                    ok_sites = bool(sites_)
                    for caller_, _call, _sk in sites_:
                        cv = _view4(m, caller_)
                        if cv is caller_ or any(isinstance(c_.func, (ast.Name, ast.Attribute)) and (c_.func.id if isinstance(c_.func, ast.Name) else c_.func.attr) == fi.name for c_ in calls_in(cv)):
                            ok_sites = False
                            break
                        had = [ast.unparse(x_) for x_ in own_nodes(caller_) if isinstance(x_, ast.Assert)]
                        cfa = ctx.analysis(cv)
                        for x_ in own_nodes(cv):
                            if isinstance(x_, ast.Assert):
                                if ast.unparse(x_) in had:
                                    had.remove(ast.unparse(x_))
                                    continue
                                if _judge_assert(cfa, cv, x_) is None:
                                    ok_sites = False
                    if ok_sites:
                        why = f"checking helper, judged at its {len(sites_)} call sites"
                t = n.test
                run.check(why is not None, "C10.R4", fi, n, f"assert {ast.unparse(t)[:50]} ({why})", f"assert {ast.unparse(t)[:80]} on the operators' lambda pipeline is not an enumerated internal invariant: a valid expression may end in AssertionError instead of a designed ValueError")
    # an assert that moved into a private checking helper is made once per call of that helper
    for g_ in reach:
        if g_.is_private and any(isinstance(x_, ast.Assert) for x_ in own_nodes(g_)):
            n_assert += max(0, sum(1 for c_, _call, _sk in call_sites_of(m, g_) if any(c_ is r_ for r_ in reach)) - 1)
    run.floor("C10.R4", n_assert, 15, "asserts on the pipeline")
    # no bare `except` that turns errors into something else than ValueError
    for fi in reach:
        for n in own_nodes(fi):
            if isinstance(n, ast.ExceptHandler):
                rs = [x for x in ast.walk(n) if isinstance(x, ast.Raise) and x.exc is not None]
                for r in rs:
                    exc = r.exc.func if isinstance(r.exc, ast.Call) else r.exc
                    nm = ast.unparse(exc)
                    run.check(nm == "ValueError" or (fi.qual, nm) in RAISE_WHITELIST, "C10.R4", fi, r, "exceptions are re-raised as ValueError (or enumerated)", f"handler re-raises {nm}")

    # ---------------- R6: the designed refusals of the type follower fire only for the designed cases
    run.rule("C10.R6", "refusals in visit_Subscript are confined to tuple literals (constant, in-range index) and dictionary/dataclass keys; visit_IfExp refuses only incompatible branch types")
    vs = tt.methods.get("visit_Subscript")
    if vs is None:
        raise AnalysisError("anchor vanished: type_transformer.visit_Subscript")
    from ..lib import view as _view6

    vs = _view6(m, vs)  # the refusals may sit in private _require_ / _check_ helpers
    fvs = ctx.analysis(vs)
    V = ("gvisit", ("param", vs.pos_params[1]))
    n_r = 0
    for n in own_nodes(vs):
        if isinstance(n, ast.Raise):
            n_r += 1
            fx = Facts(fvs, n)
            tup = fx.isinstance_of(("attr", V, "value"), {"ast.Tuple"})
            dc = any(pol and isinstance(a, ast.Call) and isinstance(a.func, ast.Name) and a.func.id == "is_dataclass" for a, pol in fx.atoms)
            run.check(tup or dc, "C10.R6", vs, n, "refusal applies to a tuple literal or to a dictionary/dataclass value only", "a refusal in visit_Subscript is reachable for values other than tuple literals and dictionaries (e.g. list literals, arbitrary sequences): a valid expression such as [a, b][i] is refused instead of being passed through", "isinstance(t_node.value, ast.Tuple)")
    run.floor("C10.R6", n_r, 3, "refusals in visit_Subscript")
    # the tuple-literal element is read only for an index known to be in range (else the designed ValueError): the exact bound
    from .c18 import _bound_fact

    elts_t = ("attr", ("attr", V, "value"), "elts")
    n_idx = 0
    for n in own_nodes(vs):
        if isinstance(n, ast.Subscript) and isinstance(n.ctx, ast.Load) and fvs.cfg.has_node(n) and strip_sites(fvs.term_of(n.value)) == elts_t:
            n_idx += 1
            idx_t = strip_sites(fvs.term_of(n.slice))
            ok_b = any(_bound_fact(fvs, a, pol, idx_t, elts_t) for a, pol in Facts(fvs, n).atoms)
            run.check(ok_b, "C10.R6", vs, stmt_of(n), "tuple element read only for an index below len(elts)", f"{ast.unparse(n)} is evaluated without the fact index < len(elts) (the refusal's bound is off by one or missing): an index equal to the tuple's length escapes as IndexError instead of the designed ValueError", "if len(elts) <= index: raise ValueError")
    run.floor("C10.R6", n_idx, 1, "reads of a tuple literal's element by constant index")

    # ---------------- R7: names bound by the lambda itself are never replaced by captured values
    run.rule("C10.R7", "capture rewriting leaves every name bound by an enclosing lambda / comprehension alone (all frames consulted)")
    from .c04 import check_binders

    check_binders(run, TermCtx(m, max_depth=2), m, m.find_class("_rewrite_captured_vars", in_module="func_adl.util_ast"), "C10.R7")

    # ---------------- R8: lambda source text is parsed as given
    run.rule("C10.R9", "remap_from_lambda hands back the lambda with its own arguments object (defaults, *args, **kw, keyword-only parameters untouched) and the followed body")
    _check_lambda_rebuilt(run, m, mod)
    run.rule("C10.R10", "get_method_and_class answers 'no method' for the unknown type by identity (class_object is Any), before any MRO walk")
    _check_any_guard(run, m)
    # which filters Where accepts, and which conditionals are refused, is decided by the types the node rules record
    check_refusals_propagate(run, m, "C10.R12")
    run.rule("C10.R13", "the operators emit the lambda that came back from the pipeline, in the designed stage order (C01.R1-R3 re-evaluated)")
    from ..report import Relabel as _Rl
    from .c01 import check_plumbing as _plumb

    _plumb(_Rl(run, "C10.R13"), m)
    run.rule("C10.R11", "the node type rules hold (C08.R1 re-evaluated): a comparison or boolean combination is typed bool whatever its operands, arithmetic is never typed bool - otherwise Where refuses a legal filter or accepts a non-boolean one, and visit_IfExp's refusal changes")
    from ..report import run_stage

    run_stage(run, "c08", only={"C08.R1"})
    run.rule("C10.R8", "the string form of a lambda is parsed as given (only surrounding whitespace stripped): no re-tokenising / whitespace normalisation that would alter string constants")
    from ..lib import view as _view

    pa = _view(m, m.find_func("parse_as_ast", in_module="func_adl.util_ast"))
    n_p = 0
    from ..lib import call_events

    srcp = ("param", pa.pos_params[0])
    for ev in call_events(TermCtx(m, max_depth=1, opaque={"_parse_source_for_lambda"}), pa, lambda nm: nm == "parse", depth=2):
        if not ev.args:
            continue
        t = ev.args[0]
        if not contains(t, lambda s_: s_ == srcp):
            continue
        if contains(t, lambda s_: s_[0] == "global" and (s_[1].startswith("inspect.") or s_[1].startswith("tokenize."))):
            continue  # the callable path: source recovered from the file, judged under C03
        n_p += 1
        ok = t == srcp or (t[0] == "app" and t[1][0] == "attr" and t[1][2] in ("strip", "lstrip", "rstrip") and t[1][1] == srcp and not t[2])
        run.check(ok, "C10.R8", ev.owner, stmt_of(ev.call), "source string parsed unchanged (strip only)", f"the lambda's source text is transformed before parsing ({show(t)[:100]}): whitespace inside string constants, keys and keyword values of the lambda is altered, so the emitted lambda differs from the one supplied", "ast.parse(ast_source.strip())", show(t))
    run.floor("C10.R8", n_p, 1, "parse of the lambda's source string")

    # ---------------- R5
    check_env_merge(run, m, "C10.R5")
    # Where's designed refusal exists (shared with C08.R2) and the IfExp / tuple-index / dict-key refusals are ValueErrors: R4 covers them


def _check_lambda_rebuilt(run: Run, m, mod: str) -> None:
    rl = m.find_func("remap_from_lambda", in_module=mod)
    ctx = TermCtx(m, max_depth=1, opaque={"remap_by_types", "lambda_build"})
    fa = ctx.analysis(rl)
    lp = ("param", rl.pos_params[1])
    n = 0
    for s_, n_ in fa.returns():
        t = strip_sites(fa.term_of(s_.value, n_))
        if t[0] != "tuple" or len(t[1]) != 3:
            run.fail("C10.R9", rl, s_, f"remap_from_lambda returns {show(t)[:100]}, expected (stream, lambda, type)")
            continue
        n += 1
        lam = t[1][1]
        d = dict(lam[2]) if lam[0] == "new" and lam[1] == "Lambda" else {}
        ok_args = d.get("args") == ("attr", lp, "args")
        body = d.get("body")
        ok_body = body is not None and body[0] == "index" and body[2] == 1 and body[1][0] == "app" and body[1][1][0] == "global" and body[1][1][1].endswith("remap_by_types")
        run.check(ok_args, "C10.R9", rl, s_, "the emitted lambda keeps the supplied lambda's arguments object", f"the emitted lambda is built as {show(lam)[:120]}: its parameter list is not the supplied lambda's own `args` - defaults, *args / **kw and keyword-only parameters of the user's lambda are dropped or rebuilt (lambda x=1: x.a is emitted as lambda x: x.a)", "ast.Lambda(l_func.args, new_body)", show(lam)[:300], key="emitted lambda does not keep l_func.args")
        run.check(ok_body, "C10.R9", rl, s_, "the emitted lambda's body is the followed body", f"the emitted lambda's body is {show(body)[:100] if body else '?'}")
    run.floor("C10.R9", n, 1, "returns of remap_from_lambda")


def _check_any_guard(run: Run, m) -> None:
    gm = m.find_func("get_method_and_class", in_module="func_adl.util_types")
    ctx = TermCtx(m, max_depth=1)
    fa = ctx.analysis(gm)
    cp = ("param", gm.pos_params[0])
    # the unknown type is answered first: a `return None` under `class_object is Any` (identity, on the parameter as it came
    # in) whose test dominates every walk over an MRO / getattr on the class
    from ..model import ancestors as _anc

    gates = []
    for r_, _n in fa.returns():
        if not (r_.value is None or (isinstance(r_.value, ast.Constant) and r_.value.value is None)):
            continue
        for a, pol in Facts(fa, r_).atoms:
            if isinstance(a, ast.Compare) and len(a.ops) == 1 and isinstance(a.ops[0], (ast.Is, ast.IsNot)) and fa.cfg.has_node(a.left):
                l_, r2 = strip_sites(fa.term_of(a.left)), strip_sites(fa.term_of(a.comparators[0]))
                if {l_, r2} == {cp, ("global", "typing.Any")} and (isinstance(a.ops[0], ast.Is) == pol):
                    g_ = next((x for x in _anc(r_) if isinstance(x, ast.If)), None)
                    if g_ is not None:
                        gates.append(g_)
    walks = [c for c in calls_in(gm) if (ast.unparse(c.func) in ("inspect.getmro", "getmro") or (isinstance(c.func, ast.Name) and c.func.id == "getattr")) and fa.cfg.has_node(c)]
    n = 0
    for c in walks:
        n += 1
        ok = any(fa.cfg.dominates(fa.cfg.node_of(g_), fa.cfg.node_of(c)) and not any(c is y for b_ in g_.body for y in ast.walk(b_)) for g_ in gates)
        run.check(ok, "C10.R10", gm, stmt_of(c), "the MRO of the class is consulted only after typing.Any was answered with None (identity test)", "get_method_and_class walks the MRO without having excluded typing.Any by identity: since Python 3.11 Any is a class whose MRO ends in object, so on an untyped stream every method name object defines (__eq__, __init__, ..) counts as found and the call is normalised or refused", "if class_object is Any: return None", key="MRO walk not excluded for typing.Any")
    run.floor("C10.R10", n, 1, "MRO walks in get_method_and_class")


def check_dict_typing(run: Run, ctx, m, tt, rule: str) -> None:
    """visit_Dict of the type follower: a dictionary literal gets a dataclass type exactly when its keys can be field
    names - unique identifier strings that are not Python keywords (keyword.iskeyword). A weaker guard feeds
    make_dataclass something it rejects (an internal error, C10); a stronger or different one leaves a perfectly good
    dictionary untyped, and calls reached through its fields are no longer normalised or followed (C07, C08)."""
    from ..lib import unit

    vd = tt.methods.get("visit_Dict")
    if vd is None:
        raise AnalysisError("anchor vanished: type_transformer.visit_Dict")
    fvd = ctx.analysis(vd)
    md_sites = [(f_, c) for f_ in unit(m, vd) for c in calls_in(f_) if isinstance(c.func, ast.Name) and c.func.id == "make_dataclass"]
    run.floor(rule, len(md_sites), 1, "make_dataclass sites")
    for f_, c in md_sites:
        fx = Facts(ctx.analysis(f_), c)
        if f_ is not vd:
            # the guard may sit at the call of the helper inside visit_Dict
            for c2 in calls_in(vd):
                if isinstance(c2.func, (ast.Name, ast.Attribute)) and ast.unparse(c2.func).split(".")[-1] == f_.name:
                    fx.atoms += Facts(fvd, c2).atoms
        ident = kw = uniq = isstr = False
        extra = []
        for a, pol in fx.atoms:
            if not pol:
                continue
            for x in ast.walk(a):
                if isinstance(x, ast.Call) and _under_any(x, a):
                    continue  # true of *some* key only: establishes nothing about the keys handed to make_dataclass
                if isinstance(x, ast.Call) and isinstance(x.func, ast.Attribute) and x.func.attr == "isidentifier" and not _under_not(x, a):
                    ident = True
                if isinstance(x, ast.Call) and ast.unparse(x.func).split(".")[-1] == "iskeyword" and _under_not(x, a):
                    kw = True
                if isinstance(x, ast.Call) and isinstance(x.func, ast.Name) and x.func.id == "isinstance" and len(x.args) == 2 and ast.unparse(x.args[1]) == "str":
                    isstr = True
                if isinstance(x, ast.Compare) and isinstance(x.ops[0], ast.Eq) and "len(set(" in ast.unparse(x):
                    uniq = True
            # per-key conditions: all(<conjunction> for n in names) - each conjunct must be one of the designed three
            if isinstance(a, ast.Call) and isinstance(a.func, ast.Name) and a.func.id == "all" and len(a.args) == 1 and isinstance(a.args[0], (ast.GeneratorExp, ast.ListComp)):
                g = a.args[0]
                conj = g.elt.values if isinstance(g.elt, ast.BoolOp) and isinstance(g.elt.op, ast.And) else [g.elt]
                conj = list(conj) + [i_ for gen in g.generators for i_ in gen.ifs]
                # a conjunct that is a call of a package predicate whose body is `return a and b and c`: its conjuncts
                expanded = []
                for cnd in conj:
                    tgt_ = m.lookup_target(m.resolve_dotted(f_.module, f_, cnd.func.id)) if isinstance(cnd, ast.Call) and isinstance(cnd.func, ast.Name) else None
                    body_ = [b_ for b_ in tgt_.node.body if not (isinstance(b_, ast.Expr) and isinstance(b_.value, ast.Constant))] if isinstance(tgt_, FuncInfo) and not isinstance(tgt_.node, ast.Lambda) else []
                    if len(body_) == 1 and isinstance(body_[0], ast.Return) and body_[0].value is not None and len(tgt_.pos_params) == len(cnd.args) == 1:
                        rv_ = body_[0].value
                        parts_ = rv_.values if isinstance(rv_, ast.BoolOp) and isinstance(rv_.op, ast.And) else [rv_]
                        expanded += list(parts_)
                        for x in ast.walk(rv_):
                            if isinstance(x, ast.Call) and isinstance(x.func, ast.Attribute) and x.func.attr == "isidentifier" and not _under_not_in(x, rv_):
                                ident = True
                            if isinstance(x, ast.Call) and ast.unparse(x.func).split(".")[-1] == "iskeyword" and _under_not_in(x, rv_):
                                kw = True
                            if isinstance(x, ast.Call) and isinstance(x.func, ast.Name) and x.func.id == "isinstance" and len(x.args) == 2 and ast.unparse(x.args[1]) == "str":
                                isstr = True
                    else:
                        expanded.append(cnd)
                conj = expanded
                for cnd in conj:
                    txt = ast.unparse(cnd)
                    neg = isinstance(cnd, ast.UnaryOp) and isinstance(cnd.op, ast.Not)
                    inner = cnd.operand if neg else cnd
                    call = inner if isinstance(inner, ast.Call) else None
                    fn = ast.unparse(call.func).split(".")[-1] if call is not None else ""
                    designed = (not neg and fn in ("isinstance", "isidentifier")) or (neg and fn == "iskeyword")
                    if not designed:
                        extra.append(txt[:60])
        run.check(isstr and ident, rule, vd, stmt_of(c), "make_dataclass only when every key is an identifier string", "make_dataclass is fed dictionary keys that are not known to be identifier strings: {'a b': ..} or {1: ..} raises TypeError")
        run.check(kw, rule, vd, stmt_of(c), "make_dataclass only when no key is a Python keyword", "make_dataclass is fed keys that may be Python keywords: {'class': ..} / {'pass': ..} raises TypeError ('Field names must not be keywords') - an internal error for a valid expression")
        run.check(uniq, rule, vd, stmt_of(c), "make_dataclass only when keys are unique", "make_dataclass is fed possibly repeated keys (TypeError: field name duplicated)")
        run.check(not extra, rule, vd, stmt_of(c), "a dictionary literal is typed whenever its keys can be dataclass fields", f"a dictionary literal is typed only when, in addition, every key satisfies {' and '.join(extra)}: dictionaries with other perfectly good field names (e.g. 'type', 'match') stay untyped, so calls reached through their fields are neither normalised nor followed", "isinstance(n, str) and n.isidentifier() and not keyword.iskeyword(n)", key="dictionary typing has an undesigned condition on the keys")


def _under_any(x: ast.AST, root: ast.AST) -> bool:
    """x is evaluated per element inside any(..) / a loop-free existential: it holds for some element, not for all"""
    from ..model import ancestors

    for a in ancestors(x):
        if isinstance(a, ast.Call) and isinstance(a.func, ast.Name) and a.func.id == "any" and a is not x:
            return True
        if a is root:
            break
    return False


def _under_not_in(x: ast.AST, root: ast.AST) -> bool:
    """x sits under an odd number of `not` inside root (parents computed locally: root may belong to another function)"""
    par = {}
    for n in ast.walk(root):
        for c in ast.iter_child_nodes(n):
            par[id(c)] = n
    k = 0
    cur = x
    while id(cur) in par:
        cur = par[id(cur)]
        if isinstance(cur, ast.UnaryOp) and isinstance(cur.op, ast.Not):
            k += 1
    return k % 2 == 1


def _under_not(x: ast.AST, root: ast.AST) -> bool:
    from ..model import ancestors

    for a in ancestors(x):
        if isinstance(a, ast.UnaryOp) and isinstance(a.op, ast.Not):
            return True
        if a is root:
            break
    return False


# handlers that may catch a designed refusal (ValueError) without handing one on: one named construct each
SWALLOWING_HANDLERS = {
    ("func_adl.util_ast", "safe_parse_wrapper"): "recovering the source of a captured helper is an *attempt*: whatever goes wrong, the helper stays a call by name (C05.R9)",
}
CATCH_ALL = {"Exception", "BaseException", "ValueError"}


def check_refusals_propagate(run: Run, m, rule: str, modules=("func_adl.type_based_replacement", "func_adl.object_stream", "func_adl.util_ast", "func_adl.util_types", "func_adl.ast.syntatic_sugar", "func_adl.ast.function_simplifier", "func_adl.ast.meta_data", "func_adl.event_dataset")) -> None:
    """A designed refusal is a ValueError that reaches the user (FuncADLIndexError in the simplifier; the executor's own
    exception in value()). An `except` clause that can catch it - ValueError, Exception, BaseException, a bare except, a
    tuple with one of them - and does not end in a `raise` on every path swallows the refusal: the call goes on with a
    fallback (`continue`, `return None`) and emits a query where the property demands an error. The handlers that do this
    by design are enumerated, one named construct each; inside their `try` an explicit `raise` is dead code (the refusal
    it spells out never leaves the function)."""
    run.rule(rule, "no except clause swallows a designed refusal: handlers that can catch ValueError / Exception re-raise on every path, but for the enumerated 'attempt' of the helper-source recovery")
    n = 0
    for fi in m.funcs.values():
        if fi.module.name not in modules:
            continue
        for t in [x for x in own_nodes(fi) if isinstance(x, ast.Try)]:
            for h in t.handlers:
                n += 1
                types = [ast.unparse(e_).split(".")[-1] for e_ in (h.type.elts if isinstance(h.type, ast.Tuple) else [h.type])] if h.type is not None else ["<bare>"]
                wide = h.type is None or any(x in CATCH_ALL or x == "FuncADLIndexError" for x in types)
                if not wide:
                    run.ok(rule, fi, f"handler for {', '.join(types)} cannot catch a designed refusal")
                    continue
                reraises = _always_raises(h.body)
                enumerated = SWALLOWING_HANDLERS.get((fi.module.name, fi.name))
                if enumerated is None and fi.module.name == "func_adl.util_ast" and any(isinstance(c_, ast.Call) and ast.unparse(c_.func).split(".")[-1] == "_parse_source_for_lambda" for st_ in t.body for c_ in ast.walk(st_)):
                    # the same attempt under another name (the construct is known by what it guards, not by what it is called)
                    enumerated = SWALLOWING_HANDLERS[("func_adl.util_ast", "safe_parse_wrapper")]
                if reraises:
                    # a conversion: what is raised instead must itself be a designed refusal type
                    conv = [r_ for r_ in ast.walk(ast.Module(body=h.body, type_ignores=[])) if isinstance(r_, ast.Raise) and r_.exc is not None]
                    bad_conv = [ast.unparse(r_.exc)[:40] for r_ in conv if not ((isinstance(r_.exc, ast.Call) and isinstance(r_.exc.func, ast.Name) and r_.exc.func.id in ("ValueError", "FuncADLIndexError")) or (isinstance(r_.exc, ast.Name) and h.name is not None and r_.exc.id == h.name))]
                    run.check(not bad_conv, rule, fi, h, "a handler that converts an exception raises a designed refusal type (or the exception it caught)", f"{fi.name} catches {', '.join(types)} and raises {bad_conv[0] if bad_conv else ''} instead: the designed ValueError reaches the user as another exception type", "raise ValueError(..) from e / raise", key=f"refusal converted in {fi.name}")
                    continue
                if enumerated is not None:
                    run.ok(rule, fi, f"enumerated swallowing handler ({enumerated})")
                    dead = [r_ for st_ in t.body for r_ in ast.walk(st_) if isinstance(r_, ast.Raise) and not _inside_nested_def(r_, t)]
                    for r_ in dead:
                        run.fail(rule, fi, r_, f"{fi.name} raises {ast.unparse(r_.exc)[:60] if r_.exc else 'again'} inside the very `try` whose handler catches {', '.join(types)} and carries on: the refusal never leaves the function - the value it was meant to refuse stays in the query (as a call by name, a bare name) and no ValueError reaches the user", "raise outside the try (or re-raise it in the handler)", key=f"refusal raised inside the swallowing try of {fi.name}")
                    continue
                run.fail(rule, fi, h, f"{fi.name} catches {', '.join(types)} and carries on ({ast.unparse(h.body[-1])[:40] if h.body else 'pass'}): a designed refusal raised below it - a missing required argument, a non-boolean filter, an incompatible conditional, a constant that cannot be transported - is swallowed, and a query is emitted where the property demands a ValueError (in value(): the executor's own exception no longer reaches the caller)", "let the ValueError propagate (catch the narrow lookup error you mean: KeyError, AttributeError, IndexError)", key=f"designed refusal swallowed in {fi.name}")
    run.notes["except_handlers_seen"] = n


def _always_raises(body) -> bool:
    if not body:
        return False
    last = body[-1]
    if isinstance(last, ast.Raise):
        return True
    if isinstance(last, ast.If) and last.orelse:
        return _always_raises(last.body) and _always_raises(last.orelse)
    return False


def _inside_nested_def(n: ast.AST, stop: ast.AST) -> bool:
    from ..model import ancestors

    for a in ancestors(n):
        if a is stop:
            return False
        if isinstance(a, (ast.FunctionDef, ast.AsyncFunctionDef, ast.Lambda)):
            return True
    return False
