"""C01 - a fluent query means what the user's Python chain computes (plumbing + every stage's necessary conditions)."""
from __future__ import annotations

import ast
import importlib

from ..lib import calls_in, own_nodes, stmt_of
from ..model import AnalysisError
from ..report import Run
from ..spec import canon, drop_sites
from ..terms import TermCtx, contains, show, strip_sites, subst, unphi_terms

EXPLANATION = (
    "the plumbing every chain goes through: (R1) each of Select / SelectMany / Where returns clone_with_new_ast(self, Call(Name(<own "
    "name>), [<stream returned by type following>.query_ast, <processed lambda>]), <item type>) where the processed lambda is "
    "remap_from_lambda(self, resolve_syntatic_sugar(parse_as_ast(arg, <own name>)), known_types)[1] - own name, source first, lambda "
    "second, stages in the order recovery/capture -> sugar -> type following -> constant gate -> construction (R2); (R3) the three "
    "operators are identical up to name, item-type expression and Where's boolean gate; (R4) every result-format terminal and MetaData "
    "wrap the stream's own AST as first argument with as_ast(value) arguments in the documented order, and the snake-case aliases are the "
    "same functions; (R5) func_adl.ast exports the three backend passes that the stage rules analyse; (R6) every necessary condition of "
    "the stages the chain passes through - capture (C04), helper inlining (C05), sugar (C06), call normalisation (C07), method-to-function "
    "form (C17), aggregate lowering (C19), chained-call simplification (C02) - holds (their rule sets are re-evaluated here)."
)
NOT_DECIDED = "equality of results on datasets: a statement about evaluating two programs on all data, which no static argument here bounds; only the per-stage necessary conditions are decided."

STAGES = ["c04", "c05", "c06", "c07", "c17", "c19", "c02"]
TERMINALS = {
    "AsPandasDF": ("ResultPandasDF", ["columns"]),
    "AsROOTTTree": ("ResultTTree", ["columns", "treename", "filename"]),
    "AsParquetFiles": ("ResultParquet", ["columns", "filename"]),
    "AsAwkwardArray": ("ResultAwkwardArray", ["columns"]),
}
ALIASES = {"as_pandas": "AsPandasDF", "as_ROOT_tree": "AsROOTTTree", "as_parquet": "AsParquetFiles", "as_awkward": "AsAwkwardArray"}


def check_plumbing(run: Run, m=None, relabel=None) -> None:
    """R1-R3: what every operator call goes through (shared with the stage properties that rely on it)"""
    m = m or run.model
    ctx = TermCtx(m, max_depth=2, opaque={"parse_as_ast", "resolve_syntatic_sugar", "remap_from_lambda", "check_ast", "as_ast", "unwrap_iterable", "clone_with_new_ast"})
    os_cls = m.find_class("ObjectStream", in_module="func_adl.object_stream")
    canon_terms = {}
    from ..lib import view

    for op in ("Select", "SelectMany", "Where"):
        fi = view(m, os_cls.methods.get(op))
        if fi is None:
            raise AnalysisError(f"anchor vanished: ObjectStream.{op}")
        fa = ctx.analysis(fi)
        selfp, argp, ktp = (("param", p) for p in fi.pos_params[:3])
        rets = fa.returns()
        run.check(len(rets) == 1, "C01.R1", fi, fi.node, f"{op} has one successful return", f"{len(rets)} returns in {op}")
        for s, n in rets:
            t = strip_sites(fa.term_of(s.value, n))
            parsed = ("app", ("global", "func_adl.util_ast.parse_as_ast"), (argp, ("const", op)), ())
            sugar = ("app", ("global", "func_adl.ast.syntatic_sugar.resolve_syntatic_sugar"), (parsed,), ())
            remap = ("app", ("global", "func_adl.type_based_replacement.remap_from_lambda"), (selfp, sugar, ktp), ())
            node = ("new", "Call", (("func", ("new", "Name", (("id", ("const", op)), ("ctx", ("new", "Load", ()))))), ("args", ("list", (("attr", ("index", remap, 0), "_q_ast"), ("index", remap, 1)))), ("keywords", ("list", ()))))
            ok = t[0] == "app" and t[1][0] == "global" and t[1][1].endswith("clone_with_new_ast") and len(t[2]) == 3 and t[2][0] == selfp
            got_node = t[2][1] if ok else None
            run.check(ok and got_node == node, "C01.R1", fi, s, f"{op} returns clone(self, {op}(<followed stream>.query_ast, <processed lambda>), type)", f"{op}: " + (_diff(got_node, node) if ok else f"returns {show(t)[:160]}"), f"clone_with_new_ast(function_call('{op}', [n_stream.query_ast, n_ast]), ..)", show(t)[:500])
            # R2: the nested call structure *is* the stage order; additionally the gate dominates construction (C13.R3 / C04.R4)
            has_chain = contains(t, lambda x: x == remap)
            run.check(has_chain, "C01.R2", fi, s, "recovery/capture -> sugar -> type following, in that order, on the operator's own argument and name", f"{op} does not feed remap_from_lambda(self, resolve_syntatic_sugar(parse_as_ast(arg, '{op}')), known_types): a stage is skipped, re-ordered, or applied to something else")
            # canonical form for sibling comparison
            c = subst(t, {("const", op): ("const", "<OP>")})
            c = _abstract_type(c)
            canon_terms[op] = drop_sites(canon(c, fi.pos_params))
    if len(canon_terms) == 3:
        same = canon_terms["Select"] == canon_terms["SelectMany"] == canon_terms["Where"]
        who = "" if same else ("Where" if canon_terms["Select"] == canon_terms["SelectMany"] else ("SelectMany" if canon_terms["Select"] == canon_terms["Where"] else "Select"))
        run.check(same, "C01.R3", os_cls.methods.get(who) if who else None, os_cls.methods[who].node if who else None, "the three operators agree up to name and item type", f"{who} differs from its two siblings in how it builds its node")
    ls = m.find_func("_local_simplification", in_module="func_adl.object_stream")
    fl = TermCtx(m, max_depth=1, opaque={"resolve_syntatic_sugar"}).analysis(ls)
    rt = strip_sites(fl.return_term())
    run.check(rt == ("app", ("global", "func_adl.ast.syntatic_sugar.resolve_syntatic_sugar"), (("param", ls.pos_params[0]),), ()), "C01.R2", ls, ls.node, "_local_simplification is resolve_syntatic_sugar", f"_local_simplification returns {show(rt)[:100]}")
    cw = os_cls.methods.get("clone_with_new_ast")
    if cw is None:
        raise AnalysisError("anchor vanished: clone_with_new_ast")
    fc = TermCtx(m, max_depth=1).analysis(cw)
    crt = strip_sites(fc.return_term())
    sp = ("param", cw.pos_params[0])
    ok = crt[0] == "upd" and crt[1] == ("app", ("global", "copy.copy"), (sp,), ()) and dict(crt[2]) == {"_q_ast": ("param", cw.pos_params[1]), "_item_type": ("param", cw.pos_params[2])}
    run.check(ok, "C01.R1", cw, cw.node, "clone_with_new_ast == copy of self with the new ast and type", f"clone_with_new_ast returns {show(crt)[:140]}", term=show(crt))

    return os_cls, ctx


def check(run: Run) -> None:
    m = run.model
    for i, d in (("R1", "operator shape"), ("R2", "stage order"), ("R3", "sibling agreement of the three operators"), ("R4", "terminals, MetaData and aliases"), ("R5", "exports of func_adl.ast"), ("R6", "stage rule sets re-evaluated (rule ids of the stage are kept)")):
        run.rule(f"C01.{i}", d)
    os_cls, ctx = check_plumbing(run, m)
    from ..lib import view

    # ---------------- R4
    for name, (res, order) in TERMINALS.items():
        fi = os_cls.methods.get(name)
        if fi is None:
            raise AnalysisError(f"anchor vanished: ObjectStream.{name}")
        fa = ctx.analysis(fi)
        selfp = ("param", fi.pos_params[0])
        from ..terms import splice_literals as _splice

        rt = _splice(strip_sites(fa.return_term()))  # [src, *map(as_ast, (a, b))] is [src, as_ast(a), as_ast(b)]
        ok = rt[0] == "app" and rt[1][0] == "global" and rt[1][1].endswith("ObjectStream") and len(rt[2]) >= 1
        node = rt[2][0] if ok else None
        d = dict(node[2]) if node and node[0] == "new" and node[1] == "Call" else {}
        fid = dict(d.get("func", ("new", "", ()))[2]).get("id") if d else None
        args = list(d.get("args", ("list", ()))[1]) if d else []
        ok_name = fid == ("const", res)
        ok_src = bool(args) and args[0] == ("attr", selfp, "_q_ast")
        ok_vals = len(args) == 1 + len(order)
        if ok_vals:
            for a, pname in zip(args[1:], order):
                want_inner = [("param", pname)] if pname != "columns" else [("param", "columns"), ("list", (("param", "columns"),))]
                ok_vals = ok_vals and a[0] == "app" and a[1][1].endswith("as_ast") and all(x in want_inner for x in unphi_terms(a[2][0])) and ("param", pname) in [y for x in unphi_terms(a[2][0]) for y in ([x] if x[0] == "param" else list(x[1]))]
        run.check(ok and ok_name and ok_src and ok_vals, "C01.R4", fi, fi.node, f"{name} == ObjectStream({res}(self._q_ast, {', '.join('as_ast(' + o + ')' for o in order)}))", f"{name} returns {show(rt)[:200]}: expected {res}(<stream ast>, {', '.join(order)}) with every value through as_ast", term=show(rt)[:400])
    md = os_cls.methods.get("MetaData")
    if md is None:
        raise AnalysisError("anchor vanished: ObjectStream.MetaData")
    fm = ctx.analysis(md)
    selfp = ("param", md.pos_params[0])
    rt = strip_sites(fm.return_term())
    ok = rt[0] == "app" and rt[1][1].endswith("clone_with_new_ast") and rt[2][0] == selfp and rt[2][2] == ("attr", selfp, "_item_type")
    node = rt[2][1] if ok else None
    d = dict(node[2]) if node and node[0] == "new" else {}
    ok = ok and dict(d.get("func", ("new", "", ()))[2]).get("id") == ("const", "MetaData") and d.get("args") == ("list", (("attr", selfp, "_q_ast"), ("app", ("global", "func_adl.util_ast.as_ast"), (("param", md.pos_params[1]),), ())))
    run.check(ok, "C01.R4", md, md.node, "MetaData == clone(self, MetaData(self._q_ast, as_ast(metadata)), same item type)", f"MetaData returns {show(rt)[:200]}", term=show(rt)[:300])
    for alias, target in ALIASES.items():
        v = os_cls.class_assigns.get(alias)
        run.check(isinstance(v, ast.Name) and v.id == target, "C01.R4", os_cls.methods[target], os_cls.node if v is None else v, f"{alias} is {target}", f"alias {alias} is not bound to {target}")

    # ---------------- R5
    mi = m.module("func_adl.ast")
    want = {"change_extension_functions_to_calls": "func_adl.ast.func_adl_ast_utils", "aggregate_node_transformer": "func_adl.ast.aggregate_shortcuts", "simplify_chained_calls": "func_adl.ast.function_simplifier"}
    for nm, src in want.items():
        run.check(mi.imports.get(nm) == f"{src}.{nm}", "C01.R5", None, None, f"func_adl.ast exports {nm} from {src}", f"func_adl.ast.{nm} is bound to {mi.imports.get(nm)}: the backend pass shipped is not the one analysed")

    # ---------------- R6: stages
    for st in STAGES:
        mod = importlib.import_module(f"sa.rules.{st}")
        sub = Run(st.upper(), m, run.tier, run.seed)
        mod.check(sub)
        for o in sub.obligations:
            o2 = dict(o)
            o2["what"] = f"[stage {st.upper()}] " + o2["what"]
            run.obligations.append(o2)
        for f in sub.findings:
            f.prop = run.prop
            if f.key() not in [x.key() for x in run.findings]:
                run.findings.append(f)
        run.functions_analysed |= sub.functions_analysed
        run.notes.setdefault("stage_obligations", {})[st.upper()] = len(sub.obligations)


def _abstract_type(t):
    """replace the third argument (item type) of clone_with_new_ast by a placeholder."""
    if t[0] == "app" and t[1][0] == "global" and t[1][1].endswith("clone_with_new_ast") and len(t[2]) == 3:
        return ("app", t[1], (t[2][0], t[2][1], ("const", "<TYPE>")), t[3])
    return t


def _diff(a, b) -> str:
    from ..fusion import _first_diff

    if a is None:
        return "no node built"
    return _first_diff(a, b) or "differs"
