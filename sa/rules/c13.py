"""C13 - Python values embedded in a query keep their exact value (util_ast.py, object_stream.py, type_based_replacement.py)."""
from __future__ import annotations

import ast

from ..lib import Facts, calls_in, own_nodes, stmt_of
from ..model import AnalysisError, FuncInfo
from ..report import Run
from ..terms import TermCtx, contains, root_of, show, strip_sites, unphi_terms, walk_all

EXPLANATION = (
    "(R1) every parser sink (ast.parse / compile / eval / exec) whose text derives from a *value* obtains that text through Python's own "
    "literal escaping (repr / !r; str() of a container uses repr for its elements), never through manual quoting, string formatting or a "
    "foreign serialiser; sinks fed from source text or identifiers are enumerated one by one; (R2) every element handed to function_call in "
    "object_stream.py is the stream's AST, the processed lambda, or as_ast(value), and declared defaults enter call sites only as "
    "ast.Constant(value=default) through as_literal, which performs no conversion; (R3) the constant gate check_ast raises ValueError for "
    "every ast.Constant whose value is not an instance of g_legal_capture_types - unconditionally, for every node - that tuple contains "
    "only immutable scalar types, and the gate dominates node construction in the three operators, applied to the very lambda that is emitted."
    " (R6) a name found in the capture snapshot is embedded whatever its value - membership, not truthiness, decides (C04.R3 re-evaluated)."
    " (R1, as of D47) the escaping function is str.__repr__ (the text of the string whatever its class), and lists, tuples and dictionaries are built from their items instead of taking the text route."
)
NOT_DECIDED = "round-trip equality for every value of every listed type through repr/ast.parse (a statement over all inputs; shortest-repr of floats is trusted stdlib)."

SINKS = {"ast.parse", "builtins.compile", "builtins.eval", "builtins.exec"}
LEGAL_TYPES = {"str", "int", "float", "bool", "complex", "bytes"}

# sinks whose text is source code / identifiers by design (one named function each, with the reason)
NON_VALUE_SINKS = {
    "func_adl.util_ast:parse_as_ast": "the str API of parse_as_ast is documented to take lambda *source text*",
    "func_adl.util_ast:_mark_ignore_name.visit_Name": "re-parses an identifier taken from an ast.Name node",
    "func_adl.util_ast:_rewrite_captured_vars.visit_Attribute": "module-provided namespace prefix + ast.unparse of a node",
    "func_adl.util_ast:_get_lambda_in_stream": "tokens of the user's own source file",
    "func_adl.util_ast:_parse_source_for_lambda": "inspect.getsource of the callable's own def",
    "func_adl.ast.aggregate_shortcuts:_generate_count_call": "fold lambda literals of the module (checked under C19.R3)",
}


def check(run: Run) -> None:
    m = run.model
    run.rule("C13.R1", "values reach ast.parse/compile/eval only through repr (str of containers allowed); other sinks are enumerated source-text sinks")
    run.rule("C13.R2", "function_call arguments in object_stream.py are stream AST / processed lambda / as_ast(value); defaults via as_literal == ast.Constant(value=p)")
    run.rule("C13.R3", "check_ast raises for every Constant whose value is not in g_legal_capture_types (immutable scalars only); gate applied to the emitted lambda, before construction")
    ctx = TermCtx(m, max_depth=2, opaque={"as_ast", "as_literal", "parse_as_ast", "remap_from_lambda", "_local_simplification", "function_call", "clone_with_new_ast"})

    # ---------------- R1
    n_sinks = 0
    # an enumerated source-text sink keeps its status when its code is moved into a private helper that nothing else calls
    from ..lib import call_sites_of, unit

    allowed = {}
    for q_, why_ in NON_VALUE_SINKS.items():
        F = m.funcs.get(q_)
        if F is None:
            continue
        u_ = unit(m, F)
        for g_ in u_:
            if g_ is F or all(any(c_ is x for x in u_) for c_, _call, _sk in call_sites_of(m, g_)):
                allowed[g_.qual] = why_
    for fi in m.funcs.values():
        fa = None
        for c in calls_in(fi):
            f = c.func
            name = None
            if isinstance(f, ast.Attribute) and isinstance(f.value, ast.Name) and f.value.id == "ast" and f.attr == "parse":
                name = "ast.parse"
            elif isinstance(f, ast.Name) and f.id in ("compile", "eval", "exec"):
                name = "builtins." + f.id
            if name is None or not c.args:
                continue
            n_sinks += 1
            fa = fa or ctx.analysis(fi)
            if not fa.cfg.has_node(c):
                continue
            t = strip_sites(fa.term_of(c.args[0]))
            if fi.qual in allowed:
                run.ok("C13.R1", fi, f"{name}: enumerated source-text sink ({allowed[fi.qual]})", show(t)[:200])
                continue
            bad = _unescaped_flows(t)
            if fi.name == "as_ast":
                _check_as_ast(run, fa, fi, c, t)
                continue
            if all(a[0] == "const" for a in unphi_terms(t)):
                run.ok("C13.R1", fi, f"{name} of a literal")
                continue
            run.check(not bad, "C13.R1", fi, stmt_of(c), f"{name}: text derived from values is escaped", f"{name} parses text built from a value without Python literal escaping ({'; '.join(bad)[:200]}): quotes, backslashes or newlines in the value alter it or are parsed as code; this sink is not in the list of source-text sinks", "repr(value)", show(t)[:300])
    run.floor("C13.R1", n_sinks, 4, "parser sinks in the package")

    # ---------------- R4: the value embedded for a captured name is the callable's own binding at the time of the call
    run.rule("C13.R4", "captured values are read from a fresh table built from the callable's closure and module globals during the operator call (shared with C04.R3/R6)")
    from ..report import Relabel
    from .c04 import check_snapshot

    from .c04 import check_attribute_fold

    check_attribute_fold(run, TermCtx(m, max_depth=2, opaque={"as_literal", "_parse_source_for_lambda"}), m, "C13.R4")
    check_snapshot(Relabel(run, "C13.R4"), TermCtx(m, max_depth=2, opaque={"as_literal", "_parse_source_for_lambda"}), m, m.find_class("_rewrite_captured_vars", in_module="func_adl.util_ast"))
    # declared defaults are embedded from the registry entry of the function: a later registration under the same name must replace it
    run.rule("C13.R5", "the registry entry a declared default is read from is the latest registration of that name (C09.R7 re-evaluated)")
    from ..report import run_stage

    run_stage(run, "c09", only={"C09.R7"})
    run.rule("C13.R6", "every name found in the capture snapshot is embedded, whatever its value (membership, not truthiness, decides): C04.R3 re-evaluated - a captured 0, False or '' must not stay a free name")
    run_stage(run, "c04", only={"C04.R3"})

    # ---------------- R2
    _check_entry_points(run, ctx, m)

    # value -> node conversion must not be memoised by value equality (1 == 1.0 == True, 0.0 == -0.0 share a slot)
    from ..lib import memoised_functions

    for mf, deco in memoised_functions(m):
        if mf.name in ("as_ast", "as_literal", "function_call") or mf.module.name == "func_adl.util_ast":
            run.fail("C13.R2", mf, mf.node, f"{mf.name} is memoised with @{deco}: values that compare equal but differ in type or sign (1, 1.0, True; 0.0, -0.0) share one cached node, so an embedded value can come back as a different type - and the cached node object is shared between queries", "no value-keyed cache on value -> AST conversion")
    run.ok("C13.R2", None, "value -> AST conversion functions are not memoised") if not any(mf.module.name == "func_adl.util_ast" for mf, _d in memoised_functions(m)) else None

    # ---------------- R3
    _check_gate(run, ctx, m)


def _unescaped_flows(t) -> list:
    """descriptions of parameter-rooted values that reach the text other than through repr()/!r."""
    out = []

    def go(x, escaped: bool, via: str):
        if not isinstance(x, tuple) or not x or not isinstance(x[0], str):
            if isinstance(x, tuple):
                for y in x:
                    go(y, escaped, via)
            return
        k = x[0]
        if k == "app" and x[1] in (("global", "builtins.repr"), ("global", "builtins.str.__repr__")):
            return  # escaped
        if k == "ifexp" and len(x) == 4:
            # (a if cond else b): the condition chooses, it does not reach the text
            go(x[2], escaped, via)
            go(x[3], escaped, via)
            return
        if k == "fstr":
            for p in x[1]:
                if p[0] == "fmt":
                    if p[2] == "r":
                        continue
                    go(p[1], False, "f-string without !r")
            return
        if k == "op" and x[1] in ("Add", "Mod"):
            for y in x[2]:
                go(y, False, "string concatenation / % formatting")
            return
        if k == "app" and x[1][0] == "attr" and x[1][2] in ("format", "join", "replace"):
            go(x[1][1], False, f".{x[1][2]}()")
            for y in x[2]:
                go(y, False, f".{x[1][2]}()")
            return
        if k == "app" and x[1][0] == "global" and x[1][1] not in ("builtins.str", "builtins.repr", "builtins.str.__repr__"):
            if any(root_of(a)[0] == "param" for a in x[2] if isinstance(a, tuple) and a):
                out.append(f"value passed through {show(x[1])}() (not Python literal escaping)")
                return
        if k == "param":
            if via:
                out.append(f"parameter {x[1]} via {via}")
            return
        for y in x[1:]:
            go(y, escaped, via)

    go(t, False, "")
    return out


STR_REPR = ("global", "builtins.str.__repr__")


def _check_as_ast(run: Run, fa, fi: FuncInfo, call: ast.Call, t) -> None:
    """as_ast(p): a str value is rendered with str.__repr__ (the text of the string, whatever class it is); the standard
    containers are built from their items (str() of a container renders items with *their* repr); everything else
    with str()."""
    p = ("param", fi.pos_params[0])
    alts = set()
    inner = t
    if inner[0] == "app" and inner[1] == ("global", "builtins.str") and len(inner[2]) == 1:
        inner = inner[2][0]
    for a in unphi_terms(inner):
        alts.add(a)
    esc = ("app", STR_REPR, (p,), ())
    via_repr = ("app", ("global", "builtins.repr"), (p,), ())
    bad = _unescaped_flows(t)
    if via_repr in alts and alts <= {p, via_repr} and not bad:
        run.fail("C13.R1", fi, stmt_of(call), "as_ast renders a str value with repr(), which asks the value's own class: a str subclass with a __repr__ of its own - every member of a `class Col(str, Enum)` - is rendered as <Col.PT: 'jet_pt'> or Tagged('x'), text that does not parse or parses as code instead of the string", "str.__repr__(p_var)", show(t)[:300], key="str subclass rendered with its own repr")
    else:
        ok_alts = alts <= {p, esc} and esc in alts
        run.check(ok_alts and not bad, "C13.R1", fi, stmt_of(call), "as_ast renders strings with str.__repr__() and other values with str()", f"as_ast builds the text to parse as {show(t)[:200]}: " + ("; ".join(bad) if bad else "a string value is not rendered with str.__repr__()") + " - quotes, backslashes, newlines or non-BMP characters are altered or parsed as code", "if isinstance(p, str): p = str.__repr__(p); ast.parse(str(p))", show(t)[:300])
    # the escaping branch must be taken exactly for str
    for n in own_nodes(fi):
        if isinstance(n, ast.Assign) and isinstance(n.value, ast.Call) and fa.cfg.has_node(n.value) and strip_sites(fa.term_of(n.value.func)) in (STR_REPR, ("global", "builtins.repr")):
            fx = Facts(fa, n)
            run.check(fx.isinstance_of(p, {"builtins.str", "str"}), "C13.R1", fi, n, "escaping applied under isinstance(p, str)", "the escaping branch is not the isinstance(p, str) branch")
    # the text route is not taken for the standard containers: str(container) renders the items with their own repr
    excluded = set()
    # (facts about the parameter end where it is re-bound to its escaped text: they are read at every statement on the
    # way to the sink, i.e. that dominates it)
    sink_n = fa.cfg.node_of(call)
    atoms_on_the_way = list(Facts(fa, call).atoms)
    for st_ in own_nodes(fi):
        if isinstance(st_, ast.stmt) and fa.cfg.has_node(st_) and fa.cfg.dominates(fa.cfg.node_of(st_), sink_n):
            atoms_on_the_way += Facts(fa, st_).atoms
    for a, pol in atoms_on_the_way:
        if pol:
            continue
        got = None
        if isinstance(a, ast.Compare) and len(a.ops) == 1 and isinstance(a.left, ast.Call) and isinstance(a.left.func, ast.Name) and a.left.func.id == "type" and len(a.left.args) == 1 and fa.cfg.has_node(a.left.args[0]) and strip_sites(fa.term_of(a.left.args[0])) == p:
            c0 = a.comparators[0]
            if isinstance(a.ops[0], ast.In) and isinstance(c0, (ast.Tuple, ast.List, ast.Set)):
                got = [ast.unparse(e_) for e_ in c0.elts]
            elif isinstance(a.ops[0], (ast.Is, ast.Eq)):
                got = [ast.unparse(c0)]
        elif isinstance(a, ast.Call) and isinstance(a.func, ast.Name) and a.func.id == "isinstance" and len(a.args) == 2 and fa.cfg.has_node(a.args[0]) and strip_sites(fa.term_of(a.args[0])) == p:
            c0 = a.args[1]
            got = [ast.unparse(e_) for e_ in c0.elts] if isinstance(c0, ast.Tuple) else [ast.unparse(c0)]
        excluded |= set(got or [])
    missing = {"list", "tuple", "dict"} - excluded
    run.check(not missing, "C13.R1", fi, stmt_of(call), "lists, tuples and dictionaries do not take the text route", f"a {' / '.join(sorted(missing))} is rendered with str(), which renders its items with their own repr: a str-Enum column name inside a list (AsAwkwardArray([Col.PT])) becomes <Col.PT: 'jet_pt'> in the text - a SyntaxError, or code", "build ast.List / ast.Tuple / ast.Dict from as_ast(item)", key="containers rendered through str()")
    # results: the expression inside the parsed module, or a container node built from as_ast of the items
    rt = strip_sites(fa.return_term())

    def parsed(x) -> bool:
        return x[0] == "attr" and x[2] == "value" and x[1][0] == "index" and x[1][2] == 0 and x[1][1][0] == "attr" and x[1][1][2] == "body"

    def items(x, src) -> bool:
        return x[0] == "comp" and len(x[3]) == 1 and not x[3][0][1] and x[3][0][0] == src and x[2][0] == "app" and x[2][1][0] == "global" and x[2][1][1].endswith("as_ast") and x[2][2] == (("elem", src),)

    def built(x) -> bool:
        if x[0] != "new":
            return False
        d = dict(x[2])
        if x[1] in ("List", "Tuple"):
            return items(d.get("elts", ("top",)), p)
        if x[1] == "Dict":
            return items(d.get("keys", ("top",)), ("app", ("attr", p, "keys"), (), ())) and items(d.get("values", ("top",)), ("app", ("attr", p, "values"), (), ()))
        return False

    from ..terms import unphi_terms as _un

    flat = []
    def leaves(x):
        if x[0] == "ifexp":
            leaves(x[2]); leaves(x[3])
        elif x[0] == "phi":
            for y in x[1]:
                leaves(y)
        else:
            flat.append(x)
    leaves(rt)
    ok_rt = bool(flat) and all(parsed(x) or built(x) for x in flat) and any(parsed(x) for x in flat)
    run.check(ok_rt, "C13.R1", fi, fi.node, "as_ast returns the parsed expression node (or a container node built from as_ast of the items)", f"as_ast returns {show(rt)[:160]}")


def _check_entry_points(run: Run, ctx, m) -> None:
    os_cls = m.find_class("ObjectStream", in_module="func_adl.object_stream")
    n_calls = 0
    from ..lib import view

    for name, fi in os_cls.methods.items():
        fi = view(m, fi)
        fa = ctx.analysis(fi)
        selfp = ("param", fi.pos_params[0]) if fi.pos_params else None
        value_params = {("param", p) for p in fi.pos_params[1:]}
        if name.startswith("_") and not name.startswith("__"):
            continue  # private helpers are seen, with their parameters bound, from the public methods that call them
        from ..lib import call_events

        for ev in call_events(ctx, fi, lambda n: n == "function_call"):
            if not (len(ev.args) == 2 and ev.args[1][0] == "list"):
                continue
            n_calls += 1
            c = ev.call if ev.owner is fi else fi.node
            for t in ev.args[1][1]:
                ok = False
                why = show(t)[:100]
                for a in unphi_terms(t):
                    if a[0] == "attr" and a[2] == "_q_ast":
                        ok = True
                    elif a[0] == "index" and a[1][0] == "app" and a[1][1][0] == "global" and a[1][1][1].endswith("remap_from_lambda") and a[2] == 1:
                        ok = True
                    elif a[0] == "app" and a[1][0] == "global" and a[1][1].endswith("util_ast.as_ast") and len(a[2]) == 1:
                        inner = a[2][0]
                        # the value (possibly normalised str -> [str]) and nothing else
                        leaves = {x for x in walk_all(inner) if isinstance(x, tuple) and x and x[0] == "param"}
                        ok = bool(leaves) and leaves <= value_params and not contains(inner, lambda s: s[0] in ("fstr", "op"))
                        if not ok:
                            why = f"as_ast({show(inner)[:80]})"
                    else:
                        ok = False
                        break
                run.check(ok, "C13.R2", fi, stmt_of(c) if c is not fi.node else c, "function_call argument is stream AST / processed lambda / as_ast(value)", f"{name} embeds {why} into the query: a python value reaches the AST without going through as_ast, or a transformed value is embedded", "as_ast(value)", show(t)[:200])
    run.floor("C13.R2", n_calls, 8, "function_call sites in ObjectStream")
    # as_literal is ast.Constant(value=p) with no conversion
    al = m.find_func("as_literal", in_module="func_adl.util_ast")
    c2 = TermCtx(m, max_depth=2)
    rt = strip_sites(c2.analysis(al).return_term())
    ok = rt[0] == "new" and rt[1] == "Constant" and dict(rt[2]).get("value") == ("param", al.pos_params[0])
    run.check(ok, "C13.R2", al, al.node, "as_literal(p) == ast.Constant(value=p)", f"as_literal returns {show(rt)[:120]}: the value is converted on the way into the query", term=show(rt))
    from ..lib import unit, view as _view2

    fd = _view2(m, m.find_func("_fill_in_default_arguments", in_module="func_adl.type_based_replacement"))

    n_def = 0
    for g_ in unit(m, fd):
        fa = ctx.analysis(g_)
        for c in calls_in(g_):
            if isinstance(c.func, ast.Name) and c.func.id == "as_literal":
                n_def += 1
                t = strip_sites(fa.term_of(c.args[0]))
                ok = t[0] == "attr" and t[2] == "default"
                run.check(ok, "C13.R2", g_, stmt_of(c), "declared default embedded unchanged via as_literal(param.default)", f"default embedded as as_literal({show(t)[:80]})")
    appended_defaults = [(g_, c) for g_ in unit(m, fd) for c in calls_in(g_) if isinstance(c.func, ast.Attribute) and c.func.attr == "append"]
    for g_, c in appended_defaults:
        fa = ctx.analysis(g_)
        t = strip_sites(fa.term_of(c.args[0])) if c.args else ("top", "?")
        for a in unphi_terms(t):
            if contains(a, lambda s: s[0] == "attr" and s[2] == "default") and not (a[0] == "app" and a[1][0] == "global" and a[1][1].endswith("as_literal")):
                run.fail("C13.R2", fd, stmt_of(c), f"a declared default reaches the call as {show(a)[:100]}, not as as_literal(default)")
    run.floor("C13.R2", n_def, 1, "as_literal(param.default) sites")


def _check_gate(run: Run, ctx, m) -> None:
    ca = m.find_func("check_ast", in_module="func_adl.util_ast")
    from ..lib import used_visitor

    checkers = [used_visitor(m, TermCtx(m, max_depth=1), ca)]
    if len(checkers) != 1:
        raise AnalysisError("check_ast no longer contains one visitor class")
    ck = checkers[0]
    run.check(set(ck.methods) == {"visit_Constant"}, "C13.R3", ca, ck.node, "the checker overrides visit_Constant only (no node kind is pruned)", f"the constant checker overrides {sorted(ck.methods)}: sub-trees may be skipped")
    vc = ck.methods.get("visit_Constant")
    if vc is None:
        raise AnalysisError("anchor vanished: ConstantTypeChecker.visit_Constant")
    c2 = TermCtx(m, max_depth=2)
    fa = c2.analysis(vc)
    nodep = ("param", vc.pos_params[1])
    raises = [n for n in own_nodes(vc) if isinstance(n, ast.Raise)]
    run.check(len(raises) == 1, "C13.R3", vc, vc.node, "one raise in the gate", f"{len(raises)} raise statements in visit_Constant")
    for r in raises:
        exc = r.exc.func if isinstance(r.exc, ast.Call) else r.exc
        run.check(isinstance(exc, ast.Name) and exc.id == "ValueError", "C13.R3", vc, r, "gate raises ValueError", f"gate raises {ast.unparse(exc) if exc else None}")
        fx = Facts(fa, r)
        atoms = fx.atoms
        want = [(a, pol) for a, pol in atoms if isinstance(a, ast.Call) and isinstance(a.func, ast.Name) and a.func.id == "isinstance" and not pol and len(a.args) == 2 and strip_sites(fa.term_of(a.args[0])) == ("attr", nodep, "value") and isinstance(a.args[1], ast.Name) and a.args[1].id == "g_legal_capture_types"]
        run.check(len(want) == 1, "C13.R3", vc, r, "raise guarded by not isinstance(node.value, g_legal_capture_types)", "the gate's raise is not guarded by 'value is not an instance of g_legal_capture_types'")
        extra = [a for a, pol in atoms if not (isinstance(a, ast.Call) and isinstance(a.func, ast.Name) and a.func.id == "isinstance")]
        run.check(not extra, "C13.R3", vc, r, "the refusal has no further precondition", f"the refusal also requires {', '.join(ast.unparse(x) for x in extra)[:120]}: some non-transportable constants (e.g. falsy ones) pass the gate", "if not isinstance(node.value, g_legal_capture_types): raise ValueError")
    # the raise must be reached for every visited Constant not satisfying isinstance: no early return before it
    for n in own_nodes(vc):
        if isinstance(n, ast.Return) and raises and fa.cfg.has_node(n):
            # a return is fine where the value is known to be of a legal type (the branches may be written either way round)
            legal_known = any(pol and isinstance(a, ast.Call) and isinstance(a.func, ast.Name) and a.func.id == "isinstance" and len(a.args) == 2 and isinstance(a.args[1], ast.Name) and a.args[1].id == "g_legal_capture_types" and strip_sites(fa.term_of(a.args[0])) == ("attr", nodep, "value") for a, pol in Facts(fa, n).atoms)
            if not legal_known and n.lineno < raises[0].lineno:
                run.fail("C13.R3", vc, n, "an early return precedes the gate's test")
    # the legal table
    mod = m.module("func_adl.util_ast")
    tbl = m.find_assign("g_legal_capture_types", mod.name)
    if not isinstance(tbl, ast.Tuple):
        raise AnalysisError("g_legal_capture_types is not a tuple literal")
    names = [ast.unparse(e) for e in tbl.elts]
    bad = [n for n in names if n not in LEGAL_TYPES]
    run.check(not bad, "C13.R3", ca, tbl, "g_legal_capture_types contains immutable scalar types only", f"g_legal_capture_types admits {bad}: values of these types are emitted into queries although they cannot be transported as literals", "subset of (str, int, float, bool, complex, bytes)")
    # check_ast visits its argument
    fca = c2.analysis(ca)
    visits = [c for c in calls_in(ca) if isinstance(c.func, ast.Attribute) and c.func.attr == "visit" and c.args and strip_sites(fca.term_of(c.args[0])) == ("param", ca.pos_params[0])]
    run.check(len(visits) == 1, "C13.R3", ca, ca.node, "check_ast visits the whole ast it is given", "check_ast does not visit its argument")
    # gate dominance in the three operators, on the emitted lambda
    os_cls = m.find_class("ObjectStream", in_module="func_adl.object_stream")
    from ..lib import view

    for op in ("Select", "SelectMany", "Where"):
        fi = view(m, os_cls.methods.get(op))
        if fi is None:
            raise AnalysisError(f"anchor vanished: ObjectStream.{op}")
        from ..lib import call_events, event_before

        gates = [e for e in call_events(ctx, fi, lambda n: n == "check_ast") if e.args]
        builds = [e for e in call_events(ctx, fi, lambda n: n == "function_call") if len(e.args) == 2 and e.args[1][0] == "list" and len(e.args[1][1]) == 2]
        run.check(len(builds) == 1, "C13.R3", fi, fi.node, f"{op} builds one operator node", f"{len(builds)} operator nodes built in {op}")
        if len(builds) != 1:
            continue
        lam_t = builds[0].args[1][1][1]
        ok = any(g.args[0] == lam_t and event_before(ctx, fi, g, builds[0]) for g in gates)
        got = [show(g.args[0])[:60] for g in gates]
        run.check(ok, "C13.R3", fi, stmt_of(gates[0].call) if gates and gates[0].owner is fi else fi.node, f"{op}: check_ast(<emitted lambda>) dominates node construction", f"{op} does not pass the lambda it emits through check_ast before building the node (gate applied to: {got}): non-transportable captured values are embedded without ValueError", "check_ast(n_ast)")
