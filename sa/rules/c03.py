"""C03 - source recovery returns the lambda that was actually passed (util_ast.py, object_stream.py)."""
from __future__ import annotations

import ast

from ..lib import norm_atom, Facts, calls_in, len_eq, own_nodes, stmt_of
from ..model import AnalysisError, FuncInfo
from ..report import Run
from ..terms import TermCtx, contains, show, strip_sites, unphi_terms

EXPLANATION = (
    "the gates that make a *silent wrong pick* impossible once candidates are collected: (R1) every lambda returned from the token scan "
    "is an element of the list that passed the argument-name filter, and that return is dominated by 'no match -> raise' and 'several "
    "matches -> raise'; (R2) the filter keeps exactly the candidates whose ordered parameter names equal inspect.getfullargspec(callable).args; "
    "(R3) with a caller name, candidates come only from the bucket of that name, and each operator passes its own method name; (R4) in "
    "tokens_till each of ( [ { increments and its partner decrements the same counter, the stop test requires every counter to be zero, "
    "comments are dropped; (R5) a def is re-parsed from inspect.getsource(callable) itself; (R6) the same-line candidate scan stops only at "
    "a logical NEWLINE token (not at physical line breaks inside brackets), so every lambda of the bracketed expression is a candidate."
    " (R7) the token search looks for `def` only when the callable handed in is not a lambda (callable.__name__ != \"<lambda>\"), so a lambda on the line of a one-line def or after a decorator is not mistaken for the function; (R8) re-aligning the source of a def removes at most each line's own leading blanks."
    " (R4, as of round 10) one counter per bracket kind or one nesting depth, moved by *operator* tokens only (the literal part of an f-string can be exactly one bracket)."
    " (R5, as of D46) a decorated def is refused, and the lambda made from a def has its parameters and defaults without the annotations."
    " (R9, as of D52) when the token search has backed up to the start of the statement, only a lambda that starts on the callable's own first line is a candidate, and lambdas on the lines in front of it do not end the collection."
)
NOT_DECIDED = "that the tokenizer heuristic finds the right lambda for every source layout, and that every documented layout is recovered without error (both quantify over source text fed to a line-number-keyed heuristic)."


def check(run: Run) -> None:
    m = run.model
    mod = "func_adl.util_ast"
    run.rule("C03.R1", "returned lambda is good_lambdas[0] under len != 0 and len <= 1 (else raise); no other lambda-returning path")
    run.rule("C03.R2", "good_lambdas = [l for l in candidates if [a.arg for a in l.args.args] == inspect.getfullargspec(callable).args]")
    run.rule("C03.R3", "candidates = bucket[caller_name] when a caller name is given; operators pass their own name")
    run.rule("C03.R4", "bracket counters paired per bracket kind; stop only at depth zero; comments skipped")
    run.rule("C03.R5", "def path re-parses inspect.getsource(callable)")
    run.rule("C03.R6", "same-line scan stops at tokenize.NEWLINE only")
    run.rule("C03.R8", "on the def path only leading blanks are removed from the callable's source lines before parsing (no character of code or of a string is cut)")
    run.rule("C03.R7", "a `def` token is searched for only when the callable handed in is not a lambda (callable.__name__ != '<lambda>')")
    ctx = TermCtx(m, max_depth=1, opaque={"rewrite_func_as_lambda", "_get_lambda_in_stream", "_realign_indent", "_get_sourcelines"})
    ps = m.find_func("_parse_source_for_lambda", in_module=mod)
    from ..normalise import unrolled

    ps = unrolled(m, ps)  # the last steps (pick by arguments, def path) may be private helpers the scan returns through
    fa = ctx.analysis(ps)
    srcp = ("param", ps.pos_params[0])
    callerp = ("param", ps.pos_params[1])

    # locate the filtered list - a comprehension over the candidates with a condition, or the equivalent
    # "for c in candidates: if cond: good.append(c)" loop - in the scan or a private helper it calls
    from ..lib import call_sites_of, unit
    from ..terms import subst

    located = []
    for g_ in unit(m, ps):
        for n in own_nodes(g_):
            got = _filter_shape(g_, n)
            if got is not None:
                located.append((g_,) + got)
    located = [x for x in located if any(k in ast.unparse(x[4]) for k in ("getfullargspec", "arg"))]
    if len(located) != 1:
        raise AnalysisError(f"argument-name filter (candidates kept under one condition) not found exactly once in _parse_source_for_lambda and its helpers (found {len(located)})")
    g, good_def, good_name, cand_expr, cond_expr, elt_ok = located[0]
    fg = ctx.analysis(g)
    # g's parameters seen from the scan
    binding = {}
    if g is not ps:
        # call sites in the (possibly normalised) view of the scan itself
        sites = [(ps, c_, 0 if g.cls is None or "staticmethod" in g.decorators else 1) for c_ in calls_in(ps) if (c_.func.id if isinstance(c_.func, ast.Name) else getattr(c_.func, "attr", None)) == g.name]
        if len(sites) != 1:
            raise AnalysisError(f"{g.name} is not called exactly once from _parse_source_for_lambda")
        _c, call, skip = sites[0]
        for p_, a in zip(g.pos_params[skip:], call.args):
            binding[("param", p_)] = strip_sites(fa.term_of(a))
        for k in call.keywords:
            binding[("param", k.arg)] = strip_sites(fa.term_of(k.value))
        inv = {v: k for k, v in binding.items()}
        srcp_g, callerp_g = inv.get(srcp), inv.get(callerp)
        if srcp_g is None or callerp_g is None:
            raise AnalysisError(f"{g.name} does not receive the callable and the caller name")
    else:
        srcp_g, callerp_g = srcp, callerp
    picks = [n for n in own_nodes(g) if isinstance(n, ast.Subscript) and isinstance(n.value, ast.Name) and n.value.id == good_name and isinstance(n.slice, ast.Constant) and n.slice.value == 0 and isinstance(n.ctx, ast.Load)]
    at = picks[0] if picks else good_def
    good_t_g = strip_sites(fg.term_of(ast.Name(id=good_name, ctx=ast.Load()), fg.cfg.node_of(at))) if picks else strip_sites(fg.term_of(good_def.value, fg.cfg.node_of(good_def)))
    good_t = subst(good_t_g, binding) if binding else good_t_g

    # ---------------- R1
    n_lam_ret = 0
    for s, n in fa.returns():
        t = strip_sites(fa.term_of(s.value, n)) if s.value is not None else ("const", None)
        for a in unphi_terms(t):
            if a == ("const", None):
                continue
            if a[0] == "app" and a[1][0] == "global" and a[1][1].endswith("rewrite_func_as_lambda"):
                run.ok("C03.R5", ps, "def path returns rewrite_func_as_lambda(..)")
                continue
            n_lam_ret += 1
            ok_elem = a == ("index", good_t, 0)
            run.check(ok_elem, "C03.R1", ps, s, "returned lambda is the single element of the argument-filtered list", f"a lambda is returned ({show(a)[:100]}) that did not pass the argument-name filter / uniqueness gate: with another lambda on the line the library can silently record a neighbour instead of raising", f"{good_name}[0] after the 0-match and >1-match raises", show(a))
    run.floor("C03.R1", n_lam_ret, 1, "lambda-returning alternatives")
    # the assignment lda = good[0] must be dominated by the two raises' negations
    run.check(len(picks) == 1, "C03.R1", g, g.node, "one pick of the filtered list", f"{len(picks)} picks of {good_name}[0]")
    for pk in picks:
        fx = Facts(fg, pk)
        none = many = False
        for a, pol in fx.atoms:
            if isinstance(a, ast.Name) and a.id == good_name and pol:
                none = True  # `if not good: raise` - the filtered list is non-empty here
            le = len_eq(a)
            if le is None or not (isinstance(le[0], ast.Name) and le[0].id == good_name):
                continue
            _x, op, k = le
            if (op == "Eq" and k == 0 and not pol) or (op == "NotEq" and k == 0 and pol) or (op == "Gt" and k == 0 and pol) or (op == "GtE" and k == 1 and pol):
                none = True
            if (op == "Gt" and k == 1 and not pol) or (op == "LtE" and k == 1 and pol) or (op == "Eq" and k == 1 and pol) or (op == "GtE" and k == 2 and not pol) or (op == "NotEq" and k == 1 and not pol):
                many = True
                if op == "Eq" and k == 1 and pol:
                    none = True
        run.check(none, "C03.R1", g, stmt_of(pk), "pick happens only when at least one candidate matched", "the pick is not guarded by 'no matching lambda -> raise'")
        run.check(many, "C03.R1", g, stmt_of(pk), "pick happens only when at most one candidate matched", "the pick is not guarded by 'several matching lambdas -> raise': one of several lambdas with the same argument names is chosen silently")
    raises = [(f_, n) for f_ in unit(m, ps) for n in own_nodes(f_) if isinstance(n, ast.Raise)]
    for f_, r in raises:
        exc = r.exc.func if isinstance(r.exc, ast.Call) else r.exc
        run.check(isinstance(exc, ast.Name) and exc.id == "ValueError", "C03.R1", f_, r, "refusals are ValueError", f"refusal raises {ast.unparse(exc)}")
    run.floor("C03.R1", len(raises), 3, "raise statements in the source scan (incl. private helpers it calls)")

    # ---------------- R2
    run.check(elt_ok, "C03.R2", g, good_def, "filter keeps candidates unchanged under one condition", "the filtered list is not 'candidates that satisfy one condition'")
    cond = good_t_g[3][0][1][0] if good_t_g[0] == "comp" and good_t_g[3] and good_t_g[3][0][1] else ("top", "?")
    ok_cond = cond[0] == "op" and cond[1] == "Compare:Eq" and len(cond[2]) == 2
    lhs_ok = rhs_ok = False
    if ok_cond:
        for side in cond[2]:
            side = _inline_local_def(fa, ps, side)
            if side[0] == "attr" and side[2] == "args" and side[1][0] == "app" and side[1][1] == ("global", "inspect.getfullargspec") and side[1][2] == (srcp_g,):
                rhs_ok = True
            if side[0] == "comp" and side[2][0] == "attr" and side[2][2] == "arg" and contains(side, lambda s: s[0] == "attr" and s[2] == "args" and s[1][0] == "attr" and s[1][2] == "args"):
                lhs_ok = True
            if side[0] == "app" and side[1][0] == "global" and "lambda_arg_list" in side[1][1]:
                lhs_ok = _arg_list_fn_ok(run, ctx, m, side[1][1])
    if ok_cond and rhs_ok and not lhs_ok and any(contains(side_, lambda q: q[0] == "app" and q[1][0] == "global" and (q[1][1].startswith("operator.") or q[1][1].startswith("functools.") or q[1][1].startswith("itertools."))) for side_ in cond[2]):
        raise AnalysisError("the candidates' parameter names are gathered through operator / functools / itertools plumbing (map(attrgetter('arg'), ..)): whether that is the ordered list of all parameter names cannot be read from this shape")
    run.check(ok_cond and lhs_ok and rhs_ok, "C03.R2", g, good_def, "condition is [a.arg for a in l.args.args] == inspect.getfullargspec(callable).args", f"the candidate filter is {show(cond)[:160]}: not full equality between the candidate's ordered parameter names and the callable's own", "lambda_arg_list(lda) == inspect.getfullargspec(ast_source).args")

    # ---------------- R3
    cand_t = good_t_g[3][0][0] if good_t_g[0] == "comp" else ("top", "?")
    def want_b(t):
        # bucket[caller_name], or bucket.get(caller_name, <empty list>) - the same read of a table whose entries are lists
        if t[0] == "subscript" and t[2] == callerp_g:
            return True
        return t[0] == "app" and t[1][0] == "attr" and t[1][2] == "get" and len(t[2]) == 2 and t[2][0] == callerp_g and t[2][1] in (("list", ()), ("app", ("global", "builtins.list"), (), ())) and not t[3]

    ok3 = cand_t[0] == "ifexp" and cand_t[1] == ("op", "Compare:IsNot", (callerp_g, ("const", None))) and want_b(cand_t[2])
    if not ok3 and cand_t[0] == "ifexp" and cand_t[1] == ("op", "Compare:Is", (callerp_g, ("const", None))):
        ok3 = want_b(cand_t[3])
    if not ok3 and isinstance(cand_expr, ast.Name):
        # statement form: every definition of the candidate list other than bucket[caller_name] is made under 'caller_name is None'
        defs = [n for n in own_nodes(g) if isinstance(n, (ast.Assign, ast.AnnAssign)) and any(isinstance(t_, ast.Name) and t_.id == cand_expr.id for t_ in (n.targets if isinstance(n, ast.Assign) else [n.target])) and n.value is not None]
        n_bucket = 0
        ok3 = bool(defs)
        for d in defs:
            dt = strip_sites(fg.term_of(d.value, fg.cfg.node_of(d)))
            if want_b(dt):
                n_bucket += 1
                continue
            if dt[0] == "ifexp":
                ok3 = False
                continue
            ok3 = ok3 and Facts(fg, d).compare_const(callerp_g, [ast.Is], None)
        ok3 = ok3 and n_bucket >= 1
    run.check(ok3, "C03.R3", g, good_def, "with a caller name the candidates are bucket[caller_name]", f"candidates are {show(cand_t)[:140]}: not restricted to the lambdas that are arguments of the named caller", "lambdas_on_a_line[caller_name] if caller_name is not None else all")
    # bucket key is the identifier preceding the lambda
    from ..lib import call_events as _ce

    def _bucket(r_):
        # bucket[key].append(..) / bucket.setdefault(key, []).append(..)
        return r_ is not None and (r_[0] == "subscript" or (r_[0] == "app" and r_[1][0] == "attr" and r_[1][2] == "setdefault" and len(r_[2]) == 2))

    apps = [e_ for e_ in _ce(ctx, ps, lambda n_: n_ == "append") if _bucket(strip_sites(e_.recv) if e_.recv is not None else None)]
    run.check(len(apps) == 1, "C03.R3", ps, ps.node, "lambdas are bucketed by the preceding identifier", f"{len(apps)} bucket appends")
    # R9: a candidate starts on the line the callable starts on (the code object knows it): the scan may have backed up
    # to the start of the statement, and a lambda in front of the callable's line - same method, same argument name -
    # is not the callable
    run.rule("C03.R9", "only a lambda whose `lambda` token stands on the callable's own first line (from the code object) becomes a candidate")
    for e_ in apps:
        if e_.owner is not ps and not hasattr(e_, "call"):
            continue
        fo_ = ctx.analysis(e_.owner)
        on_line = False
        bind9 = {}
        if e_.owner is not ps:
            # the collection sits in a helper that is handed the line: read its parameters as what the call in ps passes
            from ..lib import call_sites_of as _cso9
            from ..terms import subst as _subst9

            for c9, call9, skip9 in _cso9(m, m.funcs.get(e_.owner.qual, e_.owner)):
                fps_ = ctx.analysis(c9)
                if (c9 is ps or c9.name == ps.name) and fps_.cfg.has_node(call9):
                    for p9, a9 in zip(e_.owner.pos_params[skip9:], call9.args):
                        bind9[("param", p9)] = strip_sites(fps_.term_of(a9))
                    for kw9 in call9.keywords:
                        if kw9.arg:
                            bind9[("param", kw9.arg)] = strip_sites(fps_.term_of(kw9.value))
        for a, pol in Facts(fo_, e_.call).atoms:
            if not (pol and isinstance(a, ast.Compare) and len(a.ops) == 1 and isinstance(a.ops[0], ast.Eq)):
                continue
            sides = [a.left, a.comparators[0]]
            terms_ = []
            for sd in sides:
                try:
                    terms_.append(strip_sites(fo_.term_of(sd)))
                except AnalysisError:
                    terms_.append(("top", "?"))
            if bind9:
                terms_ = [_subst9(t_, bind9) for t_ in terms_]
            tok_line = [t_ for t_ in terms_ if contains(t_, lambda q: len(q) == 3 and q[0] == "attr" and q[2] == "start")]
            src_line = [t_ for t_ in terms_ if contains(t_, lambda q: len(q) >= 3 and q[0] == "app" and isinstance(q[1], tuple) and len(q[1]) == 2 and q[1][0] == "global" and str(q[1][1]).endswith(("_get_sourcelines", "inspect.findsource", "inspect.getsourcelines"))) or contains(t_, lambda q: len(q) == 3 and q[0] == "attr" and q[2] == "co_firstlineno")]
            if tok_line and src_line:
                on_line = True
        run.check(on_line, "C03.R9", e_.owner, stmt_of(e_.call), "a lambda becomes a candidate only if it starts on the callable's first line", "every lambda met after the scan backed up to the start of the statement becomes a candidate, whatever line it starts on - and the collection ends at the first one that spans several lines: in ds.Select(lambda e: e.jets.Select(<newline> lambda j: j.pt)).Select(<newline> lambda e: e.met) the second Select silently records the *first* lambda (same method name, same argument name), not the callable that was passed", "compare the lambda token's line with the line the code object starts on", key="candidates not restricted to the callable's line")
    os_cls = m.find_class("ObjectStream", in_module="func_adl.object_stream")
    from ..lib import view

    for op in ("Select", "SelectMany", "Where"):
        fi = view(m, os_cls.methods.get(op))
        if fi is None:
            raise AnalysisError(f"anchor vanished: ObjectStream.{op}")
        from ..lib import call_events

        evs = call_events(ctx, fi, lambda n: n == "parse_as_ast")
        ok = len(evs) == 1 and evs[0].must and evs[0].args == (("param", fi.pos_params[1]), ("const", op)) and not evs[0].kwargs
        ok = ok or (len(evs) == 1 and evs[0].must and evs[0].args == (("param", fi.pos_params[1]),) and evs[0].kwargs == (("caller_name", ("const", op)),))
        run.check(ok, "C03.R3", fi, stmt_of(evs[0].call) if evs and evs[0].owner is fi else fi.node, f"{op} recovers its own argument with caller name '{op}'", f"{op} does not call parse_as_ast(<its lambda argument>, '{op}'): lambdas of other operators on the same line are candidates")
    from ..lib import view as _view

    pa = _view(m, m.find_func("parse_as_ast", in_module=mod))
    fpa = ctx.analysis(pa)
    from ..lib import call_events

    pcs = call_events(ctx, pa, lambda nm: nm == ps.name)
    ok = len(pcs) == 1 and list(pcs[0].args) == [("param", pa.pos_params[0]), ("param", pa.pos_params[1])]
    run.check(ok, "C03.R3", pa, pa.node, "parse_as_ast hands the callable and the caller name to the source scan", "parse_as_ast does not pass (callable, caller_name) to _parse_source_for_lambda")

    # ---------------- R5
    gs = [c for c in calls_in(ps) if ast.unparse(c.func) == "inspect.getsource"]
    ok5 = len(gs) == 1 and strip_sites(fa.term_of(gs[0].args[0])) == srcp
    run.check(ok5, "C03.R5", ps, ps.node, "def source comes from inspect.getsource(callable)", "the def path does not re-parse the callable's own source")

    from .c05 import check_rewrite_func

    check_rewrite_func(run, TermCtx(m, max_depth=2, opaque={"_parse_source_for_lambda", "as_literal"}, identity={"lambda_unwrap"}), m, "C03.R5")

    # ---------------- R4
    tr = m.find_class("_token_runner", in_module=mod)
    tt = tr.methods.get("tokens_till")
    fi_ = tr.methods.get("find_identifier")
    if tt is None or fi_ is None:
        raise AnalysisError("anchor vanished: _token_runner.tokens_till / find_identifier")
    _check_brackets(run, _view(m, tt))
    # ---------------- R6
    stops = [n for n in own_nodes(fi_) if isinstance(n, (ast.Break, ast.Return)) and not (isinstance(n, ast.Return) and _returns_found(n))]
    ffa = TermCtx(m, max_depth=1).analysis(fi_)
    n_stop = 0
    for st in stops:
        fx = Facts(ffa, st)
        tok_types = []
        for a, pol in fx.atoms:
            for x in ast.walk(a):
                if isinstance(x, ast.Attribute) and isinstance(x.value, ast.Name) and x.value.id == "tokenize":
                    tok_types.append(x.attr)
        if not tok_types:
            continue  # loop exhausted
        n_stop += 1
        # the early stop may depend on nothing but "token is a logical NEWLINE" and the caller's flag
        from ..model import ancestors as _anc

        gov = None
        for a in _anc(st):
            if isinstance(a, ast.If):
                gov = a
                break
            if isinstance(a, (ast.For, ast.While)):
                break
        if gov is not None:
            conj = gov.test.values if isinstance(gov.test, ast.BoolOp) and isinstance(gov.test.op, ast.And) else [gov.test]
            odd = []
            for cnd in conj:
                txt = ast.unparse(cnd)
                is_nl = isinstance(cnd, ast.Compare) and len(cnd.ops) == 1 and isinstance(cnd.ops[0], ast.Eq) and txt.replace(" ", "") in ("t.type==tokenize.NEWLINE", "tokenize.NEWLINE==t.type") or (isinstance(cnd, ast.Compare) and isinstance(cnd.ops[0], ast.Eq) and "tokenize.NEWLINE" in txt and ".type" in txt)
                is_flag = "can_encounter_newline" in txt and not isinstance(cnd, ast.BoolOp)
                if not (is_nl or is_flag):
                    odd.append(txt)
            run.check(not odd, "C03.R6", fi_, st, "early stop depends only on 'logical NEWLINE token' and the caller's flag", f"the same-line scan also stops when {' / '.join(odd)[:120]}: e.g. a physical line break (NL token, string '\\n') inside brackets ends candidate collection, so the lambda of a call wrapped onto the next line is never a candidate", "t.type == tokenize.NEWLINE and not can_encounter_newline")
        run.check(set(tok_types) <= {"NEWLINE", "NAME"} and "NEWLINE" in tok_types, "C03.R6", fi_, st, "scan stops early only at a logical NEWLINE", f"the same-line scan stops at token type(s) {sorted(set(tok_types))}: a physical line break (NL) inside brackets ends candidate collection, so lambdas later in the same wrapped expression are never candidates and a neighbour can be recorded silently", "tokenize.NEWLINE")
    run.floor("C03.R6", n_stop, 1, "early stop in find_identifier")
    # every caller hands a list of identifiers (a bare string would make `t.string in identifier` a substring test)
    n_fi_calls = 0
    for f_ in [x for x in m.funcs.values() if x.module.name == mod]:
        for c in calls_in(f_):
            if isinstance(c.func, ast.Attribute) and c.func.attr == "find_identifier" and c.args:
                n_fi_calls += 1
                a0 = c.args[0]
                alts0 = _literal_alternatives(a0, f_)
                ok = bool(alts0) and all(isinstance(x, (ast.List, ast.Tuple, ast.Set)) and all(isinstance(e, ast.Constant) and isinstance(e.value, str) for e in x.elts) for x in alts0)
                run.check(ok, "C03.R6", f_, stmt_of(c), "find_identifier receives a list of identifier strings", f"find_identifier is called with {ast.unparse(a0)}, not a list of identifiers: with a bare string the membership test becomes a substring test, so short names such as 'a' or 'b' are taken for the start of a lambda and the real lambda is filed under the wrong caller", '["lambda"]')
    run.floor("C03.R6", n_fi_calls, 2, "find_identifier call sites")
    # ---------------- R7: which keyword starts the function is decided by the kind of callable handed in
    _check_kind(run, m, ctx, ps, srcp)
    # ---------------- R8: the text handed to the parser on the def path is the callable's source minus blanks
    ps_own = ps.__dict__.get("_unrolled_from", ps)  # the helper is found by the call that wraps getsource(): in the function as written
    _check_dedent(run, m, ctx, ps_own, [c for c in calls_in(ps_own) if ast.unparse(c.func) == "inspect.getsource"])
    # name match: returns (previous NAME token, this token) when t.string in identifier
    for s, n in ffa.returns():
        if _returns_found(s):
            fx = Facts(ffa, s)
            ok = any(pol and isinstance(a, ast.Compare) and isinstance(a.ops[0], ast.In) and "string" in ast.unparse(a.left) for a, pol in fx.atoms) and any(pol and "NAME" in ast.unparse(a) for a, pol in fx.atoms)
            run.check(ok, "C03.R6", fi_, s, "identifier found iff a NAME token whose string is in the list", "find_identifier's match condition is not 'NAME token whose string is one of the identifiers'")


def _check_dedent(run: Run, m, ctx, ps, getsource_calls) -> None:
    """R8. inspect.getsource(callable) is indented as in the file; what re-aligns it may remove, per line, at most that
    line's own leading blanks - a continuation line inside brackets or a multi-line string may start left of the def.
    Found by role: the package function(s) the getsource text passes through on its way to ast.parse."""
    from ..model import parent as _parent

    helpers = []
    for c in getsource_calls:
        par = _parent(c)
        while isinstance(par, ast.Call) and isinstance(par.func, ast.Name):
            tgt = m.lookup_target(m.resolve_dotted(ps.module, ps, par.func.id))
            if isinstance(tgt, FuncInfo):
                helpers.append(tgt)
            par = _parent(par)
    n_cut = 0
    for h in helpers:
        if not h.pos_params:
            continue
        fa = ctx.analysis(h)
        for n in own_nodes(h):
            # a slice x[k:] that drops a prefix of a piece of the text
            if not (isinstance(n, ast.Subscript) and isinstance(n.ctx, ast.Load) and isinstance(n.slice, ast.Slice) and n.slice.lower is not None and n.slice.upper is None and n.slice.step is None):
                continue
            if not fa.cfg.has_node(n):
                continue
            subj = n.value
            if not isinstance(subj, ast.Name):
                continue
            n_cut += 1
            low = n.slice.lower
            # the bound looks at the line it cuts: min(k, <blanks of this line>), len(line) - len(line.lstrip()), ..
            about_line = any(isinstance(x, ast.Name) and x.id == subj.id for x in ast.walk(low))
            # .. or the cut is made only where the prefix is blank
            guarded = False
            from ..model import ancestors as _anc

            child = n
            for a in _anc(n):
                if isinstance(a, ast.IfExp) and child is a.body:
                    guarded = guarded or any(isinstance(x, ast.Name) and x.id == subj.id for x in ast.walk(a.test))
                if isinstance(a, ast.comprehension) or isinstance(a, ast.stmt):
                    break
                child = a
            for g in [p for p in _anc(n) if isinstance(p, (ast.ListComp, ast.GeneratorExp))][:1]:
                for gen in g.generators:
                    guarded = guarded or any(isinstance(x, ast.Name) and x.id == subj.id for i_ in gen.ifs for x in ast.walk(i_))
            for a, pol in Facts(fa, n).atoms:
                guarded = guarded or any(isinstance(x, ast.Name) and x.id == subj.id for x in ast.walk(a))
            run.check(
                about_line or guarded,
                "C03.R8",
                h,
                stmt_of(n),
                "a line loses at most its own leading blanks",
                f"{h.name} cuts {ast.unparse(low)} characters from the start of every line whatever they are: a continuation line inside brackets (or a multi-line string) that is indented less than the def loses code - def f(x): return (x.a\\n  -1 + 2) indented by four is recorded as x.a + 2",
                "ln[min(spaces, len(ln) - len(ln.lstrip())):]",
                key="source lines cut by a fixed width",
            )
    run.notes["dedent_helpers"] = [h.name for h in helpers]
    if helpers:
        run.floor("C03.R8", n_cut, 0, "prefix cuts in the re-aligning helper")
    else:
        run.ok("C03.R8", ps, "getsource text reaches ast.parse without passing through a package helper")


def _literal_alternatives(e: ast.AST, f_=None, _depth: int = 0):
    """the literals an argument expression can evaluate to: a literal, a conditional expression of literals, or a
    local name whose every assignment in the function is one of those."""
    if isinstance(e, ast.IfExp):
        return _literal_alternatives(e.body, f_, _depth) + _literal_alternatives(e.orelse, f_, _depth)
    if isinstance(e, ast.Name) and f_ is not None and _depth < 3:
        defs = [n for n in own_nodes(f_) if isinstance(n, ast.Assign) and any(isinstance(t, ast.Name) and t.id == e.id for t in n.targets)]
        others = [n for n in own_nodes(f_) if isinstance(n, ast.Name) and n.id == e.id and isinstance(n.ctx, ast.Store)]
        if defs and len(others) == sum(1 for d in defs for t in d.targets if isinstance(t, ast.Name) and t.id == e.id):
            out = []
            for d in defs:
                out += _literal_alternatives(d.value, f_, _depth + 1)
            return out
    return [e]


def _resolve_name(m, ps, e: ast.AST, fi, depth: int = 0):
    """(expression, function it is written in) a name stands for: the value of a local assigned once, or - for a
    parameter of a private helper of the scan with one call site - the actual argument in the caller."""
    from ..lib import call_sites_of

    while isinstance(e, ast.Name) and depth < 6:
        depth += 1
        defs = [n for n in own_nodes(fi) if isinstance(n, ast.Assign) and len(n.targets) == 1 and isinstance(n.targets[0], ast.Name) and n.targets[0].id == e.id]
        stores = [n for n in own_nodes(fi) if isinstance(n, ast.Name) and n.id == e.id and isinstance(n.ctx, ast.Store)]
        if len(defs) == 1 and len(stores) == 1:
            e = defs[0].value
            continue
        if fi is not ps and e.id in fi.pos_params and not stores:
            sites = call_sites_of(m, fi)
            if len(sites) != 1:
                break
            caller, call, skip = sites[0]
            i = fi.pos_params.index(e.id) - skip
            actual = call.args[i] if 0 <= i < len(call.args) and not any(isinstance(x, ast.Starred) for x in call.args) else next((k.value for k in call.keywords if k.arg == e.id), None)
            if actual is None:
                break
            e, fi = actual, caller
            continue
        break
    return e, fi


def _lambda_test(m, ps, e: ast.AST, fi):
    """True when e reads "the callable is a lambda", False when it reads "is not a lambda", None otherwise."""
    src = ps.pos_params[0]
    if isinstance(e, ast.UnaryOp) and isinstance(e.op, ast.Not):
        r = _lambda_test(m, ps, e.operand, fi)
        return None if r is None else not r
    if isinstance(e, ast.Name):
        e2, f2 = _resolve_name(m, ps, e, fi)
        return None if e2 is e else _lambda_test(m, ps, e2, f2)
    if isinstance(e, ast.Compare) and len(e.ops) == 1 and isinstance(e.ops[0], (ast.Eq, ast.NotEq)):
        sides = [e.left, e.comparators[0]]
        const = [x for x in sides if isinstance(x, ast.Constant) and x.value == "<lambda>"]
        other = [x for x in sides if not (isinstance(x, ast.Constant) and x.value == "<lambda>")]
        if len(const) == 1 and len(other) == 1:
            o, fo = _resolve_name(m, ps, other[0], fi)
            subj = None
            if isinstance(o, ast.Attribute) and o.attr == "__name__":
                subj = o.value
            elif isinstance(o, ast.Call) and isinstance(o.func, ast.Name) and o.func.id == "getattr" and len(o.args) >= 2 and isinstance(o.args[1], ast.Constant) and o.args[1].value == "__name__":
                subj = o.args[0]
            if subj is not None:
                sv, fs = _resolve_name(m, ps, subj, fo)
                if isinstance(sv, ast.Name) and fs is ps and sv.id == src:
                    return isinstance(e.ops[0], ast.Eq)
    return None


def _check_kind(run: Run, m, ctx, ps, srcp) -> None:
    """R7. A lambda written on the line of a one-line `def` (def make(): return ds.Select(lambda x: ..)) or after a
    decorator is not that def: the keyword list handed to the token search may contain 'def' only where the
    callable is known not to be a lambda. Decided where the list literal is written - in the scan or a private
    helper of it: the facts holding there (enclosing if / conditional expression, flags and helper parameters
    traced to their definitions, caller-context facts)."""
    from ..lib import expand_atoms, unit
    from ..model import ancestors as _anc

    fns = unit(m, ps)
    lits = []
    for f_ in fns:
        for n in own_nodes(f_):
            if isinstance(n, (ast.List, ast.Tuple, ast.Set)) and isinstance(getattr(n, "ctx", ast.Load()), ast.Load) and any(isinstance(e, ast.Constant) and e.value == "def" for e in n.elts):
                lits.append((f_, n))
    # does the scan tell the two kinds of callable apart anywhere?
    distinguishes = any(_lambda_test(m, ps, n, f_) is not None for f_ in fns for n in own_nodes(f_) if isinstance(n, (ast.Compare, ast.UnaryOp)))
    n_seen = 0
    for f_, lit in lits:
        n_seen += 1
        fa = ctx.analysis(f_)
        atoms = list(Facts(fa, lit).atoms)
        # a conditional expression around the literal contributes its own test
        child = lit
        for a in _anc(lit):
            if isinstance(a, ast.IfExp) and child is not a.test:
                atoms.append((a.test, child is a.body))
            if isinstance(a, ast.stmt):
                break
            child = a
        atoms = expand_atoms(fa, atoms)
        verdicts = []
        for a, pol in atoms:
            r = _lambda_test(m, ps, a, f_)
            if r is None and f_ is not ps:
                r = _lambda_test(m, ps, a, ps)  # caller-context facts are written in the caller's names
            if r is not None:
                verdicts.append(r == pol)  # True: "is a lambda" holds here
        not_lambda = any(v is False for v in verdicts)
        if not not_lambda and distinguishes:
            raise AnalysisError("the scan tests callable.__name__ against '<lambda>' but not where the keyword list with 'def' is chosen: cannot decide which callables are searched for a def")
        run.check(
            not_lambda,
            "C03.R7",
            f_,
            stmt_of(lit),
            "'def' is a start keyword only for callables that are not lambdas",
            f"the token search looks for {ast.unparse(lit)} whatever the callable is: for a lambda written on the line of a one-line def (def make(): return ds.Select(lambda x: x + 1)) or after a decorator the `def` is found first and the enclosing function is rewritten and recorded instead of the lambda - silently",
            '["lambda"] if callable.__name__ == "<lambda>" else ["def"]',
            key="def searched for a lambda callable",
        )
    run.floor("C03.R7", n_seen, 1, "keyword lists containing 'def'")


def _returns_found(r: ast.Return) -> bool:
    return isinstance(r.value, ast.Tuple) and not all(isinstance(e, ast.Constant) and e.value is None for e in r.value.elts)


def _inline_local_def(fa, fi, t):
    return t


def _filter_shape(g, n):
    """(stmt, list name, candidates expr, condition expr, elements-kept-unchanged) if n builds a filtered list."""
    if isinstance(n, ast.Assign) and len(n.targets) == 1 and isinstance(n.targets[0], ast.Name) and isinstance(n.value, ast.ListComp) and len(n.value.generators) == 1 and len(n.value.generators[0].ifs) >= 1:
        comp = n.value
        gen = comp.generators[0]
        elt_ok = isinstance(comp.elt, ast.Name) and isinstance(gen.target, ast.Name) and comp.elt.id == gen.target.id and len(gen.ifs) == 1
        return n, n.targets[0].id, gen.iter, gen.ifs[0], elt_ok
    if isinstance(n, ast.For) and isinstance(n.target, ast.Name) and len(n.body) == 1 and isinstance(n.body[0], ast.If) and not n.orelse:
        br = n.body[0]
        if len(br.body) == 1 and not br.orelse and isinstance(br.body[0], ast.Expr) and isinstance(br.body[0].value, ast.Call):
            c = br.body[0].value
            if isinstance(c.func, ast.Attribute) and c.func.attr == "append" and isinstance(c.func.value, ast.Name) and len(c.args) == 1:
                elt_ok = isinstance(c.args[0], ast.Name) and c.args[0].id == n.target.id
                return n, c.func.value.id, n.iter, br.test, elt_ok
    return None


def _arg_list_fn_ok(run, ctx, m, qual) -> bool:
    subs = [f for f in m.funcs.values() if f.qual.replace(":", ".") == qual or f.qual == qual]
    if len(subs) != 1:
        subs = [f for f in m.funcs.values() if f.name == qual.split(".")[-1] and "lambda_arg_list" in f.name]
    if len(subs) != 1:
        return False
    f = subs[0]
    rt = strip_sites(ctx.analysis(f).return_term())
    p = ("param", f.pos_params[0])
    return rt[0] == "comp" and rt[2] == ("attr", ("elem", ("attr", ("attr", p, "args"), "args")), "arg") and len(rt[3]) == 1 and not rt[3][0][1]


PAIRS = {"(": ")", "[": "]", "{": "}"}


def _check_brackets_by_interpretation(run: Run, tt) -> bool:
    """decide C03.R4 by interpreting the loop of tokens_till on a finite set of token sequences (sa/tokstep.py); False when
    the function uses something outside the interpreter's subset (the syntactic reading then applies)"""
    import tokenize as _tk

    from ..tokstep import Tok, Unsupported, bracket_scenarios, simulate

    lits = {k: v for k, v in tt.module.assigns.items()}
    stop = {_tk.OP: [",", ")"]}
    results = []
    try:
        for name, toks, want, meaning in bracket_scenarios():
            _y, got = simulate(tt.node, lits, toks, stop)
            results.append((name, toks, want, got, meaning))
        y, got = simulate(tt.node, lits, [Tok(_tk.COMMENT, "# c"), Tok(_tk.NAME, "x"), Tok(_tk.OP, ",")], stop)
    except Unsupported as e:
        run.notes["tokens_till_interpreter"] = f"not applicable: {e}"
        return False
    except RecursionError:
        return False
    run.notes["tokens_till_interpreter"] = f"{len(results)} token sequences interpreted"
    for name, toks, want, got, meaning in results:
        run.check(got == want, "C03.R4", tt, tt.node, f"token sequence '{name}': scan " + ("runs on" if want is None else f"stops at token {want}"), f"on the token sequence {' '.join(repr(t) for t in toks)} the scan " + ("runs to the end" if got is None else f"stops at token {got}") + " where it must " + ("run on" if want is None else f"stop at token {want}") + f": {meaning}", "count ( [ { and their partners, for operator tokens only; stop only at depth zero", key=f"bracket scan: {name}")
    ok_y = [repr(t) for t in y] == ["NAME:'x'"] and got == 2
    run.check(ok_y, "C03.R4", tt, tt.node, "comments are dropped, every other token is yielded", f"on # c / x / , the scan yields {[repr(t) for t in y]} and stops at {got}: comment tokens are not skipped (text in a comment becomes part of the recovered lambda source) or other tokens are lost", key="bracket scan: comments dropped")
    return True


def _check_brackets(run: Run, tt) -> None:
    """tokens_till: counters per bracket kind."""
    if _check_brackets_by_interpretation(run, tt):
        return
    inc = {}
    dec = {}
    steps = []
    for n in own_nodes(tt):
        if isinstance(n, ast.AugAssign) and isinstance(n.target, ast.Name) and isinstance(n.value, ast.Constant) and n.value.value == 1:
            # find the governing comparison t.string == "<bracket>" (or t.string in ("(", "[", "{"))
            cond = _governing_string_test(n)
            if cond is None:
                continue
            for c_ in (cond if isinstance(cond, tuple) else (cond,)):
                (inc if isinstance(n.op, ast.Add) else dec)[c_] = n.target.id
            steps.append(n)
    if not inc and not dec:
        inc, dec = _delta_counters(tt)
    if not inc and not dec:
        inc, dec = _table_counters(run, tt)
    run.floor("C03.R4", len(inc), 3, "bracket-open counters")
    for o, c in PAIRS.items():
        ok = o in inc and c in dec and inc[o] == dec[c]
        run.check(ok, "C03.R4", tt, tt.node, f"'{o}' increments and '{c}' decrements the same counter", f"bracket pair {o}{c} is not tracked by one counter (open -> {inc.get(o)}, close -> {dec.get(c)}): the extent of a lambda containing such brackets is mis-measured")
    counters = set(inc.values())
    # (one counter per kind or one nesting depth for all: the source compiled, so brackets are properly nested either way)
    # the text of a token says "bracket" only for operator tokens: the literal part of an f-string (FSTRING_MIDDLE on 3.12)
    # can be exactly "(" - a string containing a bracket, which the scan has to step over
    from ..terms import TermCtx as _T0

    fa0 = _T0(run.model, max_depth=1).analysis(tt)
    for n in steps:
        is_op = False
        for a, pol in Facts(fa0, n).atoms:
            if isinstance(a, ast.Compare) and len(a.ops) == 1 and isinstance(a.left, ast.Attribute) and a.left.attr in ("type", "exact_type"):
                rhs = ast.unparse(a.comparators[0])
                if isinstance(a.ops[0], ast.Eq) and pol and (rhs.split(".")[-1] == "OP" or a.left.attr == "exact_type"):
                    is_op = True
                if isinstance(a.ops[0], ast.In) and pol and isinstance(a.comparators[0], (ast.Tuple, ast.List, ast.Set)) and all(ast.unparse(e_).split(".")[-1] == "OP" or a.left.attr == "exact_type" for e_ in a.comparators[0].elts):
                    is_op = True
        run.check(is_op, "C03.R4", tt, n, "bracket text is counted for operator tokens only", "the text of a token is counted as a bracket whatever the token's type: the literal part of an f-string that is exactly one bracket (f\"({e.pt}\" on Python 3.12) moves the depth, so the extent of the lambda overruns or ends early - a documented layout (strings containing brackets) is no longer recovered", "if t.type == tokenize.OP: ..")
    # stop test requires every counter zero: facts at the generator's bare `return`
    from ..terms import TermCtx as _T

    fa = _T(run.model, max_depth=1).analysis(tt)
    rets = [n for n in own_nodes(tt) if isinstance(n, ast.Return)]
    ok_stop = bool(rets)
    for r in rets:
        fx = Facts(fa, r)
        zeros = set()
        for a, pol in fx.atoms:
            if pol and isinstance(a, ast.Compare) and len(a.ops) > 1 and all(isinstance(o_, ast.Eq) for o_ in a.ops) and any(isinstance(x_, ast.Constant) and x_.value == 0 and type(x_.value) is int for x_ in [a.left] + list(a.comparators)):
                # a == b == c == 0: every operand equals 0
                zeros |= {_ckey(x_) for x_ in [a.left] + list(a.comparators) if _ckey(x_) is not None}
                continue
            if pol and isinstance(a, ast.Compare) and _ckey(a.left) is not None and isinstance(a.ops[0], ast.Eq) and isinstance(a.comparators[0], ast.Constant) and a.comparators[0].value == 0:
                zeros.add(_ckey(a.left))
            if not pol and not isinstance(a, ast.Compare) and _ckey(a) is not None:
                zeros.add(_ckey(a))  # `not (parens or brackets or braces)`: an integer counter is falsy exactly when it is 0
        ok_stop = ok_stop and bool(counters) and zeros >= counters
    run.check(ok_stop, "C03.R4", tt, tt.node, "stop condition requires all three counters to be zero", "the stop token is honoured although some bracket kind is still open: a ',' or ')' inside brackets ends the lambda early")
    # comments are dropped: the yield is reached only for non-comment tokens
    ys = [n for n in own_nodes(tt) if isinstance(n, (ast.Yield, ast.YieldFrom))]
    run.check(len(ys) == 1, "C03.R4", tt, tt.node, "every other token is yielded", f"{len(ys)} yield points")
    ok_c = False
    for y in ys:
        fx = Facts(fa, y)
        for a, pol in fx.atoms:
            if isinstance(a, ast.Compare) and "COMMENT" in ast.unparse(a) and isinstance(a.ops[0], ast.Eq) and not pol:
                ok_c = True
    if not ok_c and len(ys) == 1:
        # per path through one iteration: a path that reaches the yield knows the token is no comment - because the
        # comment test failed on it, or because the token's type was found equal to another kind
        loops_ = [n for n in own_nodes(tt) if isinstance(n, ast.For) and any(y_ is ys[0] for y_ in ast.walk(n))]
        if len(loops_) == 1 and fa.cfg.has_node(loops_[0]):
            head_ = fa.cfg.node_of(loops_[0])
            yn_ = fa.cfg.node_of(ys[0])
            inside_ = {id(fa.cfg.node_of(x)) for x in ast.walk(loops_[0]) if fa.cfg.has_node(x)}
            try:
                paths_ = fa.cfg.body_paths(head_, lambda c_: id(c_) in inside_)
            except AnalysisError:
                paths_ = []
            through = [(p_, f_) for p_, f_ in paths_ if any(c_ is yn_ for c_ in p_)]

            def _knows(f_):
                for a, pol in [norm_atom(a0, p0) for a0, p0 in f_]:
                    if isinstance(a, ast.Compare) and len(a.ops) == 1 and isinstance(a.ops[0], ast.Eq) and isinstance(a.left, ast.Attribute) and a.left.attr == "type":
                        kind = ast.unparse(a.comparators[0]).split(".")[-1]
                        if (kind == "COMMENT" and not pol) or (kind != "COMMENT" and kind.isupper() and pol):
                            return True
                return False

            ok_c = bool(through) and all(_knows(f_) for _p, f_ in through)
    run.check(ok_c, "C03.R4", tt, tt.node, "comment tokens are dropped", "comment tokens are not skipped: text in a comment becomes part of the recovered lambda source")


def _delta_counters(tt):
    """delta form: `d = 1` / `d = -1` under the governing test of a bracket text and `d = 0` everywhere else,
    then `counter += d` once per token"""
    inc, dec = {}, {}
    for n in own_nodes(tt):
        if not (isinstance(n, ast.AugAssign) and isinstance(n.op, ast.Add) and isinstance(n.target, ast.Name) and isinstance(n.value, ast.Name)):
            continue
        d = n.value.id
        stores = [x for x in own_nodes(tt) if isinstance(x, ast.Name) and x.id == d and isinstance(x.ctx, ast.Store)]
        defs = [x for x in own_nodes(tt) if isinstance(x, ast.Assign) and len(x.targets) == 1 and isinstance(x.targets[0], ast.Name) and x.targets[0].id == d]
        if len(stores) != len(defs) or not defs:
            continue
        vals = []
        for x in defs:
            try:
                vals.append(ast.literal_eval(x.value))
            except Exception:
                vals = None
                break
        if vals is None or any(type(v) is not int or v not in (0, 1, -1) for v in vals):
            continue
        if _governing_string_test(n) is not None:
            continue
        for x, v in zip(defs, vals):
            if v == 0:
                continue
            cond = _governing_string_test(x)
            if cond is None:
                # a non-zero step that no bracket text governs: not this form
                raise AnalysisError(f"C03.R4: the step {d} = {v} at line {x.lineno} is not governed by a test of the token text")
            (inc if v == 1 else dec)[cond] = n.target.id
    return inc, dec


def _ckey(e):
    """identity of a counter: a local name, or a constant slot of a local list"""
    if isinstance(e, ast.Name):
        return e.id
    if isinstance(e, ast.Subscript) and isinstance(e.value, ast.Name) and isinstance(e.slice, ast.Constant) and isinstance(e.slice.value, (int, str)):
        return f"{e.value.id}[{e.slice.value!r}]"
    return None


def _table_counters(run: Run, tt):
    """table-driven form: T = {"(": (slot, +1), ")": (slot, -1), ..} (a local or a module-level literal nothing writes);
    `which, delta = T[x.string]` under `x.string in T`, or `e = T.get(x.string)` / `which, delta = e` under
    `e is not None`; then `D[which] += delta`."""
    from ..terms import TermCtx as _T

    inc, dec = {}, {}
    m = run.model
    fa = _T(m, max_depth=1).analysis(tt)

    def literal(d):
        ent = {}
        if not isinstance(d, ast.Dict):
            return None
        for k, v in zip(d.keys, d.values):
            if not (isinstance(k, ast.Constant) and isinstance(k.value, str) and isinstance(v, ast.Tuple) and len(v.elts) == 2):
                return None
            try:
                slot, dl = ast.literal_eval(v.elts[0]), ast.literal_eval(v.elts[1])
            except Exception:
                return None
            if not (isinstance(slot, (int, str)) and not isinstance(slot, bool) and dl in (1, -1)):
                return None
            ent[k.value] = (slot, dl)
        return ent or None

    def table_of(name):
        loc = [n for n in own_nodes(tt) if isinstance(n, (ast.Assign, ast.AnnAssign)) and isinstance((n.targets[0] if isinstance(n, ast.Assign) else n.target), ast.Name) and (n.targets[0] if isinstance(n, ast.Assign) else n.target).id == name]
        stores = sum(1 for n in own_nodes(tt) if isinstance(n, ast.Name) and n.id == name and isinstance(n.ctx, ast.Store))
        if loc:
            return literal(loc[0].value) if len(loc) == 1 and stores == 1 else None
        lit = tt.module.assigns.get(name)
        if lit is None:
            return None
        for f in m.funcs.values():
            if f.module is tt.module:
                for n in own_nodes(f):
                    if isinstance(n, ast.Name) and n.id == name and isinstance(n.ctx, (ast.Store, ast.Del)):
                        return None
                    if isinstance(n, ast.Subscript) and isinstance(n.ctx, (ast.Store, ast.Del)) and isinstance(n.value, ast.Name) and n.value.id == name:
                        return None
        return literal(lit)

    def single_def(name):
        ds = [a for a in own_nodes(tt) if isinstance(a, ast.Assign) and len(a.targets) == 1 and any(isinstance(x, ast.Name) and x.id == name for x in ast.walk(a.targets[0]))]
        st = sum(1 for a in own_nodes(tt) if isinstance(a, ast.Name) and a.id == name and isinstance(a.ctx, ast.Store))
        return ds[0] if len(ds) == 1 and st == 1 else None

    for n in own_nodes(tt):
        if not (isinstance(n, ast.AugAssign) and isinstance(n.op, ast.Add) and isinstance(n.target, ast.Subscript) and isinstance(n.target.value, ast.Name) and isinstance(n.target.slice, ast.Name) and isinstance(n.value, ast.Name)):
            continue
        which, delta, lst = n.target.slice.id, n.value.id, n.target.value.id
        un = single_def(which)
        if un is None or un is not single_def(delta) or not (isinstance(un.targets[0], ast.Tuple) and [getattr(e, "id", None) for e in un.targets[0].elts] == [which, delta]):
            continue
        look = un.value
        via = None
        if isinstance(look, ast.Name):  # e = T.get(key); which, delta = e
            via = look.id
            d0 = single_def(via)
            if d0 is None or not isinstance(d0.targets[0], ast.Name):
                continue
            look = d0.value
        tname = key = None
        guarded = False
        atoms = Facts(fa, n).atoms
        if isinstance(look, ast.Subscript) and isinstance(look.value, ast.Name):
            tname, key = look.value.id, ast.unparse(look.slice)
            guarded = any(pol and isinstance(a, ast.Compare) and len(a.ops) == 1 and isinstance(a.ops[0], ast.In) and ast.unparse(a.left) == key and isinstance(a.comparators[0], ast.Name) and a.comparators[0].id == tname for a, pol in atoms)
        elif isinstance(look, ast.Call) and isinstance(look.func, ast.Attribute) and look.func.attr == "get" and isinstance(look.func.value, ast.Name) and len(look.args) == 1 and not look.keywords and via is not None:
            tname, key = look.func.value.id, ast.unparse(look.args[0])
            guarded = any(isinstance(a, ast.Compare) and len(a.ops) == 1 and isinstance(a.left, ast.Name) and a.left.id == via and isinstance(a.comparators[0], ast.Constant) and a.comparators[0].value is None and ((isinstance(a.ops[0], ast.IsNot) and pol) or (isinstance(a.ops[0], ast.Is) and not pol)) for a, pol in atoms)
        if tname is None or "string" not in key or not guarded:
            continue
        ent = table_of(tname)
        if ent is None or not fa.cfg.dominates(fa.cfg.node_of(un), fa.cfg.node_of(n)):
            continue
        for br, (slot, d) in ent.items():
            (inc if d == 1 else dec)[br] = f"{lst}[{slot!r}]"
    return inc, dec


def _enclosing_if(n):
    from ..model import ancestors

    for a in ancestors(n):
        if isinstance(a, ast.If):
            return a
        if isinstance(a, (ast.For, ast.While, ast.FunctionDef)):
            return None
    return None


def _governing_string_test(n: ast.AST):
    from ..model import ancestors, parent

    child = n
    for a in ancestors(n):
        if isinstance(a, ast.If) and child in a.body:
            t = a.test
            if isinstance(t, ast.Compare) and len(t.ops) == 1 and isinstance(t.ops[0], ast.In) and isinstance(t.comparators[0], (ast.Tuple, ast.List, ast.Set)) and t.comparators[0].elts and all(isinstance(e_, ast.Constant) and isinstance(e_.value, str) for e_ in t.comparators[0].elts) and "string" in ast.unparse(t.left):
                return tuple(e_.value for e_ in t.comparators[0].elts)
            if isinstance(t, ast.Compare) and isinstance(t.ops[0], ast.Eq) and isinstance(t.comparators[0], ast.Constant) and isinstance(t.comparators[0].value, str):
                left = t.left
                if isinstance(left, ast.Name):
                    # op = token.string; if op == "(": ..  - a local that names the token's text
                    fn_ = next((x for x in ancestors(n) if isinstance(x, (ast.FunctionDef, ast.AsyncFunctionDef))), None)
                    defs_ = [x for x in ast.walk(fn_) if isinstance(x, ast.Assign) and len(x.targets) == 1 and isinstance(x.targets[0], ast.Name) and x.targets[0].id == left.id] if fn_ is not None else []
                    if len(defs_) == 1:
                        left = defs_[0].value
                if "string" in ast.unparse(left):
                    return t.comparators[0].value
            return None
        if isinstance(a, (ast.For, ast.FunctionDef)):
            return None
        child = a
    return None
