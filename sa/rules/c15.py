"""C15 - MetaData extraction and empty-metadata removal are exact (func_adl/ast/meta_data.py)."""
from __future__ import annotations

import ast

from ..effects import effects_for, loc_show
from ..lib import Facts, calls_in, len_eq, own_nodes, stmt_of
from ..model import AnalysisError
from ..report import Run
from ..terms import TermCtx, contains, show, strip_sites, unphi_terms

EXPLANATION = (
    "in _extract_metadata.visit_Call the wrapper case appends the wrapper's own dictionary before it visits the wrapper's source (outer "
    "before inner, R1), returns self.visit(source) - the source node itself is dispatched, so adjacent wrappers are all removed - and every "
    "other call goes through the base visit_Call/generic_visit (all depths, R2); the wrapper case is guarded by 'callee is the Name "
    "MetaData', and remove_empty_metadata removes only under name == MetaData, two arguments, literal dict of length 0, applied bottom-up "
    "to the visited node (R3); remove_empty_metadata has no mutation primitive that reaches its argument (R4)."
)
NOT_DECIDED = "full structural equality of the untouched remainder of the query."


def check(run: Run) -> None:
    m = run.model
    run.rule("C15.R1", "the append of the wrapper's dictionary dominates the recursive visit of its source")
    run.rule("C15.R2", "wrapper case returns self.visit(node.args[0]); every other call is handled by the base visit_Call (generic_visit)")
    run.rule("C15.R3", "wrapper case guarded by func is Name 'MetaData'; cleaner removes only MetaData(x, {}) with exactly two args, on the visited node")
    run.rule("C15.R4", "remove_empty_metadata does not mutate the ast it is given (deep copy, or a copy-on-write transformer)")
    ctx = TermCtx(m, max_depth=3)
    from ..lib import used_visitor

    ex_cls = used_visitor(m, ctx, m.find_func("extract_metadata", in_module="func_adl.ast.meta_data"), True)
    from ..terms import subst

    vc = ex_cls.methods.get("visit_Call")
    bind = {}
    handler_form = False
    if vc is None:
        # the dispatch protocol of the base class: call_MetaData(self, node, node.args) is reached exactly for calls of the
        # Name MetaData, every other call goes through the inherited visit_Call
        vc = ex_cls.methods.get("call_MetaData")
        if vc is None or len(vc.pos_params) != 3:
            raise AnalysisError("anchor vanished: _extract_metadata.visit_Call / call_MetaData(self, node, args)")
        handler_form = True
        bind = {("param", vc.pos_params[2]): ("attr", ("param", vc.pos_params[1]), "args")}
    from ..lib import view as _view_e

    vc = _view_e(m, vc)  # recording and stripping may sit in a private method visit_Call returns through
    fa = ctx.analysis(vc)
    nodep = ("param", vc.pos_params[1])
    selfp = ("param", vc.pos_params[0])
    base = m.find_method(ex_cls, "visit_Call", skip_self=True) if not handler_form else None
    base_rt = None
    if base is not None:
        base_rt = strip_sites(ctx.analysis(base).return_term())
    n_wrap = 0
    for s, n in fa.returns():
        t = strip_sites(fa.term_of(s.value, n)) if s.value is not None else ("const", None)
        t = subst(t, bind) if bind else t
        src = ("index", ("attr", nodep, "args"), 0)
        if t == ("visit", src):
            n_wrap += 1
            run.ok("C15.R2", vc, "wrapper case returns self.visit(source)")
            fx = Facts(fa, s)
            names = fx.str_equals(("attr", ("attr", nodep, "func"), "id"))
            run.check(handler_form or (names == {"MetaData"} and fx.isinstance_of(("attr", nodep, "func"), {"ast.Name"})), "C15.R3", vc, s, "wrapper case guarded by callee is Name('MetaData')", f"wrapper removal is not restricted to calls of the Name MetaData (names: {sorted(names)})")
            # R1: append dominates
            apps = [c for c in calls_in(vc) if isinstance(c.func, ast.Attribute) and c.func.attr in ("append", "insert", "extend")]
            good = []
            for c in apps:
                tgt = strip_sites(fa.term_of(c.func.value))
                if tgt[0] == "attr" and tgt[1] == selfp:
                    argt = strip_sites(fa.term_of(c.args[-1])) if c.args else None
                    argt = subst(argt, bind) if bind and argt is not None else argt
                    want = ("app", ("global", "ast.literal_eval"), (("index", ("attr", nodep, "args"), 1),), ())
                    if c.func.attr == "append" and argt == want and fa.cfg.dominates(fa.cfg.node_of(c), n):
                        good.append(c)
                    elif c.func.attr != "append":
                        run.fail("C15.R1", vc, stmt_of(c), f"metadata recorded with .{c.func.attr}(): order 'outer before inner' is not kept")
            run.check(len(good) == 1, "C15.R1", vc, s, "the wrapper's dictionary (literal_eval(args[1])) is appended before its source is visited", "the wrapper's dictionary is not appended exactly once before the recursive visit: an outer wrapper no longer precedes the wrappers inside its source")
            continue
        if t[0] in ("gvisit",) and strip_sites(t[1]) == src:
            run.fail("C15.R2", vc, s, "wrapper case enters its source with generic_visit: the source node itself is not dispatched, so a directly nested MetaData wrapper is neither removed nor collected", "return self.visit(node.args[0])", show(t))
            n_wrap += 1
            continue
        # the non-wrapper path: must be the base visit_Call result on the same node
        if base_rt is not None and t == _subst_param(base_rt, ("param", base.pos_params[1]), nodep):
            run.ok("C15.R2", vc, "other calls: base visit_Call (dispatch or generic_visit)")
            continue
        if t == ("gvisit", nodep):
            run.ok("C15.R2", vc, "other calls: generic_visit(node)")
            continue
        run.fail("C15.R2", vc, s, f"a call that is not a MetaData wrapper is returned as {show(t)[:120]}: wrappers inside its arguments / lambdas are not extracted", "super().visit_Call(node)", show(t))
    run.check(n_wrap == 1, "C15.R2", vc, vc.node, "exactly one wrapper-removal path", f"{n_wrap} wrapper-removal paths")
    if any(p.kind != "return" for p, _ in fa.cfg.exit.pred):
        run.fail("C15.R2", vc, vc.node, "a path of visit_Call returns None (the call is deleted)")

    # every dispatch entry of the extractor, inherited ones included, visits what it embeds in its result
    from ..visitors import dispatch_entries, unvisited_in_entry

    ectx = TermCtx(m, max_depth=3)
    for ent in dispatch_entries(m, ex_cls):
        for s_, leaked, whole in unvisited_in_entry(ectx, ent):
            if (ent is vc or ent is vc.__dict__.get("_unrolled_from")) and (subst(leaked, bind) if bind else leaked) == ("index", ("attr", nodep, "args"), 1):
                continue  # the wrapper's dictionary literal is consumed, not embedded
            run.fail("C15.R2", ent, s_, f"{ent.name} puts {show(leaked)} into its result without visiting it: MetaData wrappers inside it (arguments, keyword values, lambda bodies) are collected or removed only in part", "self.generic_visit(node)", show(whole)[:200])
    for base_m in [f for f in m.all_methods(ex_cls).values() if f.name == "visit_Call" and f is not vc and f is not vc.__dict__.get("_unrolled_from")]:
        fb = ectx.analysis(base_m)
        gvs = [c for c in calls_in(base_m) if isinstance(c.func, ast.Attribute) and c.func.attr == "generic_visit"]
        rets_ok = all(all(a[0] in ("gvisit", "app") for a in unphi_terms(strip_sites(fb.term_of(s_.value, n_)))) for s_, n_ in fb.returns())
        run.check(bool(gvs) and rets_ok, "C15.R2", base_m, base_m.node, "the inherited visit_Call falls back to generic_visit (all children, keywords included)", "the base visit_Call does not traverse every child of calls it does not dispatch: wrappers in keyword values / nested arguments are missed")

    # driver
    drv = m.find_func("extract_metadata", in_module="func_adl.ast.meta_data")
    fd = ctx.analysis(drv)
    rt = strip_sites(fd.return_term())
    ok = rt[0] == "tuple" and len(rt[1]) == 2 and rt[1][0][0] == "tvisit" and rt[1][0][1] == ex_cls.qual and rt[1][0][2] == ("param", drv.pos_params[0])
    ok2 = ok and strip_sites(rt[1][1])[0] == "attr" and rt[1][1][2] == "_metadata"
    run.check(ok and ok2, "C15.R2", drv, drv.node, "extract_metadata returns (transformer.visit(a), collected list)", f"extract_metadata returns {show(rt)[:140]}", term=show(rt))
    md_prop = ex_cls.methods.get("metadata")
    if md_prop is not None:
        prt = strip_sites(ctx.analysis(md_prop).return_term())
        run.check(prt == ("attr", ("param", md_prop.pos_params[0]), "_metadata"), "C15.R1", md_prop, md_prop.node, "metadata property returns the list in encounter order", f"metadata property returns {show(prt)[:100]} (order / content changed)", term=show(prt))

    # ---------------- cleaner
    rem = m.find_func("remove_empty_metadata", in_module="func_adl.ast.meta_data")
    from ..lib import used_visitor

    cleaners = [used_visitor(m, ctx, rem, True)]
    if len(cleaners) != 1 or "visit_Call" not in cleaners[0].methods:
        raise AnalysisError("remove_empty_metadata no longer contains one NodeTransformer with visit_Call")
    cc = cleaners[0]
    from ..lib import view as _view_c

    cv = _view_c(m, cc.methods["visit_Call"])  # the work may sit in private methods visit_Call returns through
    fc = ctx.analysis(cv)
    cnode = ("param", cv.pos_params[1])
    V = ("gvisit", cnode)
    n_rm = 0
    for s, n in fc.returns():
        t = strip_sites(fc.term_of(s.value, n)) if s.value is not None else ("const", None)
        if t == V:
            run.ok("C15.R3", cv, "keeps the (visited) call")
            continue
        if t == ("index", ("attr", V, "args"), 0):
            n_rm += 1
            fx = Facts(fc, s)
            names = fx.str_equals(("attr", ("attr", V, "func"), "id"))
            g_name = names == {"MetaData"} and fx.isinstance_of(("attr", V, "func"), {"ast.Name"})
            g_two = any((le := len_eq(a)) is not None and pol and le[1] == "Eq" and le[2] == 2 and strip_sites(fc.term_of(le[0])) == ("attr", V, "args") for a, pol in fx.atoms)
            d_term = ("app", ("global", "ast.literal_eval"), (("index", ("attr", V, "args"), 1),), ())
            g_dict = any(isinstance(a, ast.Call) and isinstance(a.func, ast.Name) and a.func.id == "isinstance" and pol and strip_sites(fc.term_of(a.args[0])) == d_term and isinstance(a.args[1], ast.Name) and a.args[1].id == "dict" for a, pol in fx.atoms)
            g_empty = any((le := len_eq(a)) is not None and pol and le[1] == "Eq" and le[2] == 0 and strip_sites(fc.term_of(le[0])) == d_term for a, pol in fx.atoms) or any((not pol) and strip_sites(fc.term_of(a)) == d_term for a, pol in fx.atoms if isinstance(a, ast.expr) and not isinstance(a, (ast.Compare, ast.Call)))
            run.check(g_name, "C15.R3", cv, s, "removal guarded by callee is Name('MetaData')", "removal of a wrapper is not restricted to calls of the Name MetaData")
            run.check(g_two, "C15.R3", cv, s, "removal guarded by len(args) == 2", "removal is not guarded by 'exactly two arguments'")
            by_eval = g_dict and g_empty
            a1 = ("index", ("attr", V, "args"), 1)
            s_dict = fx.isinstance_of(a1, {"ast.Dict"})
            fields1 = {("attr", a1, "keys"), ("attr", a1, "values")}
            s_empty = any((le := len_eq(a)) is not None and pol and le[1] == "Eq" and le[2] == 0 and strip_sites(fc.term_of(le[0])) in fields1 for a, pol in fx.atoms) or any((not pol) and isinstance(a, ast.expr) and not isinstance(a, (ast.Compare, ast.Call)) and strip_sites(fc.term_of(a)) in fields1 for a, pol in fx.atoms)
            if by_eval and not s_dict:
                run.fail("C15.R3", cv, s, "whether a wrapper is empty is decided by evaluating its second argument (ast.literal_eval) without knowing that it is a literal: for a wrapper whose dictionary is a name or an expression - certainly not an *empty* wrapper - the cleaner raises ValueError instead of keeping it in place, and value() fails before any executor is called", "isinstance(n.args[1], ast.Dict) and len(n.args[1].keys) == 0", key="emptiness decided by evaluating the argument")
            else:
                run.check(s_dict and s_empty, "C15.R3", cv, s, "removal guarded by 'the dictionary argument is a literal ast.Dict without entries'", "a wrapper is removed although its dictionary is not known to be an empty dict literal: non-empty metadata may be dropped")
            continue
        run.fail("C15.R3", cv, s, f"cleaner returns {show(t)[:120]}: expected the visited call or its source", "n or n.args[0]", show(t))
    run.check(n_rm == 1, "C15.R3", cv, cv.node, "exactly one removal path", f"{n_rm} removal paths")
    if any(p.kind != "return" for p, _ in fc.cfg.exit.pred):
        run.fail("C15.R3", cv, cv.node, "a path of the cleaner's visit_Call returns None (the call is deleted)")
    fr = ctx.analysis(rem)
    rrt = strip_sites(fr.return_term())
    arg = ("param", rem.pos_params[0])
    ok = rrt[0] == "tvisit" and rrt[1] == cc.qual and (rrt[2] == arg or rrt[2] == ("app", ("global", "copy.deepcopy"), (arg,), ()))
    run.check(ok, "C15.R3", rem, rem.node, "remove_empty_metadata returns cleaner.visit(a)", f"remove_empty_metadata returns {show(rrt)[:120]}", term=show(rrt))

    # ---------------- R4
    eff = effects_for(m)
    run.notes["cleaner_kind"] = f"{eff.kind.get(cc.qual)}: {eff.cow_reason.get(cc.qual)}"
    bad = [x for x in eff.summary.get(rem.qual, []) if x.loc[0] == arg]
    for x in bad:
        run.fail("C15.R4", rem, x.stmt, f"remove_empty_metadata mutates the ast it is given ({x.kind} on {loc_show(x.loc)}{' via ' + x.via if x.via else ''}); cleaner is {eff.kind.get(cc.qual)}: {eff.cow_reason.get(cc.qual)}", "visit a deep copy, or make generic_visit copy the node and every list field before delegating")
    if not bad:
        run.ok("C15.R4", rem, "no mutation primitive reaches the argument", run.notes["cleaner_kind"])

    # ---------------- R5: "returns a new ast": unless the argument was copied as a whole, no handler of the cleaner hands back a
    # node of the argument itself - a sub-tree returned as it came is shared between the result and the ast that was given,
    # and value() hands that result to executors, which post-process what they receive in place
    run.rule("C15.R5", "the result of remove_empty_metadata shares no node with its argument: every handler of the cleaner returns (something built from) the copy made by its generic_visit, never the node it was handed")
    whole_copy = rrt[0] == "tvisit" and rrt[2] == ("app", ("global", "copy.deepcopy"), (arg,), ())
    n_h = 0
    if not whole_copy:
        from ..visitors import dispatch_entries

        for ent in dispatch_entries(m, cc):
            en = getattr(ent, "entry_name", ent.name)
            if len(ent.pos_params) < 2:
                continue
            n_h += 1
            fe = ctx.analysis(ent)
            np_ = ("param", ent.pos_params[1])
            for s_, nd_ in fe.returns():
                t_ = strip_sites(fe.term_of(s_.value, nd_)) if s_.value is not None else ("const", None)
                for a_ in unphi_terms(t_):
                    raw = a_ == np_ or (a_[0] in ("attr", "index") and contains(a_, lambda q: q == np_) and not contains(a_, lambda q: q[0] in ("gvisit", "visit", "tvisit", "app")))
                    run.check(not raw, "C15.R5", ent, s_, f"{en} returns a copy", f"{en} of the empty-metadata cleaner returns {show(a_)[:60]} - the very node it was handed, not a copy: that sub-tree (a whole lambda, say) is shared between the 'new ast' and the stream's own query, so an executor that normalises the ast it receives in place (method calls to function calls, ..) rewrites the stream, its ancestors and its siblings", "return self.generic_visit(node)", show(a_)[:200], key=f"cleaner handler {en} returns its node uncopied")
    run.notes["cleaner_handlers_checked"] = n_h


def _subst_param(t, old, new):
    if t == old:
        return new
    if isinstance(t, tuple):
        return tuple(_subst_param(x, old, new) for x in t)
    return t
