"""C14 - intermediate tuples and dictionaries are compiled away (func_adl/ast/function_simplifier.py)."""
from __future__ import annotations

import ast

from .. import fusion
from ..lib import Facts, calls_in, match_isinstance, own_nodes, stmt_of
from ..model import AnalysisError
from ..report import Run
from ..terms import TermCtx, show, strip_sites, strip_visits, unphi_terms
from ..visitors import dispatch_entries, unvisited_in_entry

EXPLANATION = (
    "necessary conditions for elimination to complete: (R1) in every dispatch entry of simplify_chained_calls no raw (unvisited) sub-tree of the "
    "node reaches the output outside a visit, and every position the fusion laws visit - including each newly built operator call whose "
    "source is a lambda body, so that fusion and projection continue inside it - is visited by the implementation; (R2) the projection "
    "and First() push-through dispatch on the *visited* value (what the expression is after substitution), for Tuple, List, Dict and "
    "First; (R3) each (Subscript x Tuple/List/Dict) and (Attribute x Dict) case has a handler returning the selected element."
    " In R3 the attribute node is rebuilt only when the visited value is *not* a Dict literal (the result of the key lookup is never discarded), and every attribute of a Dict literal is looked up."
)
NOT_DECIDED = "that elimination completes for every chain (a fixpoint statement about the rewriting system); equality of results (C02)."


def check(run: Run) -> None:
    m = run.model
    run.rule("C14.R1", "no unvisited subtree reaches the output of any simplifier entry; every position the fusion laws visit is visited (incl. re-dispatch of newly built operator calls)")
    run.rule("C14.R2", "visit_Subscript / visit_Attribute dispatch (Tuple, List, Dict, First) on the visited value")
    run.rule("C14.R3", "projection handlers exist for Subscript x {Tuple, List, Dict} and Attribute x Dict and return the selected element")
    ctx = TermCtx(m, opaque=fusion.OPAQUE, identity={"lambda_unwrap"}, max_depth=5)
    cls = m.find_class("simplify_chained_calls", in_module="func_adl.ast.function_simplifier")
    entries = dispatch_entries(m, cls)
    run.floor("C14.R1", len(entries), 7, "dispatch entries of simplify_chained_calls")
    for fi in entries:
        lk = unvisited_in_entry(ctx, fi)
        seen = set()
        for s, leaked, whole in lk:
            key = (id(s), leaked)
            if key in seen:
                continue
            seen.add(key)
            run.fail("C14.R1", fi, s, f"the raw sub-tree {show(leaked)} reaches the result without being visited: simplification (substitution, projection, fusion) is not applied inside it", "self.visit(...) it, directly or as part of a visited term", show(whole)[:400])
        if not lk:
            run.ok("C14.R1", fi, "every sub-tree embedded in the result is visited")
    recs = fusion.compare(m, ctx)
    run.floor("C14.R1", len(recs), 11, "fusion branches")
    for r in recs:
        if r["kind"] == "visit":
            run.fail("C14.R1", r["impl"], r["stmt"], f"{r['entry']} branch {r['branch']}: {r['why']}: the rebuilt operator nest is not re-dispatched, so packaging inside it survives", "visit the rebuilt call like the fusion law does", show(r["term"])[:400])
        elif r["kind"] == "ok":
            run.ok("C14.R1", r["impl"], f"{r['entry']} branch {r['branch']} visits every position the law visits")
        elif r["kind"] in ("wiring", "missing-branch", "extra-branch", "subject"):
            # wiring is C02's business; here only note that the visit comparison could not be made
            run.fail("C14.R1", r["impl"], r["stmt"], f"{r['entry']} branch {r['branch']}: {r['why']} (fusion shape differs from the law, producer and consumer lambdas are not brought together as specified)", term=show(r["term"])[:300] if r.get("term") else "")

    # ---------------- R4: the renaming helper that fusion relies on (shared with C02.R2)
    run.rule("C14.R4", "make_args_unique renames through a stack whose pushes and pops pair up (a stale entry leaves an unresolved projection behind)")
    from ..report import Relabel
    from .c02 import _check_make_args_unique

    _check_make_args_unique(Relabel(run, "C14.R4"), ctx, m)

    # ---------------- R2
    for name, attr_of_value in (("visit_Subscript", "value"), ("visit_Attribute", "value")):
        fi = cls.methods.get(name)
        if fi is None:
            raise AnalysisError(f"anchor vanished: simplify_chained_calls.{name}")
        from ..normalise import unrolled

        fi = unrolled(m, fi)
        fa = ctx.analysis(fi)
        nodep = ("param", fi.pos_params[1])
        raw = ("attr", nodep, attr_of_value)
        visited = ("visit", raw)
        n_tests = 0
        kinds = set()
        for n in own_nodes(fi):
            subj = None
            what = None
            got = match_isinstance(n) if isinstance(n, (ast.Call, ast.Compare)) else None
            if got is not None:
                subj = got[0]
                what = "/".join(sorted((ast.unparse(c) for c in got[1])))
            elif isinstance(n, ast.Call) and isinstance(n.func, ast.Name) and n.func.id == "is_call_of" and len(n.args) == 2 and isinstance(n.args[1], ast.Constant):
                subj = n.args[0]
                what = f"{n.args[1].value}()"
            if subj is None or not fa.cfg.has_node(subj):
                continue
            t = strip_sites(fa.term_of(subj))
            if strip_visits(t) != raw:
                continue
            n_tests += 1
            kinds.add(what)
            run.check(t == visited, "C14.R2", fi, stmt_of(n), f"dispatch test for {what} is made on the visited value", f"{name} tests for {what} on the un-visited {show(t)}: a value that only becomes {what} after substitution (an argument bound to a tuple/dict/First() in an earlier stage) is not projected / pushed through", f"test self.visit(node.{attr_of_value})", show(t), key=f"dispatch test for {what} on the un-visited node.{attr_of_value}")
        if name == "visit_Subscript":
            from ..visitors import projection_handlers

            _hm, table_tests = projection_handlers(m, ctx, cls, fi)
            for subj_t, what, c_ in table_tests:
                n_tests += 1
                kinds.add(what)
                run.check(subj_t == visited, "C14.R2", fi, stmt_of(c_), f"dispatch test for {what} is made on the visited value", f"{name} looks {what} up by the type of the un-visited value")
        run.floor("C14.R2", n_tests, 2 if name == "visit_Attribute" else 4, f"dispatch tests in {name}")
        run.notes.setdefault("dispatch_kinds", {})[name] = sorted(kinds)

    # ---------------- R3
    vs = unrolled(m, cls.methods["visit_Subscript"])
    from ..visitors import projection_handlers

    hmap, _t = projection_handlers(m, ctx, cls, vs)
    for k in ("ast.Tuple", "ast.List", "ast.Dict"):
        good = False
        if k in hmap:
            h = hmap[k][0]
            fh = ctx.analysis(h)
            vp = ("param", h.pos_params[-2])
            field = "values" if k == "ast.Dict" else "elts"
            for s_, n_ in fh.returns():
                t = strip_sites(fh.term_of(s_.value, n_)) if s_.value is not None else ("const", None)
                for a in unphi_terms(t):
                    if a[0] == "app" and a[1] == ("global", "copy.deepcopy") and a[2] and a[2][0][0] == "subscript" and a[2][0][1] == ("attr", vp, field):
                        good = True
        run.check(good, "C14.R3", vs, vs.node, f"Subscript of a {k} literal returns (a copy of) the selected element", f"no path of visit_Subscript projects an element out of a {k} literal")
    # ---------------- R5: a projection out of a tuple / list literal is refused only for the designed reasons
    run.rule("C14.R5", "tuple/list projection is left intact only because of the selector's shape or a *top-level* starred element - nothing else about the literal")
    from ..terms import root_of

    for k in ("ast.Tuple", "ast.List"):
        if k not in hmap:
            continue
        h = hmap[k][0]
        fh = ctx.analysis(h)
        vp, sp = ("param", h.pos_params[-2]), ("param", h.pos_params[-1])
        n_ref = 0
        for s_, n_ in fh.returns():
            t = strip_sites(fh.term_of(s_.value, n_)) if s_.value is not None else ("const", None)
            if not any(a[0] == "new" and a[1] == "Subscript" for a in unphi_terms(t)):
                continue
            n_ref += 1
            raw_atoms = Facts(fh, s_, expand=False).atoms
            full_atoms = Facts(fh, s_).atoms
            raw_keys = {(ast.dump(a), p) for a, p in raw_atoms}
            derived = [(a, p) for a, p in full_atoms if (ast.dump(a), p) not in raw_keys]
            def about_v(a):
                out_ = []
                for x in ast.walk(a):
                    if isinstance(x, (ast.Name, ast.Attribute)) and fh.cfg.has_node(x):
                        try:
                            tx = strip_sites(fh.term_of(x))
                        except AnalysisError:
                            continue
                        if tx == vp or root_of(tx) == vp:
                            out_.append(tx)
                return out_

            def designed(a, pol) -> bool:
                """the reason (a has truth value pol) is about the selector alone, or is 'a top-level element is starred'"""
                if isinstance(a, ast.UnaryOp) and isinstance(a.op, ast.Not):
                    return designed(a.operand, not pol)
                if isinstance(a, ast.BoolOp) and ((isinstance(a.op, ast.Or) and pol) or (isinstance(a.op, ast.And) and not pol)):
                    return all(designed(v_, pol) for v_ in a.values)  # any one of them may be the reason
                av = about_v(a)
                if not av:
                    return True
                if isinstance(a, ast.Call) and isinstance(a.func, ast.Name) and a.func.id == "any" and len(a.args) == 1 and isinstance(a.args[0], (ast.GeneratorExp, ast.ListComp)) and len(a.args[0].generators) == 1:
                    g = a.args[0].generators[0]
                    e = a.args[0].elt
                    it_ok = isinstance(g.iter, ast.Attribute) and g.iter.attr == "elts" and fh.cfg.has_node(g.iter.value) and strip_sites(fh.term_of(g.iter.value)) == vp
                    elt_ok = isinstance(e, ast.Call) and isinstance(e.func, ast.Name) and e.func.id == "isinstance" and len(e.args) == 2 and isinstance(e.args[0], ast.Name) and isinstance(g.target, ast.Name) and e.args[0].id == g.target.id and ast.unparse(e.args[1]) == "ast.Starred" and not g.ifs
                    return it_ok and elt_ok
                if isinstance(a, ast.Call) and isinstance(a.func, ast.Name) and a.func.id == "isinstance" and len(a.args) == 2 and ast.unparse(a.args[1]) == "ast.Starred" and fh.cfg.has_node(a.args[0]) and strip_sites(fh.term_of(a.args[0])) == ("elem", ("attr", vp, "elts")):
                    return True  # the same test written as a loop over v.elts
                if isinstance(a, ast.Compare) and any(isinstance(x, ast.Call) and isinstance(x.func, ast.Name) and x.func.id == "len" for x in ast.walk(a)) and all(tx == ("attr", vp, "elts") for tx in av):
                    return True  # the index bound (n >= len(v.elts)) seen with either truth value on the way here
                return False

            for a, pol in full_atoms:
                if (ast.dump(a), pol) in raw_keys and derived and isinstance(a, ast.Call) and not (isinstance(a.func, ast.Name) and a.func.id in ("any", "all", "isinstance", "len", "type")):
                    continue  # a package predicate: judged through the conditions it stands for
                if not about_v(a):
                    continue
                run.check(designed(a, pol), "C14.R5", h, s_, "the refusal depends on the literal only through 'has a top-level starred element'", f"{h.name} leaves the projection in place when {ast.unparse(a)[:100]} is {pol}: a condition on the literal other than a top-level *element (e.g. a star somewhere inside an element) keeps tuples/lists and their subscripts in the query although the position is static", "any(isinstance(e, ast.Starred) for e in v.elts)")
        run.floor("C14.R5", n_ref, 1, f"left-intact returns in {h.name}")

    va = cls.methods["visit_Attribute"]
    fa2 = ctx.analysis(va)
    nodea = ("param", va.pos_params[1])
    VA = ("visit", ("attr", nodea, "value"))
    ok = False
    for s, n in fa2.returns():
        fx = Facts(fa2, s)
        if fx.isinstance_of(VA, {"ast.Dict"}):
            t = strip_sites(fa2.term_of(s.value, n))
            ok = ok or any(a[0] == "app" and a[1] == ("global", "copy.deepcopy") and a[2] and a[2][0][0] == "subscript" and a[2][0][1] == ("attr", VA, "values") for a in unphi_terms(t))
    run.check(ok, "C14.R3", va, va.node, "Attribute of a Dict literal returns (a copy of) the selected value", "no path of visit_Attribute projects a value out of a Dict literal by attribute name")
    # .. and its result is what visit_Attribute returns: the attribute node is rebuilt only when the value is *not* a Dict
    n_rebuilt = 0
    for s, n in fa2.returns():
        t = strip_sites(fa2.term_of(s.value, n)) if s.value is not None else ("const", None)
        rebuilt = [a for a in unphi_terms(t) if a[0] == "new" and a[1] == "Attribute" and dict(a[2]).get("value") == VA]
        if not rebuilt:
            continue
        n_rebuilt += 1
        not_dict = False
        for a, pol in Facts(fa2, s).atoms:
            got = match_isinstance(a) if isinstance(a, (ast.Call, ast.Compare)) else None
            if got is not None and not pol and fa2.cfg.has_node(got[0]) and strip_sites(fa2.term_of(got[0])) == VA and {ast.unparse(c).split(".")[-1] for c in got[1]} == {"Dict"}:
                not_dict = True
        run.check(not_dict, "C14.R3", va, s, "Attribute(<visited value>, name) is rebuilt only when the visited value is not a Dict literal", "visit_Attribute can return <dict literal>.<name> although the value is a Dict literal: the result of the key lookup is discarded on some path (e.g. when the selected value has a particular node type) and the dictionary stays in the query", "return self.visit_Subscript_Dict_with_value(visited_value, node.attr)", show(t)[:200], key="attribute of a Dict literal rebuilt")
    run.floor("C14.R3", n_rebuilt, 1, "returns of visit_Attribute that rebuild the attribute")
    # the projection is attempted for *every* attribute of a Dict literal: nothing else about the attribute name decides it
    from ..lib import call_events

    for ev in call_events(ctx, va, lambda nm: nm.startswith("visit_Subscript_Dict")):
        if not ev.args or ev.args[0] != VA:
            continue
        extra = []
        for a, pol in ev.facts(ctx).atoms if ev.owner is va else []:
            got = match_isinstance(a) if isinstance(a, (ast.Call, ast.Compare)) else None
            if got is not None and fa2.cfg.has_node(got[0]) and strip_sites(fa2.term_of(got[0])) == VA:
                continue  # the Dict test itself
            if any(isinstance(x, ast.Attribute) and x.attr == "attr" and fa2.cfg.has_node(x) and strip_sites(fa2.term_of(x.value)) == nodea for x in ast.walk(a)):
                extra.append(f"{ast.unparse(a)[:60]} is {pol}")
        run.check(not extra, "C14.R3", va, stmt_of(ev.call) if ev.owner is va else va.node, "every attribute of a Dict literal is looked up among its keys", f"the key lookup for <dict literal>.<name> is made only when {'; '.join(extra)}: fields whose name the condition excludes (e.g. names that are also dict methods: items, keys, values, get) are not projected and the dictionary stays in the query", "if isinstance(visited_value, ast.Dict): look the name up")
    # the composition helper the fusion rules rely on (shared with C02.R1): a stale or captured binder leaves projections behind
    from ..report import Relabel
    from .c02 import SPEC_CONVOLUTE, _spec_equal

    _spec_equal(Relabel(run, "C14.R1"), ctx, m, m.find_func("convolute", in_module="func_adl.ast.function_simplifier"), SPEC_CONVOLUTE, "func_adl.ast.function_simplifier", None, "C14.R1")
    # a projection is left in place only for selectors that are not plain constants: the guards of the handlers (C18.R1/R2)
    run.rule("C14.R6", "projection handlers refuse exactly the non-constant / negative / out-of-kind selectors (C18.R1, C18.R2 re-evaluated): a constant key such as 0 or '' is a key")
    from ..report import run_stage

    run_stage(run, "c18", only={"C18.R1", "C18.R2"})
    run.rule("C14.R7", "helpers that package values are inlined whenever the call binds every parameter (C05.R12 re-evaluated): a called lambda that is left behind keeps its tuple / dictionary in the query")
    run_stage(run, "c05", only={"C05.R12"})
