"""C06 - comprehension and data-class sugar lowers to equivalent queries (syntatic_sugar.py, util_ast.py)."""
from __future__ import annotations

import ast

from ..lib import Facts, calls_in, own_nodes, stmt_of
from ..model import AnalysisError
from ..report import Run
from ..spec import canon, drop_sites, spec_function
from ..terms import TermCtx, contains, show, strip_sites, unphi_terms, walk_all
from .c04 import check_binders

EXPLANATION = (
    "(R1) resolve_generator builds, per for-clause and innermost clause first, a left-to-right chain of Where calls on the clause's "
    "iterable - parameter = the clause's target name, body = that if - and a Select with the same parameter whose body is the element (or "
    "the chain built so far); its provenance term equals that of the reference lowering; (R2) both comprehension handlers lower the "
    "generic_visit-ed node (children first, so nesting at any depth) and are identical up to the node kind; (R3) a non-Name target and an "
    "async clause raise ValueError before anything is built for that clause; (R4) constructor calls bind positional values to the first "
    "len(args) names of the constructor's own signature (inspect.signature for dataclasses, _fields for NamedTuples), keywords by name "
    "among the remaining names, surplus and unknown arguments raise ValueError; (R5) a captured class survives as a Constant callee exactly "
    "when it is a dataclass or has _fields; (R6) comprehension targets are protected from capture rewriting for all four comprehension forms."
    " (R4, as of D48) a keyword that names a field already filled positionally, and a `*` argument, raise ValueError."
    " (R9, as of D56) the number of positional arguments is held against the number of parameters that can be given positionally: the lowering reads the kinds of the signature's parameters and a refusal of the binder compares the count with len(args)."
)
NOT_DECIDED = "equality of the sequence computed by the lowered chain and by Python's comprehension on data."

SPEC_RESOLVE = '''
def resolve_generator(self, lambda_body, generators, node):
    a = node
    for c in reversed(generators):
        source_collection = c.iter
        for a_if in c.ifs:
            source_collection = ast.Call(func=ast.Attribute(attr="Where", value=source_collection, ctx=ast.Load()), args=[lambda_build(c.target.id, a_if)], keywords=[])
        a = ast.Call(func=ast.Attribute(attr="Select", value=source_collection, ctx=ast.Load()), args=[lambda_build(c.target.id, lambda_body)], keywords=[])
        lambda_body = a
    return a
'''


def check(run: Run) -> None:
    m = run.model
    mod = "func_adl.ast.syntatic_sugar"
    run.rule("C06.R1", "resolve_generator's term equals the reference lowering (Where chain left-to-right on the iterable, Select of the element, clauses innermost first)")
    run.rule("C06.R2", "visit_ListComp / visit_GeneratorExp lower the generic_visit-ed node and agree with each other")
    run.rule("C06.R3", "non-Name target and is_async raise ValueError before construction")
    run.rule("C06.R4", "constructor binding: positional -> names[:len(args)], keywords by name, surplus/unknown -> ValueError; names from inspect.signature / _fields")
    run.rule("C06.R5", "captured dataclass / NamedTuple classes stay Constant callees; other constant callees are restored")
    run.rule("C06.R6", "comprehension targets are shadowed during capture rewriting (all four forms)")
    ctx = TermCtx(m, max_depth=2, opaque={"lambda_build"})
    outer = m.find_func("resolve_syntatic_sugar", in_module=mod)
    from ..lib import used_visitor

    classes = [used_visitor(m, ctx, outer, True)]
    if len(classes) != 1:
        raise AnalysisError("resolve_syntatic_sugar no longer contains one transformer")
    cls = classes[0]
    for need in ("resolve_generator", "visit_ListComp", "visit_GeneratorExp", "visit_Call"):
        if need not in cls.methods and not (need == "resolve_generator" and need in m.modules[mod].functions):
            raise AnalysisError(f"anchor vanished: syntax_transformer.{need}")
    # the constructor binder: a method of the transformer, or (it does not use self) a function beside it
    cd = cls.methods.get("convert_call_to_dict") or m.modules[mod].functions.get("convert_call_to_dict")
    if cd is None:
        raise AnalysisError("anchor vanished: syntax_transformer.convert_call_to_dict")
    cd_off = 1 if cd.cls is not None else 0

    # ---------------- R1
    # the lowering: a method of the transformer, or (it does not use self) a function beside it
    rg = cls.methods.get("resolve_generator") or m.modules[mod].functions["resolve_generator"]
    spec = spec_function(m, SPEC_RESOLVE, mod, None, parent_func=outer)
    spec.cls = cls
    got = canon(ctx.analysis(rg).return_term(), (rg.pos_params if rg.cls is not None else ["<no self>"] + rg.pos_params))
    want = canon(ctx.analysis(spec).return_term(), spec.pos_params)
    from ..fusion import _first_diff

    run.check(drop_sites(got) == drop_sites(want), "C06.R1", rg, rg.node, "lowering term equals the reference lowering", "resolve_generator: " + (_first_diff(drop_sites(got), drop_sites(want)) or "differs"), show(want)[:300], show(got)[:500])
    # iteration orders (not visible in the term when a reversed() is dropped on both loops)
    fa = ctx.analysis(rg)
    from ..lib import unit_loops

    ul = unit_loops(ctx, m, rg)
    gp = ("param", rg.pos_params[2 if rg.cls is not None else 1])
    outer_l = [(g_, lp, it) for g_, lp, it in ul if it == gp or (it[0] == "app" and it[2] == (gp,)) or (it[0] == "slice" and it[1] == gp)]
    inner_l = [(g_, lp, it) for g_, lp, it in ul if not any(lp is x[1] for x in outer_l)]
    ok_o = len(outer_l) == 1 and isinstance(outer_l[0][1].iter, ast.Call) and isinstance(outer_l[0][1].iter.func, ast.Name) and outer_l[0][1].iter.func.id == "reversed"
    run.check(ok_o, "C06.R1", rg, outer_l[0][1] if outer_l and outer_l[0][0] is rg else rg.node, "for-clauses are folded innermost first (reversed)", "the for-clauses are not processed in reverse order: with several clauses the nesting of the lowered Select calls is inverted")
    ok_i = len(inner_l) == 1 and inner_l[0][2][0] == "attr" and inner_l[0][2][2] == "ifs" and isinstance(inner_l[0][1].iter, (ast.Name, ast.Attribute))
    run.check(ok_i, "C06.R1", rg, inner_l[0][1] if inner_l and inner_l[0][0] is rg else rg.node, "if-clauses are applied left to right", "the if-clauses of a comprehension are not applied in source order")

    # ---------------- R3
    from ..lib import call_events, call_sites_of, unit

    raises_u = [(g_, n) for g_ in unit(m, rg) for n in own_nodes(g_) if isinstance(n, ast.Raise)]
    raises = [n for _g, n in raises_u]
    kinds = set()
    for g_, r in raises_u:
        exc = r.exc.func if isinstance(r.exc, ast.Call) else r.exc
        run.check(isinstance(exc, ast.Name) and exc.id == "ValueError", "C06.R3", g_, r, "refusal is ValueError", f"refusal raises {ast.unparse(exc)}")
        fx = Facts(ctx.analysis(g_), r)
        for a, pol in fx.atoms:
            txt = ast.unparse(a)
            if "isinstance" in txt and "ast.Name" in txt and not pol:
                kinds.add("target")
            if "is_async" in txt and pol:
                kinds.add("async")
    run.check("target" in kinds, "C06.R3", rg, rg.node, "non-Name comprehension target raises ValueError", "a tuple (non-Name) comprehension target is not refused")
    run.check("async" in kinds, "C06.R3", rg, rg.node, "async comprehension raises ValueError", "an async comprehension clause is not refused")
    builds = [e for e in call_events(ctx, rg, lambda nm: nm == "Call") if isinstance(e.call.func, ast.Attribute) and isinstance(e.call.func.value, ast.Name) and e.call.func.value.id == "ast"]
    run.floor("C06.R3", len(builds), 1, "Where/Select call constructions in resolve_generator")
    for b in builds:
        ok = True
        for g_, r in raises_u:
            if g_ is rg:
                ok = ok and _raise_precedes(fa, r, b.site)
            else:
                # the refusal sits in a helper: its call in resolve_generator must come first
                sites_ = [call for c_, call, _sk in call_sites_of(m, g_) if c_ is rg]
                ok = ok and bool(sites_) and all(fa.cfg.dominates(fa.cfg.node_of(c_), b.site) and fa.cfg.node_of(c_) is not b.site for c_ in sites_)
        run.check(ok, "C06.R3", rg, stmt_of(b.call) if b.owner is rg else rg.node, "refusals precede construction in the clause", "a Where/Select call is built before the clause's target / async checks")

    # ---------------- R2
    terms = {}
    for name, kind in (("visit_ListComp", "ListComp"), ("visit_GeneratorExp", "GeneratorExp")):
        fi = cls.methods[name]
        f2 = ctx.analysis(fi)
        nodep = ("param", fi.pos_params[1])
        rt = canon(f2.return_term(), fi.pos_params)
        terms[name] = frozenset(unphi_terms(drop_sites(rt)))  # the alternatives, whatever the (kind-specific) test between them
        V = ("gvisit", ("param", "#1"))
        # lowering is applied to the visited node's elt / generators
        calls = call_events(ctx, fi, lambda nm: nm == "resolve_generator")
        ok = len(calls) == 1 and len(calls[0].args) >= 2
        if ok:
            a0, a1 = calls[0].args[:2]
            ok = a0 == ("attr", ("gvisit", nodep), "elt") and a1 == ("attr", ("gvisit", nodep), "generators")
            fx = calls[0].facts(ctx)
            ok = ok and fx.isinstance_of(("gvisit", nodep), {f"ast.{kind}"})
        run.check(ok, "C06.R2", fi, fi.node, f"{name} lowers the generic_visit-ed {kind}", f"{name} does not lower the elt/generators of the visited node (children first): nested comprehensions are not lowered at every depth")
        for s, n in f2.returns():
            t = strip_sites(f2.term_of(s.value, n))
            run.check(not (t == nodep), "C06.R2", fi, s, "never returns the un-visited node", f"{name} returns the raw node")
    run.check(terms["visit_ListComp"] == terms["visit_GeneratorExp"], "C06.R2", cls.methods["visit_GeneratorExp"], cls.methods["visit_GeneratorExp"].node, "list comprehension and generator expression are lowered identically", "visit_ListComp and visit_GeneratorExp produce different lowerings")

    # ---------------- R4
    fc = ctx.analysis(cd)
    ap, sigp = ("param", cd.pos_params[cd_off]), ("param", cd.pos_params[cd_off + 2])
    def _len_norm(t):
        """len(list(x)) is len(x)"""
        if isinstance(t, tuple):
            t = tuple(_len_norm(x) for x in t)
            if len(t) == 4 and t[0] == "app" and t[1] == ("global", "builtins.len") and len(t[2]) == 1 and t[2][0][0] == "app" and t[2][0][1] == ("global", "builtins.list") and len(t[2][0][2]) == 1:
                return ("app", ("global", "builtins.len"), (t[2][0][2][0],), ())
        return t

    def _seq_norm(t):
        """islice(x, a, None) is x[a:]; the first halves of zip(A, B) are A[:len(B)] (zip stops at the shorter, a slice
        clamps): [f(n) for n, _ in zip(A, B)] is [f(n) for n in A[:len(B)]]"""
        from ..terms import subst

        if not isinstance(t, tuple):
            return t
        t = tuple(_seq_norm(x) for x in t)
        if len(t) == 4 and t[0] == "app" and t[1][0] == "global" and t[1][1].endswith("islice") and not t[3]:
            if len(t[2]) == 3 and t[2][2] == ("const", None):
                return ("slice", t[2][0], t[2][1], None)
            if len(t[2]) == 2:
                return ("slice", t[2][0], None, t[2][1])
        if len(t) == 4 and t[0] == "comp" and len(t[3]) == 1 and not t[3][0][1]:
            z = t[3][0][0]
            if z[0] == "app" and z[1] == ("global", "builtins.zip") and len(z[2]) == 2:
                first = ("index", ("elem", z), 0)
                rest = subst(t[2], {first: ("top", "first-of-zip")})
                from ..terms import contains as _contains

                if not _contains(rest, lambda q: q == ("elem", z)):
                    src = ("slice", z[2][0], None, ("app", ("global", "builtins.len"), (z[2][1],), ()))
                    return ("comp", t[1], subst(t[2], {first: ("elem", src)}), ((src, ()),))
        return t

    rt0_ = fc.return_term()
    if rt0_ is None:
        raise AnalysisError("convert_call_to_dict has no readable result (no return reached in the analysed view)")
    rt = _len_norm(_seq_norm(strip_sites(rt0_)))
    d = dict(rt[2]) if rt[0] == "new" and rt[1] == "Dict" else {}
    keys, values = d.get("keys"), d.get("values")
    for kv_ in (keys, values):
        # [item.key for item in items]: the entries are kept as one list of (private) records, not as the two parallel
        # lists this rule reads the binding order from
        if kv_ is not None and kv_[0] == "comp" and kv_[2][0] == "attr" and kv_[2][1][0] == "elem" and contains(kv_[3][0][0] if kv_[3] else ("top",), lambda q: q[0] == "new" and isinstance(q[1], str) and ":" in q[1]):
            raise AnalysisError("convert_call_to_dict keeps the dictionary's entries as a list of record objects and projects keys and values out of it: the order in which fields are bound cannot be read from that shape")
    if keys is not None and values is not None and keys[0] == "comp" and values[0] == "comp" and len(keys[3]) == 1 and len(values[3]) == 1 and keys[3][0][0] == values[3][0][0] and contains(keys[2], lambda q: q == ("index", ("elem", keys[3][0][0]), 0)) and values[2] == ("index", ("elem", values[3][0][0]), 1):
        raise AnalysisError("convert_call_to_dict keeps the dictionary's entries as one list of (name, value) pairs and projects keys and values out of it: the order in which fields are bound cannot be read from that shape")
    n_pos = ("app", ("global", "builtins.len"), (("attr", ap, "args"),), ())
    # values: a *copy* of the positional arguments, then the keyword values of the remaining names, in that order
    fresh_args = ("app", ("global", "builtins.list"), (("attr", ap, "args"),), ())
    vparts = []
    v_ = values
    while v_ is not None and v_[0] == "concat":
        vparts.insert(0, v_[2])
        v_ = v_[1]
    ok_vals = v_ in (fresh_args, ("attr", ap, "args"))
    run.check(v_ != ("attr", ap, "args"), "C06.R4", cd, cd.node, "the value list is a copy of the call's positional arguments", "the dictionary's value list *is* the call's own argument list: appending the keyword values edits the call node in place, so a constructor call that occurs twice in the expression (the argument of a helper that uses its parameter twice) is lowered wrongly or refused the second time ('Too many arguments')", "arg_values = list(a.args)", show(values)[:200], key="constructor lowering edits the call's args in place")
    parts = []
    k = keys
    while k is not None and k[0] == "concat":
        parts.insert(0, k[2])
        k = k[1]
    if k is not None:
        parts.insert(0, k)
    first = parts[0] if parts else None
    ok_keys = first is not None and first[0] == "comp" and first[2][0] == "new" and first[2][1] == "Constant" and len(first[3]) == 1 and first[3][0][0] == ("slice", sigp, None, n_pos) and not first[3][0][1] and dict(first[2][2]).get("value") == ("elem", first[3][0][0])
    rest_t = ("slice", sigp, n_pos, None)
    for extra in parts[1:]:
        # names taken by keyword: [Constant(n) for n in names[len(args):] if n in lookup]
        ok_e = extra[0] == "comp" and extra[2][0] == "new" and extra[2][1] == "Constant" and dict(extra[2][2]).get("value") == ("elem", rest_t) and len(extra[3]) == 1 and extra[3][0][0] == rest_t and len(extra[3][0][1]) == 1 and extra[3][0][1][0][0] == "op" and extra[3][0][1][0][1] == "Compare:In" and extra[3][0][1][0][2][0] == ("elem", rest_t)
        ok_keys = ok_keys and ok_e
    run.check(ok_vals and ok_keys, "C06.R4", cd, cd.node, "positional values bind to sig_arg_names[:len(args)] in order", f"convert_call_to_dict returns {show(rt)[:200]}: positional arguments are not bound to the first len(args) field names in order", term=show(rt))
    # keywords by name among the remaining names
    from ..lib import view as _view_cd

    cd_orig, fc_orig = cd, fc
    cd = _view_cd(m, cd)  # the binding loop may sit in a helper: read it where it runs
    fc = ctx.analysis(cd) if cd is not cd_orig else fc
    loops = [n for n in own_nodes(cd) if isinstance(n, ast.For)]
    rem = [lp for lp in loops if _len_norm(_seq_norm(strip_sites(fc.term_of(lp.iter, fc.cfg.node_of(lp))))) == ("slice", sigp, n_pos, None)]
    ok_kw = False
    if len(rem) == 1:
        lp = rem[0]
        apps = [c for c in ast.walk(lp) if isinstance(c, ast.Call) and isinstance(c.func, ast.Attribute) and c.func.attr == "append"]
        tg = {ast.unparse(c.func.value): c for c in apps}
        if len(apps) == 2:
            # values.append(lookup[name]); names.append(Constant(name)) under `name in lookup`
            fx = Facts(fc, apps[0])
            guarded = any(pol and isinstance(a, ast.Compare) and isinstance(a.ops[0], ast.In) and isinstance(a.left, ast.Name) and a.left.id == lp.target.id for a, pol in fx.atoms)  # type: ignore
            t_vals = [_len_norm(_seq_norm(strip_sites(fc.term_of(c.args[0])))) for c in apps]
            has_val = any(t[0] == "subscript" and t[2] == ("elem", ("slice", sigp, n_pos, None)) for t in t_vals)
            has_key = any(t[0] == "new" and t[1] == "Constant" and dict(t[2]).get("value") == ("elem", ("slice", sigp, n_pos, None)) for t in t_vals)
            ok_kw = guarded and has_val and has_key
    run.check(ok_kw, "C06.R4", cd, rem[0] if rem else cd.node, "remaining names take the keyword of the same name (key and value appended together)", "keyword arguments are not bound by name to the remaining field names")
    lookups = [n for n in own_nodes(cd) if isinstance(n, ast.DictComp)]
    ok_l = len(lookups) == 1 and ast.unparse(lookups[0].key).endswith(".arg") and ast.unparse(lookups[0].value).endswith(".value") and strip_sites(fc.term_of(lookups[0].generators[0].iter, fc.cfg.node_of(lookups[0]))) == ("attr", ap, "keywords")
    run.check(ok_l, "C06.R4", cd, lookups[0] if lookups else cd.node, "keyword table is {kw.arg: kw.value} of the call's keywords", "the keyword lookup is not built from the call's own keywords")
    cd, fc = cd_orig, fc_orig
    k2 = set()
    for g_ in unit(m, cd, depth=1):
        bind_ = None
        if g_ is not cd:
            cs_ = [(c_, call, skip) for c_, call, skip in call_sites_of(m, g_) if c_ is cd]
            if len(cs_) != 1:
                continue
            bind_ = {("param", p_): strip_sites(fc.term_of(a_)) for p_, a_ in zip(g_.pos_params[cs_[0][2]:], cs_[0][1].args)}
        for r in [n for n in own_nodes(g_) if isinstance(n, ast.Raise)]:
            exc = r.exc.func if isinstance(r.exc, ast.Call) else r.exc
            run.check(isinstance(exc, ast.Name) and exc.id == "ValueError", "C06.R4", g_, r, "malformed constructor use raises ValueError", f"raises {ast.unparse(exc)}")
            fx_ = Facts(ctx.analysis(g_), r, binding=bind_)
            for a, pol in fx_.atoms:
                txt = ast.unparse(a)
                if pol and "len(" in txt and ("<" in txt or ">" in txt):
                    k2.add("surplus")
                if isinstance(a, ast.Compare) and isinstance(a.ops[0], (ast.NotIn, ast.In)) and (isinstance(a.ops[0], ast.NotIn) == pol) and fx_._term(a.comparators[0]) == sigp:
                    k2.add("unknown")
                # a keyword that names a field one of the positional arguments already fills: membership in names[:len(args)]
                if isinstance(a, ast.Compare) and len(a.ops) == 1 and isinstance(a.ops[0], ast.In) and pol:
                    ct_ = _len_norm(_seq_norm(fx_._term(a.comparators[0])))
                    if ct_[0] == "slice" and ct_[1] == sigp and ct_[3] == n_pos and ct_[2] in (None, ("const", None), ("const", 0)):
                        k2.add("twice")
                # .. or the same by elimination: found by `n not in names or n in names[:len(args)]`, and known to be in names
                if pol and isinstance(a, ast.BoolOp) and isinstance(a.op, ast.Or):
                    def _in_prefix(d_):
                        if isinstance(d_, ast.Compare) and len(d_.ops) == 1 and isinstance(d_.ops[0], ast.In):
                            c_ = _len_norm(_seq_norm(fx_._term(d_.comparators[0])))
                            return c_[0] == "slice" and c_[1] == sigp and c_[3] == n_pos and c_[2] in (None, ("const", None), ("const", 0))
                        return False

                    def _not_in_names(d_):
                        return isinstance(d_, ast.Compare) and len(d_.ops) == 1 and isinstance(d_.ops[0], ast.NotIn) and fx_._term(d_.comparators[0]) == sigp

                    rest_ = [d_ for d_ in a.values if not _in_prefix(d_)]
                    known_in = any(p2 and isinstance(a2, ast.Compare) and len(a2.ops) == 1 and isinstance(a2.ops[0], ast.In) and fx_._term(a2.comparators[0]) == sigp for a2, p2 in fx_.atoms)
                    if len(rest_) < len(a.values) and rest_ and all(_not_in_names(d_) for d_ in rest_) and known_in:
                        k2.add("twice")
                # a `*` argument among the positional ones
                if pol and isinstance(a, ast.Call) and isinstance(a.func, ast.Name) and a.func.id == "any" and "Starred" in txt:
                    k2.add("starred")
    run.check("surplus" in k2, "C06.R4", cd, cd.node, "surplus arguments raise ValueError", "more arguments than fields is not refused")
    run.check("unknown" in k2, "C06.R4", cd, cd.node, "unknown keyword raises ValueError", "a keyword that is not a field name is not refused")
    run.check("twice" in k2, "C06.R4", cd, cd.node, "a keyword naming an already filled field raises ValueError", "a keyword that names a field which a positional argument already fills is not refused: P(e.a, x=e.b) lowers to {'x': e.a} and e.b silently disappears from the query (python: TypeError, multiple values for argument 'x')", "if name in sig_arg_names[: len(a.args)]: raise ValueError(..)", key="doubly bound constructor field not refused")
    run.check("starred" in k2, "C06.R4", cd, cd.node, "a `*` argument raises ValueError", "a `*seq` among the constructor's positional arguments is bound to one field as a Starred node: P(*e.a) lowers to {'x': *e.a}, not a dictionary python can evaluate", "if any(isinstance(v, ast.Starred) for v in a.args): raise ValueError(..)", key="starred constructor argument not refused")
    # surplus test: len(names) < len(args) + len(keywords)
    for n in own_nodes(cd):
        if isinstance(n, ast.If) and "len(sig" in ast.unparse(n.test) or (isinstance(n, ast.If) and "Too many" in ast.unparse(n)):
            t = strip_sites(fc.term_of(n.test, fc.cfg.node_of(n)))
            want_t = ("op", "Compare:Lt", (("app", ("global", "builtins.len"), (sigp,), ()), ("op", "Add", (n_pos, ("app", ("global", "builtins.len"), (("attr", ap, "keywords"),), ())))))
            disj = list(t[2]) if t[0] == "op" and t[1] == "Or" else [t]
            run.check(want_t in disj, "C06.R4", cd, n, "surplus test is len(names) < len(args) + len(keywords) (possibly one of several reasons)", f"surplus test is {show(t)[:120]}")
            break
    # names come from the constructor's signature / _fields
    vc = cls.methods["visit_Call"]
    fv = ctx.analysis(vc)
    nodep = ("param", vc.pos_params[1])
    V = ("gvisit", nodep)
    klass = ("attr", ("attr", V, "func"), "value")
    from ..terms import decision_alternatives, subst

    sites = [e for e in call_events(ctx, vc, lambda nm: nm == "convert_call_to_dict") if len(e.args) >= 3]
    run.check(len(sites) >= 1, "C06.R4", vc, vc.node, "dataclass and NamedTuple constructors go through the binder", f"{len(sites)} convert_call_to_dict sites")
    seen = set()
    sig = ("app", ("global", "inspect.signature"), (klass,), ())

    def _is_dc(cond):
        return cond[0] == "app" and cond[1][0] == "global" and cond[1][1].endswith("is_dataclass") and cond[2] == (klass,)

    def _is_nt(cond):
        return cond[0] == "app" and cond[1] == ("global", "builtins.hasattr") and cond[2] == (klass, ("const", "_fields"))

    for e in sites:
        fx = e.facts(ctx)
        at_ = stmt_of(e.call) if e.owner is vc else vc.node
        fact_dc = any(pol and isinstance(a, ast.Call) and isinstance(a.func, ast.Name) and a.func.id == "is_dataclass" and fx._term(a.args[0]) == klass for a, pol in fx.atoms)
        fact_nt = any(pol and isinstance(a, ast.Call) and isinstance(a.func, ast.Name) and a.func.id == "hasattr" and fx._term(a.args[0]) == klass and isinstance(a.args[1], ast.Constant) and a.args[1].value == "_fields" for a, pol in fx.atoms)
        const_callee = fx.isinstance_of(("attr", V, "func"), {"ast.Constant"})
        run.check(const_callee, "C06.R4", vc, at_, "lowering only for a Constant callee", "constructor lowering is not restricted to calls whose callee is a captured class constant")
        run.check(e.args[0] == V, "C06.R2", vc, at_, "constructor arguments are visited first", "constructor lowering uses the un-visited call")
        for conds, names_t in decision_alternatives(e.args[2]):
            if names_t == ("const", None) or (names_t[0] == "index" and names_t[1] == ("const", None)):
                # (the second form: names, n = <helper answering (names, n) or None>, on the helper's None alternative)
                known = fx.compare_const(e.args[2], [ast.IsNot], None) or any(isinstance(a, ast.Compare) and len(a.ops) == 1 and isinstance(a.comparators[0], ast.Constant) and a.comparators[0].value is None and ((isinstance(a.ops[0], ast.Is) and not pol) or (isinstance(a.ops[0], ast.IsNot) and pol)) and strip_sites(fx._term(a.left))[0] in ("ifexp", "phi", "app") and ("const", None) in [x for _c, x in decision_alternatives(fx._term(a.left))] for a, pol in fx.atoms)
                run.check(known, "C06.R4", vc, at_, "no lowering when the class is neither a dataclass nor a NamedTuple", "the binder may be handed None for the field names")
                continue
            is_dc = fact_dc or any(pol and _is_dc(c_) for c_, pol in conds)
            is_nt = fact_nt or any(pol and _is_nt(c_) for c_, pol in conds)
            if is_dc:
                seen.add("dataclass")
                pv_ = ("app", ("attr", ("attr", sig, "parameters"), "values"), (), ())
                names_t = subst(names_t, {("app", ("global", "builtins.list"), (pv_,), ()): pv_})  # list(d.values()) iterates as d.values() does
                ok = names_t[0] == "comp" and names_t[2] == ("attr", ("elem", names_t[3][0][0]), "name") and names_t[3][0][0] == ("app", ("attr", ("attr", sig, "parameters"), "values"), (), ()) and not names_t[3][0][1]
                run.check(ok, "C06.R4", vc, at_, "dataclass field names are the constructor's signature parameters, in order", f"dataclass field names come from {show(names_t)[:140]}, not from the constructor's own signature: fields that the constructor does not take (init=False) or takes differently shift the positional binding", "[p.name for p in inspect.signature(cls).parameters.values()]", show(names_t))
            elif is_nt:
                seen.add("namedtuple")
                ok = names_t == ("comp", "ListComp", ("elem", ("attr", klass, "_fields")), ((("attr", klass, "_fields"), ()),)) or names_t == ("attr", klass, "_fields")
                run.check(ok, "C06.R4", vc, at_, "NamedTuple field names are cls._fields in order", f"NamedTuple field names come from {show(names_t)[:120]}")
            else:
                run.fail("C06.R4", vc, at_, "a constructor-lowering site is guarded neither by is_dataclass nor by hasattr(_fields)")
    run.check(seen == {"dataclass", "namedtuple"}, "C06.R4", vc, vc.node, "both constructor kinds are lowered", f"lowered kinds: {sorted(seen)}")

    # ---------------- R9 (D56): a keyword-only field takes no positional argument
    run.rule("C06.R9", "the number of positional arguments is held against the number of parameters that can be given positionally (parameter kinds of the constructor's signature)")

    def _reads_kind(t):
        # the kind is held against KEYWORD_ONLY (or against both positional kinds), or the dataclass field's kw_only flag is read
        names_ = {q[2] for q in walk_all(t) if q[0] == "attr"}
        return ("kind" in names_ and ("KEYWORD_ONLY" in names_ or {"POSITIONAL_ONLY", "POSITIONAL_OR_KEYWORD"} <= names_)) or "kw_only" in names_

    # (anywhere in the module: the reader of the field names may be reached through a table of callables)
    kind_reads = [n for n in ast.walk(m.modules[mod].tree) if isinstance(n, ast.Attribute) and n.attr in ("kw_only", "KEYWORD_ONLY", "POSITIONAL_ONLY", "POSITIONAL_OR_KEYWORD")]
    if not kind_reads:
        run.fail("C06.R9", vc, vc.node, "nothing in the constructor lowering tells keyword-only parameters from positional ones: a keyword-only field (field(kw_only=True), @dataclass(kw_only=True)) is bound to a positional argument - Mid(x, z=0, *, y=0) called Mid(e.a, e.b, e.c) lowers to {'x','z','y'} where python raises TypeError", "n_positional = len([p for p in parameters if p.kind != p.KEYWORD_ONLY]); if n_positional < len(a.args): raise ValueError(..)", key="keyword-only constructor fields bound positionally")
    else:
        limited = False
        for e in sites:
            fx = e.facts(ctx)
            if not any(pol and isinstance(a, ast.Call) and isinstance(a.func, ast.Name) and a.func.id == "is_dataclass" for a, pol in fx.atoms) and not any(pol and _is_dc(c_) for conds, _t in decision_alternatives(e.args[2]) for c_, pol in conds):
                continue
            bind_ = {("param", p_): a_ for p_, a_ in zip(cd_orig.pos_params[cd_off:], e.args)}
            for k_, v_ in dict(e.kwargs or {}).items():
                bind_[("param", k_)] = v_
            for g_ in unit(m, cd_orig, depth=1):
                hb_ = None
                if g_ is not cd_orig:
                    # a refusal in a helper of the binder (_check_argument_count(a, node, names, n_positional)): read in the binder's terms
                    cs_ = [(c_, call, skip) for c_, call, skip in call_sites_of(m, g_) if c_ is cd_orig]
                    if len(cs_) != 1 or cs_[0][1].keywords:
                        continue
                    hb_ = {("param", p_): strip_sites(fc_orig.term_of(a_)) for p_, a_ in zip(g_.pos_params[cs_[0][2]:], cs_[0][1].args)}
                for r in [n for n in own_nodes(g_) if isinstance(n, ast.Raise)]:
                    fx_ = Facts(ctx.analysis(g_), r, binding=hb_)
                    for a, pol in fx_.atoms:
                        if not pol:
                            continue
                        for d_ in (a.values if isinstance(a, ast.BoolOp) and isinstance(a.op, ast.Or) else [a]):
                            if isinstance(d_, ast.Compare) and len(d_.ops) == 1 and isinstance(d_.ops[0], (ast.Lt, ast.Gt)):
                                lo, hi = (d_.left, d_.comparators[0]) if isinstance(d_.ops[0], ast.Lt) else (d_.comparators[0], d_.left)
                                if _len_norm(strip_sites(fx_._term(hi))) == n_pos and _reads_kind(subst(strip_sites(fx_._term(lo)), bind_)):
                                    limited = True
        n_raises_ = sum(1 for g_ in unit(m, cd_orig, depth=1) for n in own_nodes(g_) if isinstance(n, ast.Raise))
        if not limited and n_raises_ < 2:
            raise AnalysisError("the constructor lowering reads parameter kinds, but the refusals of the binder could not be read")
        run.check(limited, "C06.R9", cd_orig, cd_orig.node, "more positional arguments than positional parameters raise ValueError", "the lowering tells keyword-only parameters from positional ones, but no refusal of the binder holds their number against the number of positional arguments (len(a.args)): Mid(x, z=0, *, y=0) called Mid(e.a, e.b, e.c) still binds e.c to the keyword-only field", "if n_positional < len(a.args): raise ValueError(..)", key="positional arguments not limited to positional parameters")

    # ---------------- R5
    rcv = m.find_class("_rewrite_captured_vars", in_module="func_adl.util_ast")
    rc = rcv.methods.get("visit_Call")
    if rc is None:
        raise AnalysisError("anchor vanished: _rewrite_captured_vars.visit_Call")
    fr = TermCtx(m, max_depth=1).analysis(rc)
    restores = [n for n in own_nodes(rc) if isinstance(n, ast.Assign) and isinstance(n.targets[0], ast.Attribute) and n.targets[0].attr == "func"]
    run.check(len(restores) == 1, "C06.R5", rc, rc.node, "one place restores a rewritten callee", f"{len(restores)} callee restores")
    for st in restores:
        fx = Facts(fr, st)
        txts = [(ast.unparse(a), pol) for a, pol in fx.atoms]
        const = any("isinstance" in t and "ast.Constant" in t and pol for t, pol in txts)
        keep_dc = any("is_dataclass" in t and not pol for t, pol in txts)
        keep_nt = any("_fields" in t and not pol for t, pol in txts)
        # .. and no narrower: the lowering (syntax_transformer.visit_Call) asks hasattr(cls, "_fields") and nothing else, so
        # a class that has _fields but fails a further condition here reaches the sugar pass as a plain call
        narrowed = [a for a, pol in fx.atoms if not pol and isinstance(a, ast.BoolOp) and isinstance(a.op, ast.And) and any("_fields" in ast.unparse(v_) or "is_dataclass" in ast.unparse(v_) for v_ in a.values)]
        bare = any(not pol and isinstance(a, ast.Call) and isinstance(a.func, ast.Name) and a.func.id == "hasattr" and len(a.args) == 2 and isinstance(a.args[1], ast.Constant) and a.args[1].value == "_fields" for a, pol in fx.atoms)
        if narrowed and not bare:
            extra = [ast.unparse(v_) for v_ in narrowed[0].values if "_fields" not in ast.unparse(v_) and "is_dataclass" not in ast.unparse(v_)]
            run.fail("C06.R5", rc, st, f"a captured class keeps its place as a Constant callee only if, beyond having _fields / being a dataclass, {' and '.join(extra)[:160]}: the lowering asks for less (hasattr(cls, '_fields')), so e.g. a subclass of a NamedTuple (the usual way to add a docstring or a method) is left as an ordinary call - its constructor is not lowered, surplus and unknown arguments are not refused", "is_dataclass(v) or hasattr(v, '_fields') - the same test the sugar pass makes", key="capture keeps fewer classes than the sugar pass lowers")
        run.check(const and keep_dc and keep_nt, "C06.R5", rc, st, "callee restored iff it became a Constant that is neither a dataclass nor has _fields", "the captured-class callee is restored under a different condition: dataclass / NamedTuple constructors do not reach the sugar pass as constants (or other constants stay callees)")
        v = strip_sites(fr.term_of(st.value))
        run.check(v == ("attr", ("param", rc.pos_params[1]), "func"), "C06.R5", rc, st, "restored callee is the original one", f"restored callee is {show(v)[:60]}")

    # ---------------- R6
    check_binders(run, TermCtx(m, max_depth=2), m, rcv, "C06.R6")
    from .c04 import check_comprehension_shadow

    check_comprehension_shadow(run, TermCtx(m, max_depth=2), m, m.find_class("_resolve_called_lambdas", in_module="func_adl.util_ast"), "C06.R6")
    # the frame a comprehension pushes hides its loop variables only if the look-up honours it: the search stops at the
    # innermost frame that has the name (C05.R3 re-evaluated)
    run.rule("C06.R7", "a comprehension's loop variables stay hidden while called lambdas are resolved: the name look-up stops at the shadow entry (C05.R3 re-evaluated)")
    from ..report import run_stage

    run_stage(run, "c05", only={"C05.R3"})
    run.rule("C06.R8", "every operator feeds what parse_as_ast hands back - whatever form the lambda was given in - through resolve_syntatic_sugar before type following (C01.R1-R3 re-evaluated)")
    from ..report import Relabel as _Rl
    from .c01 import check_plumbing as _plumb

    _plumb(_Rl(run, "C06.R8"), m)


def _raise_precedes(fa, r: ast.Raise, b: ast.Call) -> bool:
    """the if-statement that owns raise r dominates construction b."""
    from ..model import ancestors

    for a in ancestors(r):
        if isinstance(a, ast.If):
            return fa.cfg.dominates(fa.cfg.node_of(a), b if not isinstance(b, ast.AST) else fa.cfg.node_of(b))
    return False
