"""C09 - callbacks fire at every matching call site and their metadata reaches the stream."""
from __future__ import annotations

import ast
from typing import Optional

from ..effects import effects_for
from ..lib import Facts, calls_in, own_nodes, stmt_of
from ..model import AnalysisError, FuncInfo
from ..report import Run
from ..terms import TermCtx, contains, root_of, show, strip_sites, unphi_terms

EXPLANATION = (
    "(R1) process_method_callbacks iterates [object type, method] in that order (class-level before method-level), calls each present "
    "callback with the *current* stream and node, and both results replace the current stream and node before the next use; its caller "
    "passes the object's own type (not the class that defines the method); (R2) the function processor and the parameterized-property "
    "callback are threaded the same way, the latter receiving ast.literal_eval(slice) by value and a call whose callee is the attribute "
    "with the subscript stripped; (R3) after a collection operator is followed, scan_for_metadata visits the children of *every* call "
    "before testing it and hands args[1] of every MetaData call to a callback that replaces the current stream by "
    "current.MetaData(literal_eval(dict)); (R4) remap_by_types returns the transformer's final stream and the three operators use that "
    "stream's AST as the operator's source; (R5) callbacks are invoked from exactly three sites; (R6) every node returned by a callback "
    "or processor, or rebuilt by the filler, carries an _old_ast back-link so that the rewrite is patched into nested lambdas."
    " (R6, as of D51) the patch-back onto a nested lambda's call copies all arguments of the processed call, not only those added behind the user's own."
)
NOT_DECIDED = "what user callbacks do; that a callback fires for every call site of every query (type resolution over arbitrary class models)."


def check(run: Run) -> None:
    m = run.model
    mod = "func_adl.type_based_replacement"
    for i, d in (("R1", "class-then-method order; current stream/node threaded; caller passes obj_type"), ("R2", "processor and parameterized callback threaded; params by literal_eval; subscript stripped"), ("R3", "scan_for_metadata visits all children of every call; MetaData re-applied to the current stream"), ("R4", "final stream returned and used as the operator's source"), ("R5", "callbacks invoked from exactly three sites"), ("R6", "returned / rebuilt nodes carry _old_ast")):
        run.rule(f"C09.{i}", d)
    ctx = TermCtx(m, max_depth=1, opaque={"remap_from_lambda", "remap_by_types", "clone_with_new_ast", "function_call", "parse_as_ast", "_local_simplification", "lookup_type", "_fill_in_default_arguments", "scan_for_metadata", "fixup_ast_from_modifications"})
    outer = m.find_func("remap_by_types", in_module=mod)
    from ..lib import used_visitor

    classes = [used_visitor(m, ctx, outer, True)]
    if len(classes) != 1:
        raise AnalysisError("remap_by_types no longer contains one transformer")
    tt = classes[0]

    def need(name):
        f = tt.methods.get(name)
        if f is None:
            raise AnalysisError(f"anchor vanished: type_transformer.{name}")
        return f

    eff = effects_for(m)

    # ---------------- invocation sites (R5) and their threading (R1, R2, R6)
    sites = []  # (fi, call, kind)
    for fi in m.funcs.values():
        if fi.module.name != mod:
            continue
        fa = ctx.analysis(fi)
        for c in calls_in(fi):
            if not fa.cfg.has_node(c):
                continue
            t = strip_sites(fa.term_of(c.func))
            kind = _callback_kind(t)
            if kind:
                sites.append((fi, c, kind, None))
            elif t[0] == "param" and fi.name.startswith("_") and fi.pos_params and t[1] in fi.pos_params[1:]:
                # a private helper that invokes a callable it is handed: the kind is decided where it is called from
                from ..lib import call_sites_of

                for caller, call, skip in call_sites_of(m, fi):
                    cfa = ctx.analysis(caller)
                    k_ = fi.pos_params[skip:].index(t[1]) if t[1] in fi.pos_params[skip:] else None
                    actual = call.args[k_] if k_ is not None and k_ < len(call.args) else next((kw.value for kw in call.keywords if kw.arg == t[1]), None)
                    if actual is None or not cfa.cfg.has_node(actual):
                        continue
                    kind = _callback_kind(strip_sites(cfa.term_of(actual)))
                    if kind:
                        sites.append((caller, call, kind, (fi, c)))
    allowed = {"process_method_callbacks": "method/class callback", "process_function_call": "function processor", "process_parameterized_method_call": "parameterized property callback"}
    run.floor("C09.R5", len(sites), 3, "callback invocation sites")
    for fi, c, kind, _via in sites:
        if allowed.get(fi.name) != kind and fi.parent_func is not None and allowed.get(fi.parent_func.name) == kind:
            # invoked from a function nested in the designated one: when that function is handed to reduce / map / a
            # scheduler, which callback runs when - and with which stream - is decided by that machinery
            handed = any(isinstance(x, ast.Name) and x.id == fi.name and isinstance(x.ctx, ast.Load) and not (isinstance(getattr(x, "_parent", None), ast.Call) and x._parent.func is x) for x in own_nodes(fi.parent_func))
            if handed:
                raise AnalysisError(f"{fi.parent_func.name} runs its callbacks through the nested function {fi.name}, which it hands to another function (reduce, map, ..): the order of the callbacks and the stream each one receives cannot be read from this shape")
        run.check(allowed.get(fi.name) == kind, "C09.R5", fi, stmt_of(c), f"{kind} invoked from its designated site", f"a {kind} is invoked from {fi.name}: callbacks may fire for call sites that are not being processed")
    run.check(len(sites) == 3, "C09.R5", None, None, "exactly three invocation sites", f"{len(sites)} callback invocation sites")
    for fi, c, kind, via in sites:
        if via is None:
            _threading(run, ctx, eff, m, fi, c, kind)
        else:
            # inside the helper: stream threading, unpacking, back-link; at the caller: the node variable is replaced by the result
            _threading(run, ctx, eff, m, via[0], via[1], kind, helper_of=(fi, c))

    # ---------------- R1: order and caller
    pc = need("process_method_callbacks")
    fa = ctx.analysis(pc)
    loops = [n for n in own_nodes(pc) if isinstance(n, ast.For)]
    ok = False
    if len(loops) == 1:
        it = strip_sites(fa.term_of(loops[0].iter, fa.cfg.node_of(loops[0])))
        for _peel in range(4):
            # a comprehension / generator over one ordered source keeps the order of the source
            if it[0] == "comp" and len(it[3]) == 1:
                it = it[3][0][0]
        ok = it[0] in ("list", "tuple") and it[1] == (("param", pc.pos_params[1]), ("param", pc.pos_params[3]))  # an ordered display
    run.check(ok, "C09.R1", pc, loops[0] if loops else pc.node, "callbacks are looked up on [object type, method] in that order", "the class-level callback is not consulted before the method-level one (or the lookup objects are not the object type and the method)", "for base_obj in [obj_type, call_method]")
    for c in calls_in(pc):
        if isinstance(c.func, ast.Name) and c.func.id == "getattr" and len(c.args) >= 2 and isinstance(c.args[1], ast.Constant) and c.args[1].value == "_func_adl_type_info":
            t0 = strip_sites(fa.term_of(c.args[0]))
            run.check(t0[0] == "elem", "C09.R1", pc, stmt_of(c), "the callback is read from the loop's current object", f"callback read from {show(t0)[:60]}")
    rt = strip_sites(fa.return_term())
    pm = need("process_method_call")
    fpm = ctx.analysis(pm)
    from ..lib import site_owner

    pm, _pm_inv = site_owner(m, ctx, pm, "process_method_callbacks")
    fpm = ctx.analysis(pm)
    cs = [c for c in calls_in(pm) if isinstance(c.func, ast.Attribute) and c.func.attr == "process_method_callbacks"]
    run.check(len(cs) == 1, "C09.R1", pm, pm.node, "process_method_call runs the callbacks once", f"{len(cs)} callback runs in process_method_call")
    for c in cs:
        a = [strip_sites(fpm.term_of(x)) for x in c.args]
        ok = len(a) == 3 and a[0][0] == "attr" and a[0][2] == "obj_type" and a[0][1][0] == "attr" and a[0][1][2] == "obj_info" and a[2][0] == "attr" and a[2][2] == "method" and a[2][1] == a[0][1] and a[1][0] == "attr" and a[1][2] == "node" and a[1][1] == a[0][1][1]
        run.check(ok, "C09.R1", pm, stmt_of(c), "callbacks run for (object's own type, chosen node, resolved method)", f"process_method_callbacks is called with ({', '.join(show(x)[:40] for x in a)}): the class-level callback must be looked up on the object's own type (obj_info.obj_type), not on the class that defines the method - a decorated subclass calling an inherited method would fire nothing", "(best_result.obj_info.obj_type, best_result.node, best_result.obj_info.method)")
        st = stmt_of(c)
        ok2 = isinstance(st, ast.Assign) and isinstance(st.targets[0], ast.Attribute) and st.targets[0].attr == "node"
        run.check(ok2, "C09.R1", pm, st, "the callbacks' node replaces the chosen result's node", "the node returned by the callbacks is not adopted")
    # the adopted node is what process_method_call returns
    rpm = strip_sites(fpm.return_term())
    run.check(contains(rpm, lambda s: s[0] == "attr" and s[2] == "node") or rpm[0] == "index", "C09.R1", pm, pm.node, "process_method_call returns the (possibly rewritten) node", f"process_method_call returns {show(rpm)[:100]}")

    # ---------------- R2: parameterized call wiring
    pp = need("process_parameterized_method_call")
    fpp = ctx.analysis(pp)
    lits = [c for c in calls_in(pp) if ast.unparse(c.func) == "ast.literal_eval"]
    ok = len(lits) == 1 and strip_sites(fpp.term_of(lits[0].args[0])) == ("param", pp.pos_params[4])
    run.check(ok, "C09.R2", pp, pp.node, "parameters are ast.literal_eval(slice) (by value)", "the [param] subscript is not evaluated with ast.literal_eval")
    from ..lib import view as _view_vc

    vc = _view_vc(m, need("visit_Call"), keep=("process_method_call", "process_function_call", "process_parameterized_method_call", "process_method_callbacks"))
    fvc = ctx.analysis(vc)
    from ..lib import call_events, event_before

    evs = call_events(ctx, vc, lambda nm: nm.startswith("process_") or nm == "generic_visit")
    pcs = [e for e in evs if e.name == "process_parameterized_method_call"]
    run.check(len(pcs) == 1, "C09.R2", vc, vc.node, "one parameterized-call site", f"{len(pcs)} sites")
    V = ("gvisit", ("param", vc.pos_params[1]))
    for e in pcs:
        a = list(e.args)
        f = ("attr", V, "func")
        at_ = stmt_of(e.call) if e.owner is vc else vc.node
        ok = len(a) == 5 and a[0] == V and a[2] == ("attr", ("attr", f, "value"), "attr") and a[3] == ("attr", f, "slice") and a[4] == ("attr", f, "value")
        run.check(ok, "C09.R2", vc, at_, "callback gets the visited call, attribute name, slice and the un-subscripted attribute", f"process_parameterized_method_call is called with ({', '.join(show(x)[:30] for x in a)})")
        fx = e.facts(ctx)
        run.check(fx.isinstance_of(f, {"ast.Subscript"}) and fx.isinstance_of(("attr", f, "value"), {"ast.Attribute"}), "C09.R2", vc, at_, "only obj.attr[..](..) shapes are treated as parameterized calls", "parameterized-call processing is not restricted to obj.attr[params](args)")
    # dispatch of the three kinds in visit_Call: after children were visited
    gv = [e for e in evs if e.name == "generic_visit"]
    run.check(len(gv) == 1 and all(event_before(ctx, vc, gv[0], e) for e in evs if e.name.startswith("process_")), "C09.R1", vc, vc.node, "nested call sites are processed first (children visited before the call)", "visit_Call does not visit the call's children before processing it: callbacks of nested call sites may not fire")
    pmc = [e for e in evs if e.name == "process_method_call"]
    pfc = [e for e in evs if e.name == "process_function_call"]
    run.check(len(pmc) == 1 and len(pfc) == 1, "C09.R1", vc, vc.node, "method calls and registered functions are each processed at one site", f"{len(pmc)} method / {len(pfc)} function processing sites")
    for e in pfc:
        fx = e.facts(ctx)
        ok = any(pol and isinstance(a, ast.Compare) and isinstance(a.ops[0], ast.In) and "_global_functions" in ast.unparse(a.comparators[0]) for a, pol in fx.atoms) and fx.isinstance_of(("attr", V, "func"), {"ast.Name"})
        run.check(ok, "C09.R5", vc, stmt_of(e.call) if e.owner is vc else vc.node, "function processors only for registered function names", "process_function_call is reached for names that are not registered")

    # the node a callback returns must get a recorded type, otherwise callbacks of methods chained on it never fire
    from ..lib import final_delegate

    for name in ("process_function_call", "process_parameterized_method_call", "process_method_call"):
        fi = final_delegate(m, need(name))  # the function that produces the result (a private helper the work was moved to)
        from ..normalise import unrolled

        fi = unrolled(m, fi)  # recording may go through a small private procedure (self._record_type(a, b, t))
        fa_ = ctx.analysis(fi)
        ft = ("attr", ("param", fi.pos_params[0]), "_found_types")
        keys = set()
        for n in own_nodes(fi):
            if isinstance(n, ast.Assign) and isinstance(n.targets[0], ast.Subscript) and fa_.cfg.has_node(n) and strip_sites(fa_.term_of(n.targets[0].value)) == ft:
                keys.add(strip_sites(fa_.term_of(n.targets[0].slice)))
        for s_, n_ in fa_.returns():
            rtm = strip_sites(fa_.term_of(s_.value, n_))
            ok = all(any(a == k or a in unphi_terms(k) for k in keys) for a in unphi_terms(rtm))
            run.check(ok, "C09.R2" if name != "process_method_call" else "C09.R1", fi, s_, f"{name} records the type of the node it returns", f"{name} returns {show(rtm)[:60]} without recording its type (recorded: {[show(k)[:30] for k in keys]}): a call chained on the rewritten call site is followed as Any and its class / method callbacks silently do not fire", "self._found_types[r_node] = return_type")

    # ---------------- R6 (second half): what the processed copy of a nested call gained is copied back to the call it replaces
    from .c07 import check_patch_back

    check_patch_back(run, TermCtx(m, max_depth=2, opaque={"as_literal", "_find_keyword", "resolve_type_vars", "get_type_hints"}), m, mod, "C09.R6")
    # callbacks in the lambdas of a sequence's operators fire only if the sequence is recognised and the lambda followed; a
    # method only keeps its callbacks if its candidate survives, i.e. if a return type (Any when not annotated) is found
    from .c08 import check_iterable_test, check_nested_lambda_followed
    from ..lib import used_visitor as _uv9

    check_iterable_test(run, m, "C09.R8")
    _t9 = TermCtx(m, max_depth=1, opaque={"lookup_type", "remap_by_types"})
    check_nested_lambda_followed(run, m, _uv9(m, _t9, m.find_func("remap_by_types", in_module=mod), True), "C09.R9")
    run.rule("C09.R10", "a method without a return annotation still yields a candidate (return type Any): its callbacks fire and its rewrite is emitted (C08.R3 re-evaluated)")
    from ..report import run_stage as _rs9

    _rs9(run, "c08", only={"C08.R3"})

    # ---------------- R7: registration replaces an earlier registration of the same name (last one wins)
    run.rule("C09.R7", "register_func_adl_function stores _global_functions[name] = info (a later registration replaces an earlier one); nested lambdas are followed with their own parameter's type")
    from ..lib import view as _view7

    rf = _view7(m, m.find_func("register_func_adl_function", in_module=mod))
    stores_ = [n for n in own_nodes(rf) if isinstance(n, ast.Assign) and isinstance(n.targets[0], ast.Subscript) and ast.unparse(n.targets[0].value) == "_global_functions"]
    weak = [c for c in calls_in(rf) if isinstance(c.func, ast.Attribute) and c.func.attr in ("setdefault",) and ast.unparse(c.func.value) == "_global_functions"]
    fr = ctx.analysis(rf)
    handled7 = False
    if not stores_ and not weak:
        # the store sits in a helper shared with the pre-registration of abs/len: _add_global_function(name, function, processor)
        from ..lib import call_sites_of as _cso, unit as _unit7
        from ..terms import subst as _subst7

        for g_ in _unit7(m, rf, depth=1):
            if g_ is rf:
                continue
            st_g = [n for n in own_nodes(g_) if isinstance(n, ast.Assign) and isinstance(n.targets[0], ast.Subscript) and ast.unparse(n.targets[0].value) == "_global_functions"]
            sites_ = [(call, skip) for c_, call, skip in _cso(m, g_) if c_ is rf]
            fg = ctx.analysis(g_)
            if len(st_g) == 1 and len(sites_) == 1 and not sites_[0][0].keywords and fg.cfg.postdominates(fg.cfg.node_of(st_g[0]), fg.cfg.entry) and fr.cfg.postdominates(fr.cfg.node_of(stmt_of(sites_[0][0])), fr.cfg.entry) and not any(isinstance(c.func, ast.Attribute) and c.func.attr == "setdefault" for c in calls_in(g_)):
                bind_ = {("param", p_): strip_sites(fr.term_of(a_)) for p_, a_ in zip(g_.pos_params[sites_[0][1]:], sites_[0][0].args)}
                v = _subst7(strip_sites(fg.term_of(st_g[0].value)), bind_)
                ok_v = v[0] == "app" and len(v[2]) == 3 and v[2][1] == ("param", rf.pos_params[0]) and v[2][2] == ("param", rf.pos_params[1])
                run.check(True, "C09.R7", rf, stmt_of(sites_[0][0]), "registration overwrites unconditionally (through a helper)", "")
                run.check(ok_v, "C09.R7", rf, stmt_of(sites_[0][0]), "the entry holds the function and its processor", f"the registry entry is {show(v)[:100]}")
                handled7 = True
                break
    ok = handled7 or (len(stores_) == 1 and not weak and fr.cfg.postdominates(fr.cfg.node_of(stores_[0]), fr.cfg.entry))
    run.check(ok, "C09.R7", rf, stores_[0] if stores_ else (stmt_of(weak[0]) if weak else rf.node), "registration overwrites unconditionally", "a function registered again under the same name (or a processor attached to a pre-registered name such as abs/len) does not replace the earlier entry: the new processor never fires and a stale one does", "_global_functions[info.name] = info")
    if stores_:
        v = strip_sites(fr.term_of(stores_[0].value))
        ok_v = v[0] == "app" and len(v[2]) == 3 and v[2][1] == ("param", rf.pos_params[0]) and v[2][2] == ("param", rf.pos_params[1])
        if not ok_v and v[0] == "app" and len(v) > 3 and v[3] and v[1][0] == "global":
            # fields given by name: put them in the order the record declares
            decl = rf.module.assigns.get(v[1][1].split(".")[-1])
            order_ = None
            if isinstance(decl, ast.Call) and (ast.unparse(decl.func).split(".")[-1] in ("NamedTuple", "namedtuple")) and len(decl.args) == 2 and isinstance(decl.args[1], (ast.List, ast.Tuple)):
                order_ = [e_.elts[0].value if isinstance(e_, ast.Tuple) and e_.elts and isinstance(e_.elts[0], ast.Constant) else (e_.value if isinstance(e_, ast.Constant) else None) for e_ in decl.args[1].elts]
            if order_ and None not in order_ and len(order_) == 3:
                byname = dict(zip(order_, v[2]))
                if not (set(dict(v[3])) & set(byname)) and set(dict(v[3])) | set(byname) == set(order_):
                    byname.update(dict(v[3]))
                    ok_v = byname[order_[1]] == ("param", rf.pos_params[0]) and byname[order_[2]] == ("param", rf.pos_params[1])
        if not ok_v and v[0] == "new" and isinstance(v[1], str) and v[1].endswith("_FuncAdlFunction"):
            # the record written in class form: the same three fields, by name
            d_ = dict(v[2])
            ok_v = d_.get("function") == ("param", rf.pos_params[0]) and d_.get("processor_function") == ("param", rf.pos_params[1])
        run.check(ok_v, "C09.R7", rf, stores_[0], "the entry holds the function and its processor", f"the registry entry is {show(v)[:100]}")
    from .c07 import check_env_merge

    check_env_merge(run, m, "C09.R7")

    # ---------------- R3
    sm = m.find_func("scan_for_metadata", in_module="func_adl.util_ast")
    finders = [used_visitor(m, ctx, sm)]
    if len(finders) != 1 or "visit_Call" not in finders[0].methods:
        raise AnalysisError("scan_for_metadata no longer contains one visitor with visit_Call")
    fvisit = finders[0].methods["visit_Call"]
    ff = TermCtx(m, max_depth=1).analysis(fvisit)
    nodep = ("param", fvisit.pos_params[1])
    gvs = [c for c in calls_in(fvisit) if isinstance(c.func, ast.Attribute) and c.func.attr == "generic_visit" and c.args and strip_sites(ff.term_of(c.args[0])) == nodep]
    every = len(gvs) == 1 and ff.cfg.postdominates(ff.cfg.node_of(gvs[0]), ff.cfg.entry) or (len(gvs) > 1 and all(sum(1 for x in p if x in {ff.cfg.node_of(g) for g in gvs}) == 1 for p in ff.cfg.paths()))
    run.check(bool(gvs) and every, "C09.R3", fvisit, gvs[0] if gvs else fvisit.node, "the children of every call are visited, whatever the call is", "scan_for_metadata does not descend into every call (e.g. not below a MetaData call it has just reported): of directly nested MetaData wrappers - two callbacks firing for one call site inside a collection lambda - only the outermost reaches the stream", "self.generic_visit(node) unconditionally")
    from ..lib import carried_param_terms

    cb_terms = carried_param_terms(m, TermCtx(m, max_depth=1), sm, finders[0], fvisit, sm.pos_params[1])
    cbs = [c for c in calls_in(fvisit) if ff.cfg.has_node(c) and strip_sites(ff.term_of(c.func)) in cb_terms]
    ok = len(cbs) == 1 and strip_sites(ff.term_of(cbs[0].args[0])) == ("index", ("attr", nodep, "args"), 1)
    run.check(ok, "C09.R3", fvisit, fvisit.node, "the callback receives the MetaData call's dictionary argument", "the metadata callback does not receive node.args[1]")
    if cbs:
        fx = Facts(ff, cbs[0])
        names = fx.str_equals(("attr", ("attr", nodep, "func"), "id"))
        run.check(names == {"MetaData"} and fx.isinstance_of(("attr", nodep, "func"), {"ast.Name"}), "C09.R3", fvisit, stmt_of(cbs[0]), "only calls of the Name MetaData are reported", "calls other than MetaData(..) are reported as metadata")
    fsm = TermCtx(m, max_depth=1).analysis(sm)
    vs = [c for c in calls_in(sm) if isinstance(c.func, ast.Attribute) and c.func.attr == "visit" and c.args and strip_sites(fsm.term_of(c.args[0])) == ("param", sm.pos_params[0])]
    run.check(len(vs) == 1, "C09.R3", sm, sm.node, "the whole ast is scanned", "scan_for_metadata does not visit its argument")
    ps = need("process_method_call_on_stream_obj")
    fps = ctx.analysis(ps)
    scans = [c for c in calls_in(ps) if isinstance(c.func, ast.Name) and c.func.id == "scan_for_metadata"]
    run.check(len(scans) == 1, "C09.R3", ps, ps.node, "nested stream's AST is scanned for MetaData once", f"{len(scans)} scans")
    for c in scans:
        a0 = strip_sites(fps.term_of(c.args[0]))
        run.check(all(x[0] == "attr" and x[2] == "_q_ast" for x in unphi_terms(a0)), "C09.R3", ps, stmt_of(c), "the scan runs over the nested stream's query AST", f"scan runs over {show(a0)[:60]}")
    # the callback handed to the scan: a closure of this method, or a (bound) method of the transformer
    adders = []
    for c in scans:
        cb = c.args[1] if len(c.args) > 1 else next((k.value for k in c.keywords if k.arg == "callback"), None)
        if isinstance(cb, ast.Name):
            adders += [(f, ("free", ps.pos_params[0]), 0) for f in m.funcs.values() if f.parent_func is ps and f.name == cb.id]
        elif isinstance(cb, ast.Attribute) and isinstance(cb.value, ast.Name) and cb.value.id == ps.pos_params[0] and ps.cls is not None:
            g_ = m.find_method(ps.cls, cb.attr)
            if g_ is not None and g_.pos_params:
                adders.append((g_, ("param", g_.pos_params[0]), 1))
        elif isinstance(cb, ast.Call) and isinstance(cb.func, ast.Name) and len(cb.args) == 1 and isinstance(cb.args[0], ast.Name) and cb.args[0].id == ps.pos_params[0]:
            # a callable object built for this transformer: K(self), with K.__init__ keeping its argument and K.__call__(md)
            K = next((c_ for c_ in m.classes.values() if c_.name == cb.func.id and "__call__" in c_.methods and "__init__" in c_.methods), None)
            if K is not None:
                ini = K.methods["__init__"]
                kept = [n.targets[0].attr for n in own_nodes(ini) if isinstance(n, ast.Assign) and len(n.targets) == 1 and isinstance(n.targets[0], ast.Attribute) and isinstance(n.targets[0].value, ast.Name) and n.targets[0].value.id == ini.pos_params[0] and isinstance(n.value, ast.Name) and len(ini.pos_params) == 2 and n.value.id == ini.pos_params[1]]
                call_m = K.methods["__call__"]
                if len(kept) == 1 and call_m.pos_params:
                    adders.append((call_m, ("attr", ("param", call_m.pos_params[0]), kept[0]), 1))
    ok = False
    lam_cbs = [c.args[1] if len(c.args) > 1 else next((k.value for k in c.keywords if k.arg == "callback"), None) for c in scans]
    for lam in [x for x in lam_cbs if isinstance(x, ast.Lambda)]:
        # lambda md: setattr(self, "_stream", self._stream.MetaData(ast.literal_eval(md)))
        b = lam.body
        if isinstance(b, ast.Call) and isinstance(b.func, ast.Name) and b.func.id == "setattr" and len(b.args) == 3 and len(lam.args.args) == 1 and fps.cfg.has_node(b):
            self_t = ("param", ps.pos_params[0])
            tgt_ok = strip_sites(fps.term_of(b.args[0])) == self_t and isinstance(b.args[1], ast.Constant) and b.args[1].value == "_stream"
            want = ast.parse(f"{ps.pos_params[0]}._stream.MetaData(ast.literal_eval({lam.args.args[0].arg}))", mode="eval").body
            ok = tgt_ok and ast.dump(b.args[2]) == ast.dump(want)
            run.check(ok, "C09.R3", ps, stmt_of(lam), "each nested MetaData is re-applied to the current stream", f"the nested metadata is applied as {ast.unparse(b)[:120]}: it must extend the transformer's current stream with the evaluated dictionary", "self._stream = self._stream.MetaData(ast.literal_eval(md))")
    for f, self_t, first in adders:
        fad = ctx.analysis(f)
        for n in own_nodes(f):
            if isinstance(n, ast.Assign) and isinstance(n.targets[0], ast.Attribute) and n.targets[0].attr == "_stream":
                v = strip_sites(fad.term_of(n.value))
                cur = ("attr", self_t, "_stream")
                ok = len(f.pos_params) > first and strip_sites(fad.term_of(n.targets[0].value)) == self_t and v[0] == "app" and v[1] == ("attr", cur, "MetaData") and len(v[2]) == 1 and v[2][0] == ("app", ("global", "ast.literal_eval"), (("param", f.pos_params[first]),), ())
                run.check(ok, "C09.R3", f, n, "each nested MetaData is re-applied to the current stream", f"the nested metadata is applied as {show(v)[:120]}: it must extend the transformer's current stream with the evaluated dictionary", "self._stream = self._stream.MetaData(ast.literal_eval(md))", show(v))
    run.check(ok, "C09.R3", ps, ps.node, "a callback re-applies nested MetaData to the current stream", "no callback re-applies the nested stream's MetaData")

    # ---------------- R4
    os_cls = m.find_class("ObjectStream", in_module="func_adl.object_stream")
    from ..lib import view

    for op in ("Select", "SelectMany", "Where"):
        f = view(m, os_cls.methods.get(op))
        if f is None:
            raise AnalysisError(f"anchor vanished: ObjectStream.{op}")
        fo = ctx.analysis(f)
        rt_ = strip_sites(fo.return_term())
        from ..lib import walk_terms

        builds = list(dict.fromkeys(s_ for s_ in walk_terms(rt_) if isinstance(s_, tuple) and s_ and s_[0] == "app" and s_[1][0] == "global" and s_[1][1].endswith(".function_call") and len(s_[2]) == 2 and s_[2][0] == ("const", op) and s_[2][1][0] == "list" and s_[2][1][1]))
        run.check(len(builds) == 1, "C09.R4", f, f.node, f"{op} builds one operator node", f"{len(builds)} operator nodes in what {op} returns")
        for b in builds:
            t = b[2][1][1][0]
            ok = t[0] == "attr" and t[2] == "_q_ast" and t[1][0] == "index" and t[1][2] == 0 and t[1][1][0] == "app" and t[1][1][1][1].endswith("remap_from_lambda")
            run.check(ok, "C09.R4", f, f.node, f"{op}'s source is the stream returned by type following", f"{op} uses {show(t)[:80]} as the operator's source instead of the updated stream's AST (n_stream.query_ast): MetaData attached by callbacks inside the lambda is lost", "n_stream.query_ast", show(t))
    rl = m.find_func("remap_from_lambda", in_module=mod)
    frl = ctx.analysis(rl)
    rrt = strip_sites(frl.return_term())
    ok = rrt[0] == "tuple" and len(rrt[1]) == 3 and rrt[1][0][0] == "index" and rrt[1][0][2] == 0 and rrt[1][0][1][0] == "app" and rrt[1][0][1][1][1].endswith("remap_by_types") and rrt[1][0][1][2][0] == ("param", rl.pos_params[0])
    run.check(ok, "C09.R4", rl, rl.node, "remap_from_lambda returns the stream produced by remap_by_types(o_stream, ..)", f"remap_from_lambda returns {show(rrt)[:140]}")
    fo2 = TermCtx(m, max_depth=1, opaque={"lookup_type"}).analysis(outer)
    ort = strip_sites(fo2.return_term())
    ok = ort[0] == "tuple" and ort[1][0][0] == "attr" and ort[1][0][2] == "_stream" and ort[1][0][1][0] in ("app", "upd")
    ctor = [c for c in calls_in(outer) if isinstance(c.func, ast.Name) and c.func.id == tt.name]
    ok = ok and len(ctor) == 1 and strip_sites(fo2.term_of(ctor[0].args[0])) == ("param", outer.pos_params[0])
    run.check(ok, "C09.R4", outer, outer.node, "remap_by_types starts from the given stream and returns the transformer's final stream", f"remap_by_types returns {show(ort)[:140]}")


def _callback_kind(t):
    if contains(t, lambda s: s[0] == "attr" and s[2] == "_func_adl_type_info") or contains(t, lambda s: s[0] == "app" and s[1] == ("global", "builtins.getattr") and len(s[2]) >= 2 and s[2][1] == ("const", "_func_adl_type_info")):
        return "method/class callback"
    if t[0] == "attr" and t[2] == "processor_function":
        return "function processor"
    if t[0] == "attr" and t[2] == "callback":
        return "parameterized property callback"
    return None


def _threading(run: Run, ctx, eff, m, fi: FuncInfo, c: ast.Call, kind: str, helper_of=None) -> None:
    fa = ctx.analysis(fi)
    selfp = ("param", fi.pos_params[0])
    rule = "C09.R1" if kind.startswith("method") else "C09.R2"
    a = [strip_sites(fa.term_of(x)) for x in c.args]
    cur = ("attr", selfp, "_stream")
    run.check(bool(a) and a[0] == cur, rule, fi, stmt_of(c), f"{kind} receives the current stream", f"the {kind} is called with {show(a[0])[:60] if a else 'nothing'} instead of the current stream: metadata added by an earlier callback is lost")
    st = stmt_of(c)
    ok_unpack = isinstance(st, ast.Assign) and isinstance(st.targets[0], ast.Tuple) and len(st.targets[0].elts) >= 2 and all(isinstance(e, ast.Name) for e in st.targets[0].elts)
    run.check(ok_unpack, rule, fi, st, "results are unpacked into (stream, node, ..)", "the callback's (stream, node) result is not unpacked")
    if not ok_unpack:
        return
    s_name, n_name = st.targets[0].elts[0].id, st.targets[0].elts[1].id  # type: ignore
    # other names the returned node goes by afterwards: x = <that value> (directly, or through a helper that hands its
    # argument back after checking it)
    n_names = {n_name}

    def _hands_back(e) -> Optional[str]:
        """the name whose value e is: a name itself, or h(name, ..) with h a package function that returns its first
        argument on every path (a checking / narrowing helper)"""
        if isinstance(e, ast.Name):
            return e.id
        if isinstance(e, ast.Call) and e.args and isinstance(e.args[0], ast.Name) and isinstance(e.func, (ast.Name, ast.Attribute)):
            h_ = None
            if isinstance(e.func, ast.Name):
                t_ = m.lookup_target(m.resolve_dotted(fi.module, fi, e.func.id))
                h_ = t_ if isinstance(t_, FuncInfo) else None
                skip_ = 0
            elif isinstance(e.func.value, ast.Name) and fi.cls is not None and fi.pos_params and e.func.value.id == fi.pos_params[0]:
                h_ = m.find_method(fi.cls, e.func.attr)
                skip_ = 0 if (h_ is not None and "staticmethod" in h_.decorators) else 1
            if h_ is not None and len(h_.pos_params) > skip_:
                try:
                    rt_ = strip_sites(ctx.analysis(h_).return_term())
                except AnalysisError:
                    return None
                if rt_ == ("param", h_.pos_params[skip_]):
                    return e.args[0].id
        return None

    for _round in range(3):
        for n in own_nodes(fi):
            if isinstance(n, ast.Assign) and len(n.targets) == 1 and isinstance(n.targets[0], ast.Name) and n is not st and fa.cfg.has_node(n) and fa.cfg.dominates(fa.cfg.node_of(st), fa.cfg.node_of(n)) and _same_block_after(st, n):
                if _hands_back(n.value) in n_names:
                    n_names.add(n.targets[0].id)
    # the returned stream becomes the current stream
    adopt = [n for n in own_nodes(fi) if isinstance(n, ast.Assign) and isinstance(n.targets[0], ast.Attribute) and n.targets[0].attr == "_stream" and isinstance(n.value, ast.Name) and n.value.id == s_name]
    dom = [n for n in adopt if fa.cfg.dominates(fa.cfg.node_of(st), fa.cfg.node_of(n)) and _same_block_after(st, n)]
    run.check(len(dom) >= 1, rule, fi, st, "the returned stream becomes the transformer's current stream", f"the stream returned by the {kind} is dropped: MetaData it attached never reaches the query")
    # the node passed is the current node variable, the returned node is what is used afterwards
    if len(a) >= 2:
        passed = c.args[1]
        if helper_of is not None:
            caller, call = helper_of
            st2 = stmt_of(call)
            k_ = fi.pos_params.index(passed.id) - 1 if isinstance(passed, ast.Name) and passed.id in fi.pos_params[1:] else None
            actual = call.args[k_] if k_ is not None and k_ < len(call.args) else None
            ok_n = isinstance(st2, ast.Assign) and len(st2.targets) == 1 and isinstance(st2.targets[0], ast.Name) and isinstance(actual, ast.Name) and actual.id == st2.targets[0].id
            run.check(ok_n, rule, caller, st2, "the callback receives the current node and its result replaces it", f"the {kind} (run through {fi.name}) does not receive the caller's current node variable, or its result is not bound to that variable: a rewrite returned by an earlier callback is not what the next one sees / what is emitted")
            if ok_n:
                cfa = ctx.analysis(caller)
                ok_cr = any(isinstance(r.value, ast.Name) and r.value.id == st2.targets[0].id for r, _n in cfa.returns())
                run.check(ok_cr, rule, caller, st2, "the (possibly rewritten) node is returned to visit_Call", f"the node returned by the {kind} is not what {caller.name} returns")
        elif kind.startswith("method") or kind.startswith("function"):
            ok_n = isinstance(passed, ast.Name) and passed.id in n_names
            if not ok_n and isinstance(passed, ast.Name):
                # unprocessed = node_var; stream, node_var = processor(stream, unprocessed): a local that names the
                # value the node variable holds when the call is made
                try:
                    cur_ = strip_sites(fa.term_of(ast.copy_location(ast.Name(id=n_name, ctx=ast.Load()), passed), fa.cfg.node_of(st)))
                    ok_n = cur_[0] != "top" and cur_ == strip_sites(fa.term_of(passed, fa.cfg.node_of(st)))
                except AnalysisError:
                    ok_n = False
            run.check(ok_n, rule, fi, st, "the callback receives the current node and its result replaces it", f"the {kind} receives '{ast.unparse(passed)}' but its result is bound to '{n_name}': a rewrite returned by an earlier callback is not what the next one sees / what is emitted")
    # the function returns that node
    rets = [s for s, _n in fa.returns()]
    ok_ret = any(r.value is not None and _hands_back(r.value) in n_names for r in rets)
    run.check(ok_ret, rule, fi, st, "the (possibly rewritten) node is returned to visit_Call", f"the node returned by the {kind} is not what {fi.name} returns")
    # R6 back-link
    linked = False
    for n in own_nodes(fi):
        if isinstance(n, ast.Assign) and isinstance(n.targets[0], ast.Attribute) and n.targets[0].attr == "_old_ast" and isinstance(n.targets[0].value, ast.Name) and n.targets[0].value.id in n_names and fa.cfg.dominates(fa.cfg.node_of(st), fa.cfg.node_of(n)):
            linked = True
        if isinstance(n, ast.Call) and fa.cfg.has_node(n) and fa.cfg.dominates(fa.cfg.node_of(st), fa.cfg.node_of(n)) and n is not c:
            for callee, binding, _how in eff._callee_bindings(fi, fa, n):
                if callee is None:
                    continue
                for mu in eff.summary.get(callee.qual, []):
                    if "._old_ast" in mu.kind and mu.loc[0][0] == "param" and mu.loc[1] is None and not mu.loc[2]:
                        actual = binding.get(mu.loc[0][1])
                        if isinstance(actual, ast.Name) and actual.id in n_names:
                            linked = True
    run.check(linked, "C09.R6", fi, st, f"the node returned by the {kind} gets an _old_ast back-link", f"the node returned by the {kind} carries no _old_ast back-link: when the call site is the whole body of a lambda given to a collection operator, the rewrite is not patched into the emitted lambda (metadata is kept, the query still shows the old call)", "<returned node>._old_ast = <node it replaces>")


def _same_block_after(a: ast.stmt, b: ast.stmt) -> bool:
    return getattr(b, "lineno", 0) > getattr(a, "lineno", 0)
