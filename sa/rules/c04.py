"""C04 - captured variables are frozen by value at the call, respecting scope (util_ast.py, object_stream.py)."""
from __future__ import annotations

import ast

from ..lib import Facts, calls_in, own_nodes, stmt_of
from ..model import AnalysisError, ClassInfo, FuncInfo
from ..report import Run
from ..terms import root_of, TermCtx, contains, show, strip_sites, unphi_terms
from ..visitors import LAMBDA_ARG_KINDS

EXPLANATION = (
    "(R1) the capture rewriter shadows, for the extent of their scope, the names bound by all five kinds of lambda parameters and by the "
    "targets of all four comprehension forms; a name is left alone when *any* enclosing frame binds it, and that test precedes every "
    "substitution; (R2) attribute folding getattr(value.value, attr) happens only under the fact isinstance(value, ast.Constant) - no "
    "hasattr test on a field name that several ast classes share; (R3) the lookup table is a new dict built during the operator call from "
    "the closure snapshot, and captured values enter the AST only as ast.Constant / as_literal nodes or freshly parsed lambdas; (R4) "
    "check_ast is applied to the emitted lambda before node construction in the three operators; (R5) g_legal_capture_types holds only "
    "immutable scalar types; (R6) where module globals and closure variables are merged, closure variables are the last writer (LEGB)."
    " In R1 the first iterable of a comprehension is rewritten *before* its loop variables are hidden (python evaluates it in the enclosing scope), every iterable exactly once."
)
NOT_DECIDED = "faithful rendering of every python value (C13) and the behaviour of inspect.getclosurevars (trusted stdlib)."

LEGAL_TYPES = {"str", "int", "float", "bool", "complex", "bytes"}
COMP_KINDS = ("ListComp", "GeneratorExp", "SetComp", "DictComp")


def _shared_field_names():
    counts = {}
    for n in dir(ast):
        c = getattr(ast, n)
        if isinstance(c, type) and issubclass(c, ast.AST):
            for f in getattr(c, "_fields", ()):
                counts.setdefault(f, set()).add(n)
    return {f: cs for f, cs in counts.items() if len(cs) > 1}


def check(run: Run) -> None:
    m = run.model
    run.rule("C04.R1", "binder completeness of _rewrite_captured_vars: 5 lambda parameter kinds + 4 comprehension forms shadowed, paired push/pop, all frames consulted, test precedes substitution")
    run.rule("C04.R2", "attribute folding only under isinstance(value, ast.Constant); no hasattr(<node>, <field shared by several ast classes>) discriminators")
    run.rule("C04.R3", "eager snapshot: table is a fresh dict built in parse_as_ast's dynamic extent; captured values become Constant / as_literal / freshly parsed lambda")
    run.rule("C04.R4", "check_ast(<emitted lambda>) dominates node construction in Select/SelectMany/Where")
    run.rule("C04.R5", "g_legal_capture_types is a subset of {str, int, float, bool, complex, bytes}")
    run.rule("C04.R6", "scope-merge precedence: closure variables (nonlocals) are applied after module globals")
    run.rule("C04.R7", "the capture rewriter traverses every call completely (callee, arguments, keywords)")
    ctx = TermCtx(m, max_depth=2, opaque={"_parse_source_for_lambda", "as_literal", "global_getclosurevars", "remap_from_lambda", "_local_simplification", "parse_as_ast", "function_call", "clone_with_new_ast"}, identity={"lambda_unwrap"})
    cls = m.find_class("_rewrite_captured_vars", in_module="func_adl.util_ast")
    check_binders(run, ctx, m, cls, "C04.R1")

    # ---------------- visit_Name: test precedes substitution
    vn = cls.methods.get("visit_Name")
    if vn is None:
        raise AnalysisError("anchor vanished: _rewrite_captured_vars.visit_Name")
    from ..normalise import unrolled

    vn = unrolled(m, vn)  # the by-kind rendering of the value may sit in a private helper visit_Name returns through
    fa = ctx.analysis(vn)
    nodep = ("param", vn.pos_params[1])
    selfp = ("param", vn.pos_params[0])
    n_subst = 0
    for s, n in fa.returns():
        t = strip_sites(fa.term_of(s.value, n))
        if t == nodep:
            continue
        n_subst += 1
        fx = Facts(fa, s)
        guarded = any((not pol) and isinstance(a, ast.Call) and isinstance(a.func, ast.Attribute) and a.func.attr == "is_arg" and strip_sites(fa.term_of(a.args[0])) == ("attr", nodep, "id") for a, pol in fx.atoms)
        run.check(guarded, "C04.R1", vn, s, "substitution happens only when is_arg(node.id) is false", "a name is replaced by its captured value without first checking that it is not bound by an enclosing lambda / comprehension")
        in_tbl = any(pol and isinstance(a, ast.Compare) and isinstance(a.ops[0], ast.In) and strip_sites(fa.term_of(a.left)) == ("attr", nodep, "id") and strip_sites(fa.term_of(a.comparators[0])) == ("attr", selfp, "_lookup_dict") for a, pol in fx.atoms)
        run.check(in_tbl, "C04.R3", vn, s, "substitution exactly for names in the snapshot table (membership test)", "the substitution is not conditioned on membership `node.id in self._lookup_dict`: a name outside the snapshot is replaced - or, where the looked-up value itself serves as the test, a captured falsy value (0, 0.0, False, '') stays a free name instead of becoming a constant")
        # R3: what may be returned
        v = ("subscript", ("attr", selfp, "_lookup_dict"), ("attr", nodep, "id"))
        for a in unphi_terms(t):
            ok = False
            if a[0] == "tvisit" and a[1].endswith("_rewrite_captured_vars"):
                a = a[2]  # a helper, its own free variables captured on the way (C05.R10)
            if a[0] == "new" and a[1] == "Constant" and dict(a[2]).get("value") == v:
                ok = True
            elif a[0] == "app" and a[1][0] == "global" and a[1][1].endswith("as_literal") and a[2] == (v,):
                ok = True
            elif a[0] == "app" and a[1][0] == "global" and a[1][1].endswith("_parse_source_for_lambda") and a[2] and a[2][0] == v:
                ok = True  # freshly parsed helper lambda (C05)
            elif a == ("const", None) and len(unphi_terms(t)) > 1:
                ok = True  # the walrus alternative that is excluded by `is not None`
            elif a == nodep:
                ok = True  # the name is left as it is (e.g. `helper if helper is not None else node`)
            run.check(ok, "C04.R3", vn, s, "captured value enters the AST as Constant / as_literal / freshly parsed lambda", f"visit_Name puts {show(a)[:120]} into the query: not a by-value constant of the snapshot (nor a fresh parse of a captured helper)", "ast.Constant(value=v) / as_literal(v)", show(a))
    run.floor("C04.R1", n_subst, 3, "substituting returns of visit_Name")

    # ---------------- R2
    va = cls.methods.get("visit_Attribute")
    if va is None:
        raise AnalysisError("anchor vanished: _rewrite_captured_vars.visit_Attribute")
    fa2 = ctx.analysis(va)
    nodea = ("param", va.pos_params[1])
    V = ("visit", ("attr", nodea, "value"))
    n_fold = 0
    for c in calls_in(va):
        if isinstance(c.func, ast.Name) and c.func.id == "getattr" and len(c.args) >= 2 and fa2.cfg.has_node(c):
            obj = strip_sites(fa2.term_of(c.args[0]))
            if obj == ("attr", V, "value") and not isinstance(c.args[1], ast.Constant):
                n_fold += 1
                fx = Facts(fa2, c)
                _check_fold_guard(run, fa2, va, c, "C04.R2")
                run.check(fx.isinstance_of(V, {"ast.Constant"}), "C04.R2", va, stmt_of(c), "folding getattr(value.value, attr) only when value is an ast.Constant", "an attribute is folded through value.value without knowing that the visited value is an ast.Constant: for other node kinds .value is a child *node* and the attribute is looked up on an ast object (e.x.id becomes the string 'e')", "isinstance(value, ast.Constant)")
    run.floor("C04.R2", n_fold, 1, "attribute folding sites")
    shared = _shared_field_names()
    for fi in [f for f in m.funcs.values() if f.module.name == "func_adl.util_ast"]:
        f3 = ctx.analysis(fi)
        for c in calls_in(fi):
            if isinstance(c.func, ast.Name) and c.func.id == "hasattr" and len(c.args) == 2 and isinstance(c.args[1], ast.Constant) and c.args[1].value in shared and f3.cfg.has_node(c):
                t = strip_sites(f3.term_of(c.args[0]))
                if t[0] in ("visit", "gvisit") or (t[0] == "param" and "node" in t[1]):
                    run.fail("C04.R2", fi, stmt_of(c), f"hasattr(<ast node>, '{c.args[1].value}') used to recognise a node kind, but '{c.args[1].value}' is a field of {len(shared[c.args[1].value])} ast classes ({', '.join(sorted(shared[c.args[1].value])[:5])}..)", "isinstance(node, ast.<Class>)")
    # every fold result is a Constant of the looked-up value or the original node
    for s, n in fa2.returns():
        t = strip_sites(fa2.term_of(s.value, n))
        for a in unphi_terms(t):
            ok = a == nodea or (a[0] == "new" and a[1] == "Constant") or a[0] == "tvisit"
            run.check(ok, "C04.R2", va, s, "visit_Attribute returns the node, a folded Constant or the marked enum reference", f"visit_Attribute returns {show(a)[:100]}")
        # Inside the folding branch (the value is a Constant that has the attribute) the dotted name is left in place only
        # for members *of an enum class* - the test is on the object the attribute is read from, not on what was found:
        # Cfg.color, a plain attribute that happens to hold an enum member, is a value to freeze (or to refuse)
        fx_ = Facts(fa2, s)
        in_fold = any(pol and isinstance(a_, ast.Call) and isinstance(a_.func, ast.Name) and a_.func.id == "hasattr" and len(a_.args) == 2 and fa2.cfg.has_node(a_.args[0]) and strip_sites(fa2.term_of(a_.args[0])) == ("attr", V, "value") for a_, pol in fx_.atoms)
        keeps_name = any(a == nodea or a[0] == "tvisit" for a in unphi_terms(t))
        if in_fold and keeps_name:
            from ..lib import match_isinstance

            subj_ok = False
            for a_, pol in fx_.atoms:
                got = match_isinstance(a_) if isinstance(a_, (ast.Call, ast.Compare)) else None
                if got is None or not pol:
                    continue
                subj_e, cls_es, _exact = got
                if any("Enum" in ast.unparse(c_) for c_ in cls_es) and fa2.cfg.has_node(subj_e):
                    subj_ok = subj_ok or strip_sites(fa2.term_of(subj_e)) == ("attr", V, "value")
            run.check(subj_ok, "C04.R2", va, s, "the dotted name is kept only for members of an enum class (test on the object read from)", "inside the folding branch the attribute reference is left in the query under a test that is not 'the object the attribute is read from is an enum class': a plain attribute whose value happens to be an enum member (Cfg.color) is then neither frozen by value nor refused", "isinstance(value.value, Enum.__class__)", key="enum branch tested on the looked-up value")

    # ---------------- R7: visit_Call always traverses the whole call
    rc = cls.methods.get("visit_Call")
    if rc is None:
        raise AnalysisError("anchor vanished: _rewrite_captured_vars.visit_Call")
    frc = ctx.analysis(rc)
    rcn = ("param", rc.pos_params[1])
    for s_, n_ in frc.returns():
        t = strip_sites(frc.term_of(s_.value, n_))
        for a in unphi_terms(t):
            base = a[1] if a[0] == "upd" else a
            run.check(base == ("gvisit", rcn), "C04.R7", rc, s_, "visit_Call returns the generic_visit-ed call (arguments and keywords are rewritten too)", f"_rewrite_captured_vars.visit_Call returns {show(a)[:80]} on some path without visiting the call's arguments: captured variables inside them are not frozen (and never reach the constant gate)", "super().generic_visit(node)", show(a))

    # ---------------- R3 / R6: snapshot built eagerly, from the callable's own scopes, inner scope wins
    check_snapshot(run, ctx, m, cls)
    # "a captured value that cannot be transported makes that call raise ValueError": the refusal must leave the library
    from .c10 import check_refusals_propagate

    check_refusals_propagate(run, m, "C04.R8")

    # ---------------- R4, R5 (shared with C13.R3)
    from .c13 import _check_gate

    class _Proxy:
        """re-label the shared gate obligations under this property's rule ids"""

        def __init__(self, run):
            self._r = run

        def __getattr__(self, k):
            return getattr(self._r, k)

        def check(self, cond, rule, *a, **kw):
            return self._r.check(cond, _map(rule, a), *a, **kw)

        def fail(self, rule, *a, **kw):
            return self._r.fail(_map(rule, a), *a, **kw)

        def ok(self, rule, *a, **kw):
            return self._r.ok(_map(rule, a), *a, **kw)

    def _map(rule, a):
        txt = " ".join(str(x) for x in a if isinstance(x, str))
        return "C04.R5" if "g_legal_capture_types contains" in txt or "admits" in txt else "C04.R4"

    _check_gate(_Proxy(run), TermCtx(m, max_depth=2, opaque={"as_ast", "as_literal", "parse_as_ast", "remap_from_lambda", "_local_simplification", "function_call", "clone_with_new_ast"}), m)


def check_binders(run: Run, ctx: TermCtx, m, cls: ClassInfo, rule: str) -> None:
    """ignore-stack discipline of _rewrite_captured_vars (also used by C06 for comprehension targets)."""
    vl = cls.methods.get("visit_Lambda")
    if vl is None:
        run.fail(rule, None, cls.node, "_rewrite_captured_vars has no visit_Lambda: lambda parameters are replaced by captured values")
        return
    from ..lib import attrs_in_call_closure

    kinds = attrs_in_call_closure(m, vl, LAMBDA_ARG_KINDS)
    missing = [k for k in LAMBDA_ARG_KINDS if k not in kinds]
    run.check(not missing, rule, vl, vl.node, "all five kinds of lambda parameters are shadowed", f"visit_Lambda does not shadow {'/'.join(missing)} parameters: a captured variable of the same name replaces them")
    _paired(run, ctx, vl, rule)
    # comprehension forms
    handlers = {}
    for k in COMP_KINDS:
        name = f"visit_{k}"
        if name in cls.methods:
            handlers[k] = cls.methods[name]
        elif name in cls.class_assigns and isinstance(cls.class_assigns[name], ast.Name) and cls.class_assigns[name].id in cls.methods:
            handlers[k] = cls.methods[cls.class_assigns[name].id]
    for k in COMP_KINDS:
        run.check(k in handlers, rule, vl, cls.node, f"{k} targets are shadowed", f"_rewrite_captured_vars has no handler for {k}: the loop variable of such a comprehension is replaced by a captured value of the same name (and its Store-context target becomes a constant)")
    for h in set(handlers.values()):
        fa = ctx.analysis(h)
        nodep = ("param", h.pos_params[1])
        from ..lib import call_events

        pushes = [e for e in call_events(ctx, h, lambda n: n == "append") if e.args and e.recv is not None and root_of(e.recv) == ("param", h.pos_params[0])]
        ok_t = False
        for c in pushes:
            t = c.args[0]
            # names of all targets of all generators
            whole = contains(t, lambda s: s[0] == "app" and s[1] == ("global", "ast.walk") and len(s[2]) == 1 and s[2][0][0] == "attr" and s[2][0][2] == "target")
            ok_t = ok_t or (contains(t, lambda s: s == ("attr", nodep, "generators")) and whole and contains(t, lambda s: s[0] == "attr" and s[2] == "id"))
        whole_visit = any(isinstance(c_.func, ast.Attribute) and c_.func.attr == "generic_visit" for c_ in calls_in(h))
        if not ok_t:
            from ..lib import mentions_generator as _mg

            for c in pushes:
                if _mg(m, c.args[0]):
                    raise AnalysisError(f"the names a comprehension binds are collected by the generator {_mg(m, c.args[0])}(..): which names end up in the frame cannot be read from this shape")
        run.check(ok_t, rule, h, h.node, "frame holds every Name inside every generator target (tuple targets included)", "the comprehension frame is not built from all Name nodes found by walking each generator's target: tuple-unpacked loop variables (for pt, eta in ..) are not protected and are replaced by a captured value of the same name", "[n.id for g in node.generators for n in ast.walk(g.target) if isinstance(n, ast.Name)]")
        if whole_visit:
            _paired(run, ctx, h, rule)  # piece-by-piece handlers: pairing around the element is judged by check_comprehension_shadow
    check_comprehension_shadow(run, ctx, m, cls, rule)
    # is_arg consults every frame
    ia = cls.methods.get("is_arg")
    if ia is None:
        raise AnalysisError("anchor vanished: _rewrite_captured_vars.is_arg")
    fa = ctx.analysis(ia)
    rt = strip_sites(fa.return_term())
    stack = ("attr", ("param", ia.pos_params[0]), "_ignore_stack")
    iterates_all = contains(rt, lambda s: s[0] == "comp" and any(g[0] == stack for g in s[3])) or contains(rt, lambda s: s[0] == "app" and s[1][0] == "global" and s[1][1].endswith("chain") and stack in s[2])
    indexes = contains(rt, lambda s: s[0] in ("index", "slice", "subscript") and s[1] == stack)
    run.check(iterates_all and not indexes, rule, ia, ia.node, "is_arg consults every frame of the ignore stack", f"is_arg computes {show(rt)[:140]}: it does not consult all enclosing frames, so inside a nested lambda/comprehension an outer lambda's parameter is replaced by a captured value of the same name", "any(a == name for frame in self._ignore_stack for a in frame)", show(rt))
    uses_name = contains(rt, lambda s: s == ("param", ia.pos_params[1]))
    run.check(uses_name, rule, ia, ia.node, "is_arg compares with the queried name", "is_arg ignores its argument")


def _paired(run: Run, ctx, fi: FuncInfo, rule: str) -> None:
    from ..lib import call_events, event_after, event_before

    evs = call_events(ctx, fi, lambda n: n in ("append", "pop", "generic_visit"))
    selfp = ("param", fi.pos_params[0])
    # the frame stack is an attribute of self; appends to local lists (a frame being built) are not pushes
    pushes = [e for e in evs if e.name == "append" and e.recv is not None and root_of(e.recv) == selfp and e.recv != selfp]
    pops = [e for e in evs if e.name == "pop" and e.recv is not None and root_of(e.recv) == selfp and e.recv != selfp]
    gvs = [e for e in evs if e.name == "generic_visit"]
    ok = len(pushes) == 1 and len(pops) == 1 and len(gvs) == 1
    if ok:
        p, g, q = pushes[0], gvs[0], pops[0]
        ok = event_before(ctx, fi, p, g) and event_before(ctx, fi, g, q) and event_after(ctx, fi, q, g) and p.call is not g.call and g.call is not q.call
        ok = ok and p.recv is not None and p.recv == q.recv
        tgt = g.args[-1] if g.args else None
        ok = ok and tgt == ("param", fi.pos_params[1])
    from ..lib import pop_is_lifo

    for q_ in pops:
        run.check(pop_is_lifo(q_), rule, fi, stmt_of(q_.call) if q_.owner is fi else fi.node, f"{fi.name}: the frame removed is the newest one", f"{fi.name} removes the frame at position {', '.join(show(a_) for a_ in q_.args)} of the stack, not the newest one: after a nested lambda / comprehension the enclosing scope's frame is gone while its body is still being visited, so its parameters are treated as free names (replaced by a captured value of the same name)", ".pop()")
    run.check(ok, rule, fi, fi.node, f"{fi.name}: frame pushed before and popped after generic_visit(node) on every path", f"{fi.name} does not pair push / generic_visit(node) / pop on every path: bound names leak out of, or are not shadowed inside, their scope")


def _check_merge_order(run: Run, ctx, init: FuncInfo) -> None:
    fa = ctx.analysis(init)
    cvp = ("param", init.pos_params[1])
    writes = []  # (lineno, source term)
    for n in own_nodes(init):
        if isinstance(n, (ast.Assign, ast.AnnAssign)):
            tg = n.targets[0] if isinstance(n, ast.Assign) else n.target
            if isinstance(tg, ast.Attribute) and tg.attr == "_lookup_dict" and n.value is not None:
                v = n.value
                if isinstance(v, ast.Call) and isinstance(v.func, ast.Name) and v.func.id == "dict" and len(v.args) == 1:
                    writes.append((n.lineno, strip_sites(fa.term_of(v.args[0])), n))
                elif isinstance(v, ast.Dict) and all(k is None for k in v.keys):
                    for e in v.values:
                        writes.append((n.lineno, strip_sites(fa.term_of(e)), n))
                elif isinstance(v, ast.BinOp) and isinstance(v.op, ast.BitOr):
                    writes.append((n.lineno, strip_sites(fa.term_of(v.left)), n))
                    writes.append((n.lineno, strip_sites(fa.term_of(v.right)), n))
                else:
                    t = strip_sites(fa.term_of(v))
                    fresh = t[0] in ("dict",) or (t[0] == "app" and t[1] == ("global", "builtins.dict"))
                    run.check(fresh, "C04.R3", init, n, "the lookup table is a new dict", f"the lookup table is {show(t)[:80]}: an alias of a live namespace, so later rebinding changes what is captured")
        if isinstance(n, ast.Call) and isinstance(n.func, ast.Attribute) and n.func.attr == "update" and isinstance(n.func.value, ast.Attribute) and n.func.value.attr == "_lookup_dict" and n.args:
            writes.append((n.lineno, strip_sites(fa.term_of(n.args[0])), stmt_of(n)))
    writes.sort(key=lambda w: w[0])
    srcs = [w[1] for w in writes]
    g, nl = ("attr", cvp, "globals"), ("attr", cvp, "nonlocals")
    run.check(bool(writes), "C04.R3", init, init.node, "the lookup table is built as a new dict from the snapshot", "no construction of _lookup_dict found")
    run.check(g in srcs and nl in srcs, "C04.R6", init, init.node, "table merges closure variables and module globals", f"table sources are {[show(s) for s in srcs]}")
    if g in srcs and nl in srcs:
        last_g = max(i for i, s in enumerate(srcs) if s == g)
        last_n = max(i for i, s in enumerate(srcs) if s == nl)
        run.check(last_n > last_g, "C04.R6", init, writes[last_g][2], "closure variables are applied after module globals", "module globals are applied after the closure variables: a lambda referring to a local of the enclosing function captures a same-named module global instead (inner scope must win)", "dict(cv.globals); .update(cv.nonlocals)")


def check_snapshot(run: Run, ctx, m, cls) -> None:
    """the table captured values are read from: a fresh dict built during the operator call from the callable's own
    closure and module globals (also C13.R4: a value can only be embedded exactly if it is the callable's binding)."""
    init = cls.methods.get("__init__")
    if init is None:
        raise AnalysisError("anchor vanished: _rewrite_captured_vars.__init__")
    _check_merge_order(run, ctx, init)
    from ..lib import view as _view

    pa = _view(m, m.find_func("parse_as_ast", in_module="func_adl.util_ast"))
    c3 = TermCtx(m, max_depth=1, opaque={"_parse_source_for_lambda", "global_getclosurevars", "lambda_unwrap"})
    fp = c3.analysis(pa)
    src = ("param", pa.pos_params[0])
    found = False
    for s, n in fp.returns():
        t = strip_sites(fp.term_of(s.value, n))
        if t[0] == "tvisit" and t[1].endswith("_resolve_called_lambdas") and t[2][0] == "tvisit" and t[2][1].endswith("_rewrite_captured_vars"):
            found = True
            from ..lib import call_events

            ctor = [e for e in call_events(c3, pa, lambda nm: nm == cls.name) if e.args]
            a0 = ctor[0].args[0] if len(ctor) == 1 else ("top", "?")
            ok = len(ctor) == 1 and a0[0] == "app" and a0[1][0] == "global" and a0[1][1].endswith("global_getclosurevars") and a0[2] == (src,)
            run.check(ok, "C04.R3", pa, s, "the rewriter is built from global_getclosurevars(callable) inside parse_as_ast", "the capture table is not built from the callable's closure during the operator call")
            inner = t[2][2]
            ok2 = any(a[0] == "app" and a[1][1].endswith("_parse_source_for_lambda") for a in unphi_terms(inner))
            run.check(ok2, "C04.R3", pa, s, "the rewriter is applied to the recovered source lambda", f"capture rewriting is applied to {show(inner)[:80]}")
    run.check(found, "C04.R3", pa, pa.node, "callable path: _resolve_called_lambdas().visit(_rewrite_captured_vars(closure).visit(src))", "parse_as_ast no longer rewrites captured variables and then resolves called lambdas for callables")
    gc = m.find_func("global_getclosurevars", in_module="func_adl.util_ast")
    fg = TermCtx(m, max_depth=1).analysis(gc)
    rt = strip_sites(fg.return_term())
    ok = rt[0] == "app" and rt[1] == ("global", "inspect.getclosurevars") and rt[2] == (("param", gc.pos_params[0]),)
    run.check(ok, "C04.R3", gc, gc.node, "global_getclosurevars returns inspect.getclosurevars(f) (a snapshot)", f"global_getclosurevars returns {show(rt)[:100]}")
    ups = [c for c in calls_in(gc) if isinstance(c.func, ast.Attribute) and c.func.attr == "update" and c.args]
    ok_g = False
    for c in ups:
        tgt = strip_sites(fg.term_of(c.func.value))
        src_ = strip_sites(fg.term_of(c.args[0]))
        if tgt == ("attr", rt, "globals") and src_ == ("attr", ("param", gc.pos_params[0]), "__globals__"):
            ok_g = True
    run.check(ok_g, "C04.R3", gc, gc.node, "the snapshot's globals are completed with all of f.__globals__", "the closure snapshot is not completed with *all* module globals of the callable (inspect.getclosurevars only reports names used directly by f): a global referenced only inside a nested lambda, at any depth, is neither frozen nor checked", "cv.globals.update(f.__globals__)")



def _skips_first_pass(h: FuncInfo, call: ast.Call) -> bool:
    """the call sits in a loop under `if not FLAG:` (or in the else of `if FLAG:`), FLAG a local that is True when the
    loop is entered, set to False in the loop body on every pass (at body level, after the test) and written nowhere
    else: the statement runs on every pass but the first"""
    from ..model import ancestors as _anc
    from ..model import parent as _par

    loop = next((a for a in _anc(call) if isinstance(a, ast.For)), None)
    if loop is None:
        return False
    guard = None
    child = call
    for a in _anc(call):
        if a is loop:
            break
        if isinstance(a, ast.If):
            t = a.test
            in_body = any(child is x or any(child is y for y in ast.walk(x)) for x in a.body)
            if isinstance(t, ast.UnaryOp) and isinstance(t.op, ast.Not) and isinstance(t.operand, ast.Name) and in_body:
                guard = (a, t.operand.id)
            elif isinstance(t, ast.Name) and not in_body:
                guard = (a, t.id)
            else:
                return False
        child = a
    if guard is None or guard[0] not in loop.body:
        return False
    iff, flag = guard
    stores = [n for n in ast.walk(h.node) if isinstance(n, ast.Name) and n.id == flag and isinstance(n.ctx, (ast.Store, ast.Del))]
    if len(stores) != 2:
        return False
    asg = [_par(n) for n in stores]
    if not all(isinstance(a, ast.Assign) and len(a.targets) == 1 and isinstance(a.value, ast.Constant) and isinstance(a.value.value, bool) for a in asg):
        return False
    init = [a for a in asg if a.value.value is True and not any(a is y for y in ast.walk(loop))]
    reset = [a for a in asg if a.value.value is False and a in loop.body and loop.body.index(a) > loop.body.index(iff)]
    if len(init) != 1 or len(reset) != 1:
        return False
    # nothing between the initialisation and the loop may skip the loop's first pass semantics: the init statement
    # precedes the loop in the same block
    blk = getattr(_par(loop), "body", None)
    if not isinstance(blk, list) or init[0] not in blk or loop not in blk or blk.index(init[0]) > blk.index(loop):
        blk = getattr(_par(loop), "orelse", None)
        if not isinstance(blk, list) or init[0] not in blk or loop not in blk or blk.index(init[0]) > blk.index(loop):
            return False
    return not any(isinstance(x, (ast.Continue,)) for x in ast.walk(loop))


def check_comprehension_shadow(run: Run, ctx: TermCtx, m, cls: ClassInfo, rule: str) -> None:
    """A substituting transformer (one whose visit_Name can replace a name) must treat the loop variables of the four
    comprehension forms as binders: a frame holding every Name of every generator target is pushed, the element
    (and conditions) are visited under it, and it is popped on every path."""
    from ..lib import call_events, event_after, event_before

    handlers = {}
    for k in COMP_KINDS:
        name = f"visit_{k}"
        if name in cls.methods:
            handlers[k] = cls.methods[name]
        elif name in cls.class_assigns and isinstance(cls.class_assigns[name], ast.Name) and cls.class_assigns[name].id in cls.methods:
            handlers[k] = cls.methods[cls.class_assigns[name].id]
    anchor = cls.methods.get("visit_Name") or next(iter(cls.methods.values()))
    # the frames are kept in a list the object owns (pushed with append, dropped with pop): any other representation
    # (linked frames, tuples re-bound on every push) is outside what this rule can read
    from ..lib import init_attr as _init_attr

    try:
        _init_attr(ctx, m, cls, lambda t_: t_ == ("list", ()), f"the frame stack of {cls.name}")
        has_list_stack = True
    except AnalysisError:
        has_list_stack = False
    try:
        # a flat set of hidden names is readable - and is not a stack (leaving an inner scope un-hides an outer binder)
        _init_attr(ctx, m, cls, lambda t_: t_ in (("app", ("global", "builtins.set"), (), ()), ("set", ())), f"the hidden-name set of {cls.name}")
        has_list_stack = True
    except AnalysisError:
        pass
    for k in COMP_KINDS:
        run.check(k in handlers, rule, anchor, cls.node, f"{k} loop variables are treated as binders", f"{cls.name} has no handler for {k}: the loop variable of such a comprehension is replaced by a pending substitution of the same name (its Store-context target becomes an expression), and uses of the loop variable in the element refer to the substituted value instead of the loop's", "push a frame with the target names around the visit of the comprehension")
    for h in {id(v): v for v in handlers.values()}.values():
        nodep = ("param", h.pos_params[1])
        evs = call_events(ctx, h, lambda n: n in ("append", "pop", "visit", "generic_visit"))
        selfp_ = ("param", h.pos_params[0])
        pushes = [e for e in evs if e.name == "append" and e.args and e.recv is not None and root_of(e.recv) == selfp_]  # the frame stack, not a local list
        pops = [e for e in evs if e.name == "pop" and e.recv is not None and root_of(e.recv) == selfp_]
        if not pushes and not pops and not has_list_stack:
            raise AnalysisError(f"{cls.name} keeps its frames in something other than a list it appends to and pops from (linked frames, re-bound tuples, ..): the binder discipline of {h.name} cannot be read")
        ok_t = False
        for c in pushes:
            t = c.args[0]
            whole = contains(t, lambda s_: s_[0] == "app" and s_[1] == ("global", "ast.walk") and len(s_[2]) == 1 and s_[2][0][0] == "attr" and s_[2][0][2] == "target")
            ok_t = ok_t or (contains(t, lambda s_: s_ == ("attr", nodep, "generators")) and whole and contains(t, lambda s_: s_[0] == "attr" and s_[2] == "id"))
        run.check(ok_t, rule, h, h.node, "frame holds every Name inside every generator target (tuple targets included)", f"the frame pushed by {h.name} is not built from all Name nodes found by walking each generator's target", "[n.id for g in node.generators for n in ast.walk(g.target) if isinstance(n, ast.Name)]")
        ok_p = len(pushes) == 1 and len(pops) == 1 and pushes[0].recv is not None and pushes[0].recv == pops[0].recv and event_after(ctx, h, pops[0], pushes[0])
        from ..lib import pop_is_lifo as _lifo

        for q_ in pops:
            run.check(_lifo(q_), rule, h, stmt_of(q_.call) if q_.owner is h else h.node, f"{h.name}: the frame removed is the newest one", f"{h.name} removes the frame at position {', '.join(show(a_) for a_ in q_.args)} of the stack, not the newest one: the frame of an enclosing scope is dropped while that scope is still being visited", ".pop()")
        def _result_field(t_) -> bool:
            # node.elt / node.key / node.value - or getattr(node, <field>) with the field's name taken from a table of
            # exactly these names (the element fields by kind of comprehension)
            if t_[0] == "attr" and t_[1] == nodep and t_[2] in ("elt", "key", "value"):
                return True
            if t_[0] == "app" and t_[1] == ("global", "builtins.getattr") and len(t_[2]) == 2 and t_[2][0] == nodep:
                from ..lib import walk_terms as _wt

                names_ = {x_[1] for x_ in _wt(resolve_names(t_[2][1])) if isinstance(x_, tuple) and len(x_) == 2 and x_[0] == "const" and isinstance(x_[1], str)}
                return bool(names_) and names_ <= {"elt", "key", "value"} and "elt" in names_
            return False

        def resolve_names(t_):
            from ..terms import resolve_global_consts

            t_ = resolve_global_consts(m, t_)
            # a module-level literal table named in the term
            out_ = [t_]
            for x_ in walk_terms_(t_):
                if isinstance(x_, tuple) and len(x_) == 2 and x_[0] == "global" and isinstance(x_[1], str):
                    mod_, _, nm_ = x_[1].rpartition(".")
                    mi_ = m.modules.get(mod_)
                    lit_ = mi_.assigns.get(nm_) if mi_ is not None else None
                    if isinstance(lit_, (ast.Tuple, ast.List, ast.Dict)):
                        out_ += [("const", c_.value) for c_ in ast.walk(lit_) if isinstance(c_, ast.Constant) and isinstance(c_.value, str)]
            return tuple(out_)

        from ..lib import walk_terms as walk_terms_

        body = [e for e in evs if (e.name == "generic_visit" and e.args and e.args[-1] == nodep) or (e.name == "visit" and e.args and _result_field(e.args[0]))]
        ok_b = bool(body) and ok_p and all(event_before(ctx, h, pushes[0], e) and event_after(ctx, h, pops[0], e) for e in body)
        # when the iterables are visited one by one: the first exactly once (before the frame), the others exactly once (inside)
        gens_t = ("attr", nodep, "generators")
        iter_vis = [e for e in evs if e.name == "visit" and e.args and e.args[0][0] == "attr" and e.args[0][2] == "iter"]
        if iter_vis:
            first = [e for e in iter_vis if e.args[0][1] == ("index", gens_t, 0)]
            rest = [e for e in iter_vis if e not in first]
            ok_i = len(first) == 1 and len(rest) == 1
            why_i = f"{len(first)} visit(s) of the first iterable, {len(rest)} of the others"
            if ok_i:
                r_ = rest[0].args[0][1]
                # elem(enumerate(generators))[1] under index > 0, or elem(generators[1:])
                if r_ == ("index", ("elem", ("app", ("global", "builtins.enumerate"), (gens_t,), ())), 1):
                    idx_t = ("index", ("elem", ("app", ("global", "builtins.enumerate"), (gens_t,), ())), 0)
                    fx_ = rest[0].facts(ctx)
                    ok_i = fx_.compare_const(idx_t, [ast.Gt], 0) or fx_.compare_const(idx_t, [ast.GtE], 1) or fx_.compare_const(idx_t, [ast.NotEq], 0)
                    why_i = "the other iterables are not visited exactly for index > 0 of enumerate(generators)"
                elif r_ == ("elem", ("slice", gens_t, 1, None)):
                    ok_i = True
                elif r_ == ("elem", gens_t) and rest[0].owner is h and _skips_first_pass(h, rest[0].call):
                    ok_i = True  # for g in generators: if not is_first: g.iter = visit(g.iter); is_first = False
                else:
                    ok_i = False
                    why_i = f"the other iterables are taken from {show(r_)[:80]}: not generators[1:] / enumerate(generators) from 0"
                if ok_i:
                    # .. and the first one before the frame exists: python evaluates it in the enclosing scope
                    ok_i = bool(pushes) and event_before(ctx, h, first[0], pushes[0])
                    why_i = "the first iterable is visited after the frame of loop variables was pushed: a name in it that is also a loop variable ([j for j in range(j)]) is taken for the loop variable and not substituted"
            run.check(ok_i, rule, h, h.node, "every iterable is visited exactly once (the first outside the frame)", f"{h.name}: {why_i} - an iterable visited twice has substitutions applied to already substituted text (a name in the caller's argument that is spelled like another parameter is rewritten again)")
        else:
            whole = [e for e in evs if e.name == "generic_visit" and e.args and e.args[-1] == nodep]
            run.check(not whole, rule, h, h.node, "the first iterable is visited outside the frame of loop variables", f"{h.name} visits the whole comprehension under the frame of its loop variables: python evaluates the first iterable in the enclosing scope, so in [j for j in range(j)] the j of range(j) is the outer one - here it is hidden and left un-substituted (a free name in the query)", "generators[0].iter = self.visit(generators[0].iter) before the frame is pushed", key="first iterable of a comprehension visited under its own loop variables")
        run.check(ok_p and ok_b, rule, h, h.node, "the element is visited between the push and the pop of that frame, on every path", f"{h.name} does not visit the comprehension's element under a frame that is pushed before and popped after it: loop variables are substituted, or the frame leaks into the rest of the expression")


def _check_fold_guard(run: Run, fa, va: FuncInfo, fold_call: ast.Call, rule: str) -> None:
    """the attribute of a captured constant is folded whenever it *exists* (hasattr), not when its value is truthy"""
    if len(fold_call.args) >= 3:
        # a probing getattr(obj, name, default): "the attribute exists" cannot be told from "its value is the default"
        # when the default is an ordinary constant - folding then depends on the value (None, 0, '' and False are lost)
        has_ = False
        obj_t = strip_sites(fa.term_of(fold_call.args[0]))
        for a, pol in Facts(fa, fold_call).atoms:
            if isinstance(a, ast.Call) and isinstance(a.func, ast.Name) and a.func.id == "hasattr" and pol and len(a.args) == 2 and fa.cfg.has_node(a.args[0]) and strip_sites(fa.term_of(a.args[0])) == obj_t:
                has_ = True
        dflt = fold_call.args[2]
        if not has_ and not isinstance(dflt, ast.Constant):
            raise AnalysisError("the captured attribute is probed with getattr(obj, name, <sentinel>): whether the sentinel can be told from every attribute value is not read")
        run.check(has_, rule, va, stmt_of(fold_call), "captured attribute folded whenever it exists (hasattr), whatever its value", f"the attribute of a captured object is read with getattr(.., {ast.unparse(dflt)}) and folded depending on the value that comes back instead of on hasattr(object, name): a captured attribute whose value is 0, 0.0, '', False or None stays in the query as a Python-side attribute reference instead of its value", "hasattr(value.value, node.attr)")
        return
    obj_t = strip_sites(fa.term_of(fold_call.args[0]))
    attr_t = strip_sites(fa.term_of(fold_call.args[1]))
    exists = False
    truthy = []
    for a, pol in Facts(fa, fold_call).atoms:
        if isinstance(a, ast.Call) and isinstance(a.func, ast.Name) and len(a.args) >= 2 and fa.cfg.has_node(a.args[0]):
            try:
                same = strip_sites(fa.term_of(a.args[0])) == obj_t and strip_sites(fa.term_of(a.args[1])) == attr_t
            except AnalysisError:
                same = False
            if same and a.func.id == "hasattr" and pol:
                exists = True
            if same and a.func.id == "getattr" and pol:
                truthy.append(ast.unparse(a))
    own_dict = [ast.unparse(a) for a, pol in Facts(fa, fold_call).atoms if pol and isinstance(a, ast.Compare) and len(a.ops) == 1 and isinstance(a.ops[0], ast.In) and any((isinstance(x, ast.Attribute) and x.attr == "__dict__") or (isinstance(x, ast.Constant) and x.value == "__dict__") or (isinstance(x, ast.Name) and x.id == "vars") for x in ast.walk(a.comparators[0]))]
    why = (f"{truthy[0]} is truthy" if truthy else (f"{own_dict[0][:70]} holds - the object's own __dict__ has neither what its class (or a base class) defines nor, seen from a class, what it inherits: a class constant reached through a subclass or an instance stays in the query as a Python-side attribute reference" if own_dict else "some condition other than hasattr(object, name) holds"))
    run.check(exists and not truthy, rule, va, stmt_of(fold_call), "captured attribute folded whenever it exists (hasattr), whatever its value", "the attribute of a captured object is folded only when " + why + ": a captured attribute whose value is 0, 0.0, '' or False stays in the query as a Python-side attribute reference instead of its value", "hasattr(value.value, node.attr)")


def check_attribute_fold(run: Run, ctx, m, rule: str) -> None:
    """C13.R4 (shared with C04.R2): values reached through an attribute of a captured object are embedded exactly"""
    cls = m.find_class("_rewrite_captured_vars", in_module="func_adl.util_ast")
    va = cls.methods.get("visit_Attribute")
    if va is None:
        raise AnalysisError("anchor vanished: _rewrite_captured_vars.visit_Attribute")
    fa2 = ctx.analysis(va)
    V = ("visit", ("attr", ("param", va.pos_params[1]), "value"))
    n = 0
    for c in calls_in(va):
        if isinstance(c.func, ast.Name) and c.func.id == "getattr" and len(c.args) in (2, 3) and fa2.cfg.has_node(c) and strip_sites(fa2.term_of(c.args[0])) == ("attr", V, "value"):
            if isinstance(c.args[1], ast.Constant):
                continue  # reads a fixed attribute of the captured object (__dict__, __class__ ..), not the one the query names
            n += 1
            _check_fold_guard(run, fa2, va, c, rule)
    run.floor(rule, n, 1, "attribute folding sites")
