"""C18 - simplification is total on well-formed queries (function_simplifier.py)."""
from __future__ import annotations

import ast

from .. import fusion
from ..lib import Facts, calls_in, len_eq, match_isinstance, norm_atom, own_nodes, stmt_of
from ..model import AnalysisError, FuncInfo
from ..report import Run
from ..terms import TermCtx, contains, root_of, show, strip_sites, unphi_terms
from ..visitors import dispatch_entries, unvisited_in_entry

EXPLANATION = (
    "in the literal-projection handlers every use of the selector's python value (s.value, comparison with len, elts[n]) is dominated by "
    "'selector is an ast.Constant' and a type test, negative indices are excluded before indexing, the bound test is n >= len(elts) -> "
    "FuncADLIndexError, and the un-guarded branch returns a well-formed Subscript of the visited value and visited selector (R1, R2); "
    "every argument bound to an expression-typed field of an ast constructor anywhere in the simplifier is AST-typed, never a python "
    "scalar, and string-typed fields never receive nodes (R3); the only exception the simplifier raises is FuncADLIndexError and no "
    "assert depends on the selector (R4); no raw sub-tree (un-substituted selector or value) reaches the output of the projection "
    "entries (R5, shared engine with C14.R1); the frame discipline of called lambdas (fresh frame keys, arguments visited, guard on the "
    "call shape) is the one C02 requires, so an index written for an outer object never meets a literal bound to a parameter (R8)."
)
NOT_DECIDED = "termination of the rewriting (a decreasing measure is a hand proof, not a shape) and compile-ability of every output."

# expression-typed / string-typed fields of the node classes the simplifier constructs
EXPR_FIELDS = {
    "Subscript": {"value", "slice"},
    "Attribute": {"value"},
    "Call": {"func"},
    "Lambda": {"body"},
    "BinOp": {"left", "right"},
    "UnaryOp": {"operand"},
    "IfExp": {"test", "body", "orelse"},
    "Starred": {"value"},
    "keyword": {"value"},
    "Compare": {"left"},
}
EXPR_LIST_FIELDS = {"Call": {"args"}, "BoolOp": {"values"}, "Tuple": {"elts"}, "List": {"elts"}, "Dict": {"values"}, "Compare": {"comparators"}}
STR_FIELDS = {"Attribute": {"attr"}, "Name": {"id"}, "arg": {"arg"}, "keyword": {"arg"}}


def check(run: Run) -> None:
    m = run.model
    mod = "func_adl.ast.function_simplifier"
    run.rule("C18.R1", "selector guards: uses of the selector's python value are dominated by isinstance(s, ast.Constant) and a type test; unguarded branch returns Subscript(v, s, Load())")
    run.rule("C18.R2", "index guarded by >= 0 and by n >= len(elts) -> FuncADLIndexError before elts[n]")
    run.rule("C18.R3", "ast constructors receive AST-typed values in expression slots and python strings in string slots")
    run.rule("C18.R4", "only FuncADLIndexError is raised; no assert on selector-derived values")
    run.rule("C18.R5", "no un-visited selector / value reaches the output of visit_Subscript / visit_Attribute")
    ctx = TermCtx(m, opaque=fusion.OPAQUE, identity={"lambda_unwrap"}, max_depth=5)
    cls = m.find_class("simplify_chained_calls", in_module=mod)

    # the projection handlers: methods of the class called from visit_Subscript with (visited value, visited selector)
    vs = cls.methods.get("visit_Subscript")
    if vs is None:
        raise AnalysisError("anchor vanished: simplify_chained_calls.visit_Subscript")
    from ..normalise import unrolled
    from ..visitors import projection_handlers

    vs = unrolled(m, vs)
    hmap, _tests = projection_handlers(m, ctx, cls, vs)
    run.floor("C18.R1", len(hmap), 3, "literal projection handlers reached from visit_Subscript")
    handlers = []
    for k in sorted(hmap):
        if hmap[k][0] not in handlers:
            handlers.append(hmap[k][0])
    for h in handlers:
        _check_handler(run, ctx, m, cls, h)

    # the fall-through of visit_Subscript: well-formed Subscript of visited parts
    fa = ctx.analysis(vs)
    nodep = ("param", vs.pos_params[1])
    V, S = ("visit", ("attr", nodep, "value")), ("visit", ("attr", nodep, "slice"))

    # ---------------- R5 (E4a on the projection entries)
    for name in ("visit_Subscript", "visit_Attribute"):
        fi = cls.methods.get(name)
        if fi is None:
            raise AnalysisError(f"anchor vanished: {name}")
        lk = unvisited_in_entry(ctx, fi)
        seen = set()
        for s, leaked, whole in lk:
            if (id(s), leaked) in seen:
                continue
            seen.add((id(s), leaked))
            run.fail("C18.R5", fi, s, f"the raw sub-tree {show(leaked)} is put into the result without being visited: names in it that are parameters of a lambda being inlined stay un-substituted (unbound names in the output)", "use the visited value / selector", show(whole)[:300])
        if not lk:
            run.ok("C18.R5", fi, "every sub-tree embedded in the result is visited")

    # ---------------- R9: what is taken apart as a call is the value that was tested to be one
    run.rule("C18.R9", "`x.args[..]` in visit_Subscript / visit_Attribute is read from the same value that the governing is_call_of / isinstance(.., ast.Call) test examined")
    n_reads = 0
    for name in ("visit_Subscript", "visit_Attribute"):
        fi = unrolled(m, cls.methods[name])
        fa9 = ctx.analysis(fi)
        for n in own_nodes(fi):
            if not (isinstance(n, ast.Attribute) and n.attr == "args" and isinstance(n.ctx, ast.Load) and fa9.cfg.has_node(n)):
                continue
            try:
                subj = strip_sites(fa9.term_of(n.value))
            except AnalysisError:
                continue
            if subj[0] == "param":
                continue
            tested = []
            for a, pol in Facts(fa9, n).atoms:
                if not pol or not isinstance(a, ast.Call) or not isinstance(a.func, ast.Name):
                    continue
                if a.func.id == "is_call_of" and len(a.args) == 2:
                    tested.append(strip_sites(fa9.term_of(a.args[0], fa9.cfg.node_of(n))))
                elif a.func.id == "isinstance" and len(a.args) == 2 and ast.unparse(a.args[1]) == "ast.Call":
                    tested.append(strip_sites(fa9.term_of(a.args[0], fa9.cfg.node_of(n))))
            if not tested:
                continue  # not a guarded take-apart: other rules (R3, typing) cover what is read
            n_reads += 1
            run.check(subj in tested, "C18.R9", fi, stmt_of(n), "the call taken apart is the call that was tested", f"{name} reads .args of {show(subj)[:60]} under a test made on {', '.join(show(t_)[:60] for t_ in tested)}: when the tested value only became a call after substitution (a parameter bound to First(..)), the other one is a Name or another call - AttributeError, or the wrong sequence is projected", "read the arguments of the value that was tested", show(subj))
    run.floor("C18.R9", n_reads, 2, "guarded reads of a call's arguments in visit_Subscript / visit_Attribute")

    # ---------------- R3: constructor typing, whole module
    n_ctor = 0
    for fi in [f for f in m.funcs.values() if f.module.name == mod]:
        fa2 = ctx.analysis(fi)
        for c in calls_in(fi):
            if not fa2.cfg.has_node(c):
                continue
            f = c.func
            if not (isinstance(f, ast.Attribute) and isinstance(f.value, ast.Name) and f.value.id == "ast" and f.attr in (set(EXPR_FIELDS) | set(STR_FIELDS) | set(EXPR_LIST_FIELDS))):
                continue
            n_ctor += 1
            fields = list(getattr(ast, f.attr)._fields)
            bound = {fields[i]: a for i, a in enumerate(c.args) if i < len(fields)}
            bound.update({k.arg: k.value for k in c.keywords if k.arg})
            for fld, arg in bound.items():
                ty = _static_kind(fa2, fi, arg)
                if fld in EXPR_FIELDS.get(f.attr, ()):
                    run.check(ty != "scalar", "C18.R3", fi, stmt_of(c), f"ast.{f.attr}.{fld} receives an AST node", f"ast.{f.attr}(..{fld}=<{ast.unparse(arg)}>..): a python scalar is stored where an expression node is required; the result cannot be unparsed or compiled", f"wrap it: ast.Constant(value={ast.unparse(arg)})")
                elif fld in STR_FIELDS.get(f.attr, ()):
                    run.check(ty != "ast", "C18.R3", fi, stmt_of(c), f"ast.{f.attr}.{fld} receives a string", f"ast.{f.attr}(..{fld}=<{ast.unparse(arg)}>..): an AST node is stored where a string is required")
                elif fld in EXPR_LIST_FIELDS.get(f.attr, ()) and isinstance(arg, (ast.List, ast.Tuple)):
                    for e in arg.elts:
                        run.check(_static_kind(fa2, fi, e) != "scalar", "C18.R3", fi, stmt_of(c), f"ast.{f.attr}.{fld}[..] receives AST nodes", f"ast.{f.attr}(..{fld}=[..{ast.unparse(e)}..]): a python scalar in a list of expression nodes")
    run.floor("C18.R3", n_ctor, 8, "ast constructor calls in the simplifier")

    # ---------------- R6: the argument stack is restored on every exit, including the permitted FuncADLIndexError
    run.rule("C18.R6", "stack frames are pushed/popped by a context manager that pops on exceptional exits too (shared with C02.R3b)")
    from ..report import Relabel
    from .c02 import _check_call_stack

    _check_call_stack(Relabel(run, "C18.R6"), ctx, m)

    # ---------------- R8: which literal a selector meets is decided by binder resolution
    run.rule("C18.R8", "beta-reduction of called lambdas resolves every name against its own binder (C02.R3a/b/c/f re-evaluated): a selector meant for an outer object must not land on a literal bound to a parameter of the same name")
    from .c02 import _check_beta

    vcall = cls.methods.get("visit_Call")
    if vcall is None:
        raise AnalysisError("anchor vanished: simplify_chained_calls.visit_Call")
    _check_beta(Relabel(run, "C18.R8"), ctx, m, cls, vcall)

    # ---------------- R7: the simplifier edits the nodes it is given only through generic_visit
    run.rule("C18.R7", "no method of simplify_chained_calls edits a field of a node it was handed other than through generic_visit (no append / += / item store on an alias of node.<field>)")
    from ..effects import effects_for, loc_show

    eff = effects_for(m)
    n_m = 0
    for name, fi in sorted(m.all_methods(cls).items()):
        if fi.cls is None or not fi.cls.module.name.startswith("func_adl") or not fi.pos_params:
            continue
        n_m += 1
        bad = [mu for mu in eff.summary.get(fi.qual, []) if mu.loc[0][0] == "param" and mu.loc[0][1] != fi.pos_params[0] and not mu.kind.startswith("in-place NodeTransformer.generic_visit") and not mu.via]  # direct edits: reported where they are made
        for mu in bad:
            run.fail("C18.R7", fi, mu.stmt, f"{fi.name} edits {loc_show(mu.loc)} of a node it was given ({mu.kind}{' via ' + mu.via if mu.via else ''}): the query the caller still holds - and the node that ends up in the output - is changed behind the traversal's back (e.g. a lambda's parameter list grows, giving 'lambda e, *a, *a')", "build a new list / node instead of editing the one that was passed in")
        if not bad:
            run.ok("C18.R7", fi, "no direct edit of a node that was passed in")
    run.floor("C18.R7", n_m, 10, "methods of simplify_chained_calls")

    # ---------------- R4: exception inventory
    n_raise = 0
    for fi in [f for f in m.funcs.values() if f.module.name == mod]:
        for n in own_nodes(fi):
            if isinstance(n, ast.Raise) and n.exc is not None:
                n_raise += 1
                nm = n.exc.func if isinstance(n.exc, ast.Call) else n.exc
                d = ast.unparse(nm)
                run.check(d == "FuncADLIndexError", "C18.R4", fi, n, "raises FuncADLIndexError", f"the simplifier raises {d}: only the dedicated index error is a permitted failure")
    run.floor("C18.R4", n_raise, 1, "raise statements in the simplifier")
    # the dedicated error's text cannot fail first: source positions are attributes that nodes built by the library (and
    # by users, programmatically) do not have
    for fi in [f for f in m.funcs.values() if f.module.name == mod]:
        for n in own_nodes(fi):
            if isinstance(n, ast.Raise) and n.exc is not None:
                for x in ast.walk(n.exc):
                    if isinstance(x, ast.Attribute) and x.attr in ("lineno", "col_offset", "end_lineno", "end_col_offset"):
                        run.fail("C18.R4", fi, n, f"the message of the index error reads {ast.unparse(x)}: a node that was not produced by the parser - one the simplifier built while fusing, one built programmatically - has no source position, and the permitted FuncADLIndexError turns into AttributeError", "getattr(node, 'lineno', None) or no position at all", key=f"source position read in the message of {fi.name}")
    # no handler may swallow or convert the dedicated error into something else (shared rule, C10.R12)
    from .c10 import check_refusals_propagate

    check_refusals_propagate(run, m, "C18.R10", modules=(mod, "func_adl.ast.call_stack"))
    # a visit method that hands back None deletes the node (ast.NodeTransformer): no handler of the simplifier may do so
    run.rule("C18.R11", "no visit_* / call_* handler of the simplifier can return None (NodeTransformer drops the node): helpers that answer None for 'not mine' are used under a None test")
    from ..visitors import dispatch_entries

    n_h = 0
    for ent in dispatch_entries(m, cls):
        en = getattr(ent, "entry_name", ent.name)
        fe = TermCtx(m, max_depth=3).analysis(ent)
        n_h += 1
        for s_, nd_ in fe.returns():
            t_ = strip_sites(fe.term_of(s_.value, nd_)) if s_.value is not None else ("const", None)
            if _may_be_none(t_):
                # a None that is excluded by the facts where the return stands is fine
                fx_ = Facts(fe, s_)
                excluded = isinstance(s_.value, ast.Name) and any(isinstance(a, ast.Compare) and len(a.ops) == 1 and isinstance(a.ops[0], ast.Is) and isinstance(a.left, ast.Name) and a.left.id == s_.value.id and isinstance(a.comparators[0], ast.Constant) and a.comparators[0].value is None and not pol for a, pol in fx_.atoms)
                run.check(excluded, "C18.R11", ent, s_, f"{en} hands back a node", f"{en} can return None ({show(t_)[:80]}): ast.NodeTransformer then removes the node from its parent - an attribute of a dictionary literal that has no such key ({{'a': 1}}.b), reached directly or after substitution, disappears from the query (a tuple loses an element, a call an argument, the result does not unparse)", "return the sub-expression as it was handed in", show(t_)[:200], key=f"{en} can return None")
    run.floor("C18.R11", n_h, 6, "dispatch entries of the simplifier")


def _static_kind(fa, fi: FuncInfo, e: ast.AST) -> str:
    """'ast' | 'scalar' | 'unknown' for an argument expression, from constructors, constants and annotations."""
    t = strip_sites(fa.term_of(e)) if fa.cfg.has_node(e) else ("top", "?")
    kinds = set()
    for a in unphi_terms(t):
        if a[0] in ("new", "visit", "gvisit"):
            kinds.add("ast")
        elif a[0] == "const" and a[1] is not None:
            kinds.add("scalar")
        elif a[0] == "fstr":
            kinds.add("scalar")
        elif a[0] == "param":
            ann = _annotation(fi, a[1])
            if ann is None:
                kinds.add("unknown")
            elif "ast." in ann and not any(x in ann for x in ("str", "int")):
                kinds.add("ast")
            elif ann in ("str", "int", "float", "bool") or (ann.startswith("Union[") and "ast." not in ann) or (ann.startswith("Optional[") and "ast." not in ann):
                kinds.add("scalar")
            else:
                kinds.add("unknown")
        elif a[0] == "attr" and a[2] in ("attr", "id", "arg", "name"):
            kinds.add("scalar")
        elif a[0] == "app" and a[1][0] == "global" and (a[1][1].endswith(".arg_name") or a[1][1] in ("builtins.str", "builtins.int", "builtins.len", "builtins.repr")):
            kinds.add("scalar")
        else:
            kinds.add("unknown")
    if kinds == {"scalar"}:
        return "scalar"
    if kinds == {"ast"}:
        return "ast"
    if "scalar" in kinds and "ast" not in kinds and "unknown" not in kinds:
        return "scalar"
    return "unknown"


def _annotation(fi: FuncInfo, name: str):
    for a in fi.node.args.posonlyargs + fi.node.args.args + fi.node.args.kwonlyargs:
        if a.arg == name and a.annotation is not None:
            return ast.unparse(a.annotation)
    return None


def _check_handler(run: Run, ctx, m, cls, h: FuncInfo) -> None:
    """h(self, v, s): projection out of a literal v by selector s."""
    from ..lib import view as _view_h

    h = _view_h(m, h)  # a handler may hand its two arguments on to a shared private helper: read that in place
    fa = ctx.analysis(h)
    vp, sp = ("param", h.pos_params[-2]), ("param", h.pos_params[-1])  # (self,) value, selector
    sval = ("attr", sp, "value")
    # every read of s.value must be under isinstance(s, ast.Constant)
    n_uses = 0
    for n in own_nodes(h):
        if isinstance(n, ast.Attribute) and n.attr == "value" and isinstance(n.ctx, ast.Load) and fa.cfg.has_node(n):
            if strip_sites(fa.term_of(n.value)) != sp:
                continue
            # the guard expression itself mentions s.value: allowed if a previous conjunct established Constant
            n_uses += 1
            fx = Facts(fa, n)
            run.check(fx.isinstance_of(sp, {"ast.Constant"}), "C18.R1", h, stmt_of(n), "s.value read only when s is an ast.Constant", f"{h.name} reads the selector's .value without knowing that the selector is an ast.Constant: a variable, negative (UnaryOp) or slice selector crashes with AttributeError or is mis-read", "guard with isinstance(s, ast.Constant) and leave other selectors as an ordinary Subscript")
    run.floor("C18.R1", n_uses, 1, f"reads of the selector value in {h.name}")
    # asserts on the selector
    for n in own_nodes(h):
        if isinstance(n, ast.Assert):
            names = set()
            for x in ast.walk(n.test):
                if isinstance(x, ast.Name) and fa.cfg.has_node(x):
                    t = strip_sites(fa.term_of(x))
                    if root_of(t) == sp or t == sp:
                        names.add(x.id)
            run.check(not names, "C18.R4", h, n, "no assert on the selector", f"{h.name} asserts on the selector ({', '.join(sorted(names))}): an unexpected selector kind crashes with AssertionError instead of being left intact")
    # indexing v.elts[n] with n = s.value: int type, >= 0, bound
    for n in own_nodes(h):
        if isinstance(n, ast.Subscript) and isinstance(n.ctx, ast.Load) and fa.cfg.has_node(n):
            base = strip_sites(fa.term_of(n.value))
            if base != ("attr", vp, "elts"):
                continue
            idx = strip_sites(fa.term_of(n.slice))
            if idx != sval:
                run.fail("C18.R2", h, stmt_of(n), f"{h.name} indexes the literal's elements with {show(idx)[:60]}, not with the selector's constant value")
                continue
            fx = Facts(fa, n)
            is_int = any(_is_type_int(fa, a, pol, sval) for a, pol in fx.atoms)
            nonneg = fx.compare_const(sval, [ast.GtE], 0) or fx.compare_const(sval, [ast.Gt], -1)
            bound = any(_bound_fact(fa, a, pol, sval, ("attr", vp, "elts")) for a, pol in fx.atoms)
            run.check(is_int, "C18.R1", h, stmt_of(n), "index is known to be an int (not bool/str/float)", f"{h.name} indexes with the selector value without an integer type test: a string/float constant selector crashes with TypeError")
            run.check(nonneg, "C18.R2", h, stmt_of(n), "index is known to be >= 0", f"{h.name} projects with a possibly negative constant without a sign test")
            run.check(bound, "C18.R2", h, stmt_of(n), "index is known to be < len(elts)", f"{h.name} indexes elts[n] without the bound test n >= len(elts)")
            no_star = any((not pol) and "Starred" in ast.unparse(a) and strip_sites(fa.term_of(a)) is not None and _mentions(fa, a, ("attr", vp, "elts")) for a, pol in fx.atoms)
            run.check(no_star, "C18.R2", h, stmt_of(n), "literal has no starred element (positions are then static)", f"{h.name} projects element n of a literal that may contain starred elements: (a, *b)[1] becomes a bare '*b' (not an expression) and (*b, a)[1] becomes 'a' although b's length decides which element that is", "leave the subscript intact when any(isinstance(e, ast.Starred) for e in v.elts)", key="projection out of a literal with possibly starred elements")
    # raise only under the bound condition
    for n in own_nodes(h):
        if isinstance(n, ast.Raise):
            fx = Facts(fa, n)
            ok = any(_bound_fact(fa, a, not pol, sval, ("attr", vp, "elts")) for a, pol in fx.atoms)
            run.check(ok, "C18.R2", h, n, "FuncADLIndexError raised exactly under n >= len(elts)", f"{h.name} raises under a condition other than n >= len(elts)")
            # .. and only for a literal whose positions are static: with a *seq element the written element count is not the
            # length, so "past the end" cannot be told (the sub-expression is left intact instead)
            star_known = any((not pol) and "Starred" in ast.unparse(a) and _mentions(fa, a, ("attr", vp, "elts")) for a, pol in fx.atoms)
            run.check(star_known, "C18.R2", h, n, "the index error is raised only for a literal without starred elements", f"{h.name} raises FuncADLIndexError before it knows that the literal has no *seq element: (a, *rest)[2] and [*xs][1] - whose length is not the number of written elements - are refused as 'past the end' instead of being left intact", "test for ast.Starred elements first", key=f"index error before the starred test in {h.name}")
    # returns: either a (copy of a) selected element, or Subscript(v, s, Load()) with both parts AST
    for s, node in fa.returns():
        t = strip_sites(fa.term_of(s.value, node))
        for a in unphi_terms(t):
            if a[0] == "new" and a[1] == "Subscript":
                d = dict(a[2])
                sl = d.get("slice")
                same_const = sl is not None and sl[0] == "new" and sl[1] == "Constant" and dict(sl[2]).get("value") == sval
                ok = d.get("value") == vp and (sl == sp or same_const)
                run.check(ok, "C18.R1", h, s, "left-intact branch returns Subscript(v, s, Load())", f"{h.name} leaves the projection as {show(a)[:120]}, which is not the original value[selector]", term=show(a))


def _is_type_int(fa, a, pol, sval) -> bool:
    a, pol = norm_atom(a, pol)
    g = match_isinstance(a)
    if g is None or not pol:
        return False
    subj, classes, exact = g
    if strip_sites(fa.term_of(subj)) != sval:
        return False
    names = {ast.unparse(c) for c in classes}
    return names == {"int"} and exact  # isinstance(x, int) also admits bool: True as an index is not a plain index


def _bound_fact(fa, a, pol, sval, elts) -> bool:
    """n >= len(elts) is False (i.e. n < len(elts) holds) when pol is False; mirrored forms accepted."""
    if not (isinstance(a, ast.Compare) and len(a.ops) == 1):
        return False
    l, r, op = a.left, a.comparators[0], type(a.ops[0])

    def is_len(e):
        try:
            return strip_sites(fa.term_of(e)) == ("app", ("global", "builtins.len"), (elts,), ())
        except AnalysisError:
            return False

    def is_n(e):
        return strip_sites(fa.term_of(e)) == sval

    if is_n(l) and is_len(r):
        return (op is ast.GtE and not pol) or (op is ast.Lt and pol)
    if is_len(l) and is_n(r):
        return (op is ast.LtE and not pol) or (op is ast.Gt and pol)
    return False


def _mentions(fa, a: ast.AST, term) -> bool:
    for x in ast.walk(a):
        if isinstance(x, (ast.Attribute, ast.Name)) and fa.cfg.has_node(x):
            try:
                if strip_sites(fa.term_of(x)) == term:
                    return True
            except AnalysisError:
                pass
    return False


def check_last_key_wins(run: Run, ctx, m, cls, rule: str) -> None:
    """Projection out of a dictionary literal: of several entries whose constant keys compare equal ({'a': p, 'a': m},
    {1: x, True: y}) python keeps the last. A search over the keys that returns at its *first* match, running
    forwards, selects another value than the original expression has. Decided on the construct only: a return of
    (a copy of) v.values[<index taken from a loop over the keys>] inside the loop, whose iterable is not reversed.
    Other ways of selecting (a table built from all entries, a search that keeps going) are not judged."""
    from ..lib import unit
    from ..model import ancestors as _anc
    from ..terms import subterms

    n_sel = 0
    seen = set()
    for name, h0 in sorted(cls.methods.items()):
        if not (name.startswith("visit_Subscript") or name.startswith("visit_Attribute")):
            continue
        for h in unit(m, h0):
            if h.qual in seen:
                continue
            seen.add(h.qual)
            fa = ctx.analysis(h)
            for s_, n_ in fa.returns():
                if s_.value is None:
                    continue
                in_loop = any(isinstance(a, (ast.For, ast.While)) for a in _anc(s_))
                t = strip_sites(fa.term_of(s_.value, n_))
                for alt in unphi_terms(t):
                    subs = [x for x in subterms(alt) if isinstance(x, tuple) and x and x[0] == "subscript" and isinstance(x[1], tuple) and x[1][0] == "attr" and x[1][2] == "values"]
                    for sub in subs:
                        idx = sub[2]
                        # first match of a generator: next((i for i, k in <keys> if k.value == s), None)
                        firsts = [x for x in subterms(idx) if isinstance(x, tuple) and x and x[0] == "app" and x[1] == ("global", "builtins.next") and x[2] and x[2][0][0] == "comp"]
                        if firsts:
                            its = [g[0] for g in firsts[0][2][0][3]][:1]
                        elif in_loop:
                            its = [x[1] for x in subterms(idx) if isinstance(x, tuple) and x and x[0] == "elem"]
                        else:
                            its = []
                        if not its or not contains(its[0], lambda q: q[0] == "attr" and q[2] == "keys"):
                            continue
                        n_sel += 1
                        backwards = contains(its[0], lambda q: q[0] == "app" and q[1] == ("global", "builtins.reversed")) or contains(its[0], lambda q: q[0] == "app" and q[1] == ("global", "builtins.range") and len(q[2]) == 3 and q[2][2] == ("const", -1))
                        run.check(backwards, rule, h, s_, "the search over the keys of a dictionary literal finds the last entry with an equal key", f"{h.name} returns the value of the first entry whose key equals the selector ({show(its[0])[:80]} is searched forwards): for {{'a': p, 'a': m}}['a'] - or {{1: x, True: y}}[1] - python yields the last entry's value, the simplified query the first", "for index, key in reversed(list(enumerate(v.keys))): ..", show(alt)[:200], key="first of several equal dictionary keys selected")
    run.notes["dict_first_match_selections"] = n_sel


def _may_be_none(t) -> bool:
    """the term has an alternative that is the constant None (a conditional `x if x is not None else y` excludes it for x)"""
    if t == ("const", None):
        return True
    if t[0] == "phi":
        return any(_may_be_none(a) for a in t[1])
    if t[0] == "ifexp":
        c = t[1]
        if c[0] == "op" and c[1] in ("Compare:IsNot", "Compare:Is") and len(c[2]) == 2 and c[2][1] == ("const", None):
            guarded, other = (t[2], t[3]) if c[1] == "Compare:IsNot" else (t[3], t[2])
            if guarded == c[2][0]:
                return _may_be_none(other)
        return _may_be_none(t[2]) or _may_be_none(t[3])
    return False
