"""C12 - value() runs exactly the stream's query on its own dataset, once."""
from __future__ import annotations

import ast

from ..effects import effects_for, loc_show
from ..lib import Facts, calls_in, own_nodes, stmt_of
from ..model import AnalysisError
from ..report import Run
from ..terms import TermCtx, show, strip_sites, unphi_terms

EXPLANATION = (
    "only value_async obtains an executor, and only _get_executor reads the executor attribute; EventDataset.__init__ stores the bound "
    "method on the root node without calling it, so nothing runs while a query is built (R1); on every path of value_async the value "
    "returned by _get_executor(executor) is called exactly once, outside loops and exception handlers, and the awaited result is returned "
    "unchanged (R2) with arguments (remove_empty_metadata(self._q_ast), title) (R3); _get_executor returns the override when given, "
    "otherwise the attribute of the first node on the args[0] chain of self._q_ast that carries it (R4); value_async writes nothing but "
    "locals, so concurrent executions cannot interfere whatever their completion order (R5); find_EventDataset visits every child of "
    "every other call, raises on a second root and when none was found (R6)."
    " (R7) no deepcopy of a stream's AST (it would clone the dataset and its executor); (R8) the three entry points are defined on ObjectStream only; (R9) the cleaner that prepares the executor's argument removes exactly the empty wrappers at every depth - the rule set of C15 is re-evaluated here."
)
NOT_DECIDED = "behaviour of make_it_sync.make_sync (third party) and of the executors themselves."

EXEC_ATTR = "_func_adl_executor"


def check(run: Run) -> None:
    m = run.model
    run.rule("C12.R1", "who may call: _get_executor is called only by value_async; the executor attribute is read only by _get_executor; execute_result_async is never called inside the package")
    run.rule("C12.R2", "exactly one call of the _get_executor result on every path of value_async, no loop, no handler; awaited result returned unchanged")
    run.rule("C12.R3", "executor arguments are (remove_empty_metadata(self._q_ast), title)")
    run.rule("C12.R4", "_get_executor: override if not None, else attribute found by walking args[0] from self._q_ast; EventDataset.__init__ attaches self.execute_result_async and self to the root node")
    run.rule("C12.R5", "value_async and _get_executor mutate nothing (no attribute store on self, no global state)")
    run.rule("C12.R6", "find_EventDataset: every non-root call is fully traversed; second root raises; no root raises")
    ctx = TermCtx(m, max_depth=3)
    os_cls = m.find_class("ObjectStream", in_module="func_adl.object_stream")
    va = os_cls.methods.get("value_async")
    ge = os_cls.methods.get("_get_executor")
    if va is None or ge is None:
        raise AnalysisError("anchor vanished: ObjectStream.value_async / _get_executor")
    mod = m.module("func_adl.object_stream")
    attr_const = m.find_assign("executor_attr_name", mod.name)
    if not (isinstance(attr_const, ast.Constant) and isinstance(attr_const.value, str)):
        raise AnalysisError("executor_attr_name is not a string literal")
    exec_attr = attr_const.value

    # ---------------- R1
    n_sites = 0
    from ..lib import call_sites_of as _cso, unit as _unit

    # _get_executor together with the private helpers that only it calls
    ge_own = [g_ for g_ in _unit(m, ge) if g_ is ge or all(any(c_ is x for x in _unit(m, ge)) for c_, _call, _sk in _cso(m, g_))]
    for fi in m.funcs.values():
        for c in calls_in(fi):
            f = c.func
            if isinstance(f, ast.Attribute) and f.attr == "_get_executor":
                n_sites += 1
                run.check(fi is va, "C12.R1", fi, stmt_of(c), "_get_executor called from value_async only", f"{fi.qual.split(':')[-1]} obtains an executor: something other than value()/value_async() can run a query")
            if isinstance(f, ast.Attribute) and f.attr == "execute_result_async":
                n_sites += 1
                run.fail("C12.R1", fi, stmt_of(c), "execute_result_async is called directly inside the package: an executor may run while a query is being built")
        for n in own_nodes(fi):
            reads = False
            if isinstance(n, ast.Attribute) and n.attr == exec_attr and isinstance(n.ctx, ast.Load):
                reads = True
            if isinstance(n, ast.Call) and isinstance(n.func, ast.Name) and n.func.id == "getattr" and len(n.args) >= 2:
                a1 = n.args[1]
                if (isinstance(a1, ast.Name) and a1.id == "executor_attr_name") or (isinstance(a1, ast.Constant) and a1.value == exec_attr):
                    reads = True
                elif isinstance(a1, ast.Name) and a1.id in fi.pos_params:
                    # the attribute's name arrives as an argument: a read of the executor where a caller passes that name
                    k_ = fi.pos_params.index(a1.id)
                    for _c, call_, sk_ in _cso(m, fi):
                        j_ = k_ - sk_
                        if 0 <= j_ < len(call_.args):
                            x_ = call_.args[j_]
                            if (isinstance(x_, ast.Name) and x_.id == "executor_attr_name") or (isinstance(x_, ast.Constant) and x_.value == exec_attr):
                                reads = True
            if reads:
                n_sites += 1
                run.check(any(fi is g_ for g_ in ge_own), "C12.R1", fi, stmt_of(n), "executor attribute read only in _get_executor", f"{fi.qual.split(':')[-1]} reads the executor reference")
    run.floor("C12.R1", n_sites, 2, "executor access sites")

    # ---------------- R2 / R3
    fa = ctx.analysis(va)
    selfp = ("param", va.pos_params[0])
    getex_calls = [c for c in calls_in(va) if isinstance(c.func, ast.Attribute) and c.func.attr == "_get_executor"]
    run.check(len(getex_calls) == 1, "C12.R2", va, va.node, "one _get_executor call in value_async", f"{len(getex_calls)} _get_executor calls")
    if len(getex_calls) == 1:
        ex_term = strip_sites(fa.term_of(getex_calls[0]))
        g = getex_calls[0]
        run.check(len(g.args) + len(g.keywords) == 1 and strip_sites(fa.term_of((g.args + [k.value for k in g.keywords])[0])) == ("param", "executor"), "C12.R4", va, stmt_of(g), "_get_executor receives the executor override parameter", "the override passed to value_async is not handed to _get_executor")
        exec_calls = [c for c in calls_in(va) if c is not g and strip_sites(fa.term_of(c.func)) == ex_term]
        nodes = {fa.cfg.node_of(c) for c in exec_calls}
        counts = set()
        for p in fa.cfg.paths():
            counts.add(sum(1 for n in p if n in nodes))
        run.notes["value_async_paths"] = len(fa.cfg.paths())
        run.check(counts == {1} and len(exec_calls) == 1, "C12.R2", va, va.node, "executor called exactly once on every path", f"executor call count per path is {sorted(counts)} over {len(exec_calls)} call site(s): expected exactly one on every path")
        for c in exec_calls:
            n = fa.cfg.node_of(c)
            in_loop = any(isinstance(a, (ast.For, ast.While, ast.AsyncFor)) for a in _stmt_ancestors(c))
            in_try = any(isinstance(a, ast.Try) and a.handlers for a in _stmt_ancestors(c))
            in_comp = any(isinstance(a, (ast.ListComp, ast.GeneratorExp, ast.SetComp, ast.DictComp, ast.Lambda)) for a in _expr_ancestors(c))
            run.check(not in_loop and not in_comp, "C12.R2", va, stmt_of(c), "executor call is not inside a loop/comprehension", "executor call sits in a loop: it may run more than once")
            run.check(not in_try, "C12.R2", va, stmt_of(c), "executor call is not inside a try with handlers", "executor call sits in a try/except: its exception may be swallowed or the call retried")
            # R3
            args = [strip_sites(fa.term_of(a)) for a in c.args]
            run.check(len(args) == 2 and not c.keywords, "C12.R3", va, stmt_of(c), "executor receives two positional arguments", f"executor receives {len(c.args)} positional and {len(c.keywords)} keyword arguments")
            if len(args) == 2:
                a0 = args[0]
                from ..lib import used_visitor

                rem_fn = m.find_func("remove_empty_metadata", in_module="func_adl.ast.meta_data")
                cleaner_cls = used_visitor(m, ctx, rem_fn, True)
                rem_rt = strip_sites(ctx.analysis(rem_fn).return_term())
                whole = rem_rt == ("tvisit", cleaner_cls.qual, ("param", rem_fn.pos_params[0]))
                ok0 = whole and a0[0] == "tvisit" and a0[1] == cleaner_cls.qual and a0[2] == ("attr", selfp, "_q_ast")
                run.check(ok0, "C12.R3", va, stmt_of(c), "first argument is remove_empty_metadata(self._q_ast)", f"executor receives {show(a0)[:140]} instead of remove_empty_metadata(self._q_ast): a different / stale query is executed", term=show(a0))
                run.check(args[1] == ("param", "title"), "C12.R3", va, stmt_of(c), "second argument is the title parameter", f"title argument is {show(args[1])[:80]}")
        # returns
        for s, n in fa.returns():
            t = strip_sites(fa.term_of(s.value, n)) if s.value is not None else ("const", None)
            ok = t[0] == "op" and t[1] == "Await" and t[2][0][0] == "app" and strip_sites(t[2][0][1]) == ex_term
            run.check(ok, "C12.R2", va, s, "returns the awaited executor result unchanged", f"value_async returns {show(t)[:140]}, not the awaited executor result", term=show(t))
        run.check(not any(p.kind != "return" for p, _ in fa.cfg.exit.pred), "C12.R2", va, va.node, "no path falls off the end", "a path of value_async returns None without the executor's result")

    # value = make_sync(value_async)
    val = os_cls.class_assigns.get("value")
    ok = isinstance(val, ast.Call) and isinstance(val.func, ast.Name) and val.func.id == "make_sync" and len(val.args) == 1 and isinstance(val.args[0], ast.Name) and val.args[0].id == "value_async"
    run.check(ok, "C12.R2", va, os_cls.node if not ok else val, "value is make_sync(value_async)", "ObjectStream.value is no longer make_sync(value_async)")

    # ---------------- R4
    fg = ctx.analysis(ge)
    rt = strip_sites(fg.return_term())
    alts = unphi_terms(rt)
    sp = ("param", ge.pos_params[0])
    override = [a for a in alts if a == ("param", "executor")]
    walked = [a for a in alts if a != ("param", "executor")]
    run.check(len(override) == 1, "C12.R4", ge, ge.node, "returns the override when given", "the override executor is not returned")
    for s, n in fg.returns():
        t = strip_sites(fg.term_of(s.value, n))
        if t == ("param", "executor"):
            fx = Facts(fg, s)
            run.check(fx.compare_const(("param", "executor"), [ast.IsNot], None), "C12.R4", ge, s, "override returned only when it is not None", "override returned without the 'is not None' test")
    ok_walk = bool(walked)
    for a in walked:
        # attr(<walk>, exec_attr) where walk = phi(self._q_ast, X.args[0], REC.args[0])
        if not (a[0] == "attr" and a[2] == exec_attr):
            ok_walk = False
            continue
        for w in unphi_terms(a[1]):
            x = w
            while x[0] == "index" and x[2] == 0 and x[1][0] == "attr" and x[1][2] == "args":
                x = x[1][1]
            if x not in (("attr", sp, "_q_ast"), ("rec",)):
                ok_walk = False
    if not ok_walk:
        from ..terms import contains as _cont

        if any(_cont(a, lambda q: q[0] == "comp" or (q[0] == "app" and q[1] == ("global", "builtins.next"))) for a in walked):
            raise AnalysisError("_get_executor finds the node that carries the executor with a search over a generator (next(.. for .. in <walk>)): which node of the chain it stops at cannot be read from this shape")
    run.check(ok_walk, "C12.R4", ge, ge.node, "default executor is the attribute of a node on the args[0] chain of self._q_ast", f"_get_executor returns {show(rt)[:160]}: the executor is not the one attached to this stream's root", term=show(rt))
    # the walk stops at the first node carrying the attribute
    from ..lib import unit

    def _is_exec_name(a1, g=None) -> bool:
        if (isinstance(a1, ast.Name) and a1.id == "executor_attr_name") or (isinstance(a1, ast.Constant) and a1.value == exec_attr):
            return True
        if g is not None and isinstance(a1, ast.Name) and a1.id in g.pos_params:
            # the name arrives as an argument of a helper
            k_ = g.pos_params.index(a1.id)
            sites_ = _cso(m, g)
            return bool(sites_) and all(0 <= k_ - sk_ < len(call_.args) and _is_exec_name(call_.args[k_ - sk_]) for _c, call_, sk_ in sites_)
        return False

    def _known_holder(g, site, x_expr) -> bool:
        """at `site` of g the fact hasattr(<x_expr>, executor attribute) holds"""
        ga = ctx.analysis(g)
        if not ga.cfg.has_node(x_expr):
            return False
        xt = strip_sites(ga.term_of(x_expr))
        for a, pol in Facts(ga, site).atoms:
            if pol and isinstance(a, ast.Call) and isinstance(a.func, ast.Name) and a.func.id == "hasattr" and len(a.args) == 2 and _is_exec_name(a.args[1], g):
                try:
                    if strip_sites(ga.term_of(a.args[0])) == xt:
                        return True
                except AnalysisError:
                    pass
        return False

    ge_unit = unit(m, ge)
    reads = []
    for g in ge_unit:
        for c in calls_in(g):
            if isinstance(c.func, ast.Name) and c.func.id == "getattr" and len(c.args) >= 2 and _is_exec_name(c.args[1], g):
                reads.append((g, c))
    ok_stop = bool(reads)
    for g, c in reads:
        x = c.args[0]
        good = _known_holder(g, c, x)
        if not good:
            # the holder is the result of a helper of the unit, each of whose returns is a known holder
            ga = ctx.analysis(g)
            src = x
            if isinstance(x, ast.Name):
                defs = [n for n in own_nodes(g) if isinstance(n, ast.Assign) and len(n.targets) == 1 and isinstance(n.targets[0], ast.Name) and n.targets[0].id == x.id]
                src = defs[0].value if len(defs) == 1 else x
            if isinstance(src, ast.Call) and isinstance(src.func, (ast.Name, ast.Attribute)):
                nm = src.func.id if isinstance(src.func, ast.Name) else src.func.attr
                hs = [h for h in ge_unit if h.name == nm and h is not g]
                if len(hs) == 1:
                    h = hs[0]
                    rets = [n for n in own_nodes(h) if isinstance(n, ast.Return) and n.value is not None]
                    good = bool(rets) and all(_known_holder(h, r, r.value) for r in rets)
        ok_stop = ok_stop and good
    loops = [n for g in ge_unit for n in own_nodes(g) if isinstance(n, ast.While)]
    run.check(ok_stop, "C12.R4", ge, loops[0] if loops and loops[0] in set(own_nodes(ge)) else ge.node, "walk stops at the first node that has the executor attribute", "the args[0] walk does not stop at the first node carrying the executor attribute")

    ed = m.find_class("EventDataset", in_module="func_adl.event_dataset")
    init = ed.methods.get("__init__")
    if init is None:
        raise AnalysisError("anchor vanished: EventDataset.__init__")
    from ..lib import view as _view_i

    init = _view_i(m, init)  # the attributes may be attached by a loop over a literal table of (name, value) pairs
    fi_a = ctx.analysis(init)
    sup = [c for c in calls_in(init) if isinstance(c.func, ast.Attribute) and c.func.attr == "__init__"]
    run.check(len(sup) == 1, "C12.R4", init, init.node, "EventDataset.__init__ calls ObjectStream.__init__ once", f"{len(sup)} base __init__ calls")
    if len(sup) == 1 and sup[0].args:
        from ..terms import resolve_global_consts as _rgc

        t = _rgc(m, strip_sites(fi_a.term_of(sup[0].args[0])))  # named module-level constants are their values
        d = dict(t[2]) if t[0] == "new" and t[1] == "Call" else {}
        sp2 = ("param", init.pos_params[0])
        fname = dict(d.get("func", ("new", "", ()))[2]).get("id") if d.get("func", ("x",))[0] == "new" else None
        run.check(fname == ("const", "EventDataset") and d.get("args") == ("list", ()), "C12.R4", init, stmt_of(sup[0]), "root node is EventDataset()", f"root node is {show(t)[:100]}")
        run.check(d.get(exec_attr) == ("attr", sp2, "execute_result_async"), "C12.R4", init, stmt_of(sup[0]), "root node carries self.execute_result_async (bound, not called)", f"root node's executor attribute is {show(d.get(exec_attr, ('const', None)))[:80]}, expected self.execute_result_async")
        run.check(d.get("_eds_object") == sp2, "C12.R4", init, stmt_of(sup[0]), "root node carries the dataset object", "root node does not carry _eds_object = self")

    # ---------------- R8: execution entry points are defined once, on ObjectStream
    run.rule("C12.R8", "_get_executor / value_async / value are defined on ObjectStream only (no subclass override changes which executor runs)")
    for name in ("_get_executor", "value_async", "value"):
        # (classes of the stream hierarchy: a private record with a field called `value` is not an override)
        owners = [c.qual for c in m.classes.values() if (name in c.methods or name in c.class_assigns) and (c is os_cls or m.is_subclass_of(c, {os_cls.name, os_cls.qual.replace(":", ".")}) or any(b_ is os_cls for b_ in m.mro(c)))]
        run.check(owners == [os_cls.qual], "C12.R8", os_cls.methods.get(name) or va, os_cls.node, f"{name} defined on ObjectStream only", f"{name} is (re)defined in {[o.split(':')[-1] for o in owners if o != os_cls.qual]}: derived streams are shallow copies of the object they were derived from, so an override on a dataset class runs the executor of a stale copy / bypasses the routing of ObjectStream._get_executor")

    # ---------------- R7: the root node (with its executor and dataset object) is shared, never cloned
    run.rule("C12.R7", "no copy.deepcopy of a stream's query AST: it would clone the dataset object and bind the executor to the clone")
    n_dc = 0
    for fi in m.funcs.values():
        fa_ = None
        for c in calls_in(fi):
            if ast.unparse(c.func) in ("copy.deepcopy", "deepcopy") and c.args:
                n_dc += 1
                fa_ = fa_ or ctx.analysis(fi)
                if not fa_.cfg.has_node(c):
                    continue
                t = strip_sites(fa_.term_of(c.args[0]))
                from ..terms import contains as _contains

                bad = _contains(t, lambda s: s[0] == "attr" and s[2] in ("_q_ast", "query_ast"))
                run.check(not bad, "C12.R7", fi, stmt_of(c), "deepcopy is not applied to a stream's query AST", f"{fi.name} deep-copies {show(t)[:60]}: the copy's root node carries a *clone* of the dataset object and an executor bound to that clone, so value() no longer runs on the user's dataset (and its state / identity is lost)", "copy.copy of the top node (children shared)")
    run.notes["deepcopy_sites"] = n_dc

    # ---------------- R9: "only empty MetaData wrappers are removed" - and all of them - is C15's half about remove_empty_metadata
    run.rule("C12.R9", "the cleaner handed to the executor removes exactly the empty MetaData wrappers, at every depth (rule set of C15 re-evaluated)")
    from ..report import run_stage

    run_stage(run, "c15", only={"C15.R3", "C15.R4", "C15.R5", "C15.S"})  # the cleaner; extraction (R1, R2) is not on value()'s path

    # ---------------- R5
    eff = effects_for(m)
    for fi in (va, ge):
        bad = [x for x in eff.summary.get(fi.qual, []) if x.loc[0][0] in ("param", "free", "global")]
        for x in bad:
            run.fail("C12.R5", fi, x.stmt, f"{fi.name} changes state ({x.kind} on {loc_show(x.loc)}{' via ' + x.via if x.via else ''}): executions are no longer independent of each other and of derivations", "locals only")
        if not bad:
            run.ok("C12.R5", fi, f"{fi.name} writes nothing but locals")

    # ---------------- R6
    fe = m.find_func("find_EventDataset", in_module="func_adl.event_dataset")
    from ..lib import used_visitor

    finders = [used_visitor(m, ctx, fe)]
    if len(finders) != 1 or "visit_Call" not in finders[0].methods:
        raise AnalysisError("find_EventDataset no longer contains one visitor class with visit_Call")
    fc = finders[0]
    from ..lib import view as _view6

    vc = _view6(m, fc.methods["visit_Call"])  # the refusals may be made by private _require_ helpers
    fe = _view6(m, fe)
    fv = ctx.analysis(vc)
    nodep = ("param", vc.pos_params[1])
    selfv = ("param", vc.pos_params[0])
    found_ret = 0
    root_attrs = set()
    closure_lists = set()
    for s, n in fv.returns():
        t = strip_sites(fv.term_of(s.value, n)) if s.value is not None else ("const", None)
        if t == ("gvisit", nodep):
            run.ok("C12.R6", vc, "non-root call: all children are traversed")
            continue
        fx = Facts(fv, s)
        names = fx.str_equals(("attr", ("attr", nodep, "func"), "id"))
        is_name = fx.isinstance_of(("attr", nodep, "func"), {"ast.Name"})
        if names == {"EventDataset"} and is_name:
            found_ret += 1
            # where the root is recorded: self.<attr> = node, or self.<attr>.append(node); only when nothing was recorded yet
            from ..lib import term_known_empty

            stores = []
            for x in own_nodes(vc):
                if isinstance(x, ast.Assign) and len(x.targets) == 1 and isinstance(x.targets[0], ast.Attribute) and fv.cfg.has_node(x) and strip_sites(fv.term_of(x.targets[0].value)) == selfv and strip_sites(fv.term_of(x.value)) == nodep:
                    stores.append((x, ("attr", selfv, x.targets[0].attr), "scalar"))
                if isinstance(x, ast.Call) and isinstance(x.func, ast.Attribute) and x.func.attr == "append" and len(x.args) == 1 and fv.cfg.has_node(x) and strip_sites(fv.term_of(x.args[0])) == nodep:
                    rt_ = strip_sites(fv.term_of(x.func.value))
                    if rt_[0] == "attr" and rt_[1] == selfv:
                        stores.append((x, rt_, "list"))
                    elif rt_[0] == "free" and isinstance(x.func.value, ast.Name):
                        # a list of the enclosing function that the finder appends to
                        stores.append((x, rt_, "list"))
                        closure_lists.add(x.func.value.id)
            if not stores:
                raise AnalysisError("the finder of find_EventDataset does not record the root in an attribute of its own (self.<attr> = node / self.<attr>.append(node)): how a second root is refused cannot be read")
            root_attrs.update(t_[2] for _x, t_, _k in stores if t_[0] == "attr")
            second = bool(stores) and all((Facts(fv, x).compare_const(t_, [ast.Is], None) if k_ == "scalar" else term_known_empty(fv, Facts(fv, x).atoms, t_) is True) for x, t_, k_ in stores)
            run.check(second, "C12.R6", vc, s, "root recorded only if none was recorded before (else raise)", "a second EventDataset root does not raise")
            continue
        run.fail("C12.R6", vc, s, f"a call that is not the EventDataset root is not fully traversed (returns {show(t)[:80]}): a second root in another argument or inside a lambda is never seen", "return self.generic_visit(node)", show(t))
    if any(p.kind != "return" for p, _ in fv.cfg.exit.pred):
        run.fail("C12.R6", vc, vc.node, "a path of ds_finder.visit_Call ends without traversing the node's children")
    run.check(found_ret >= 1, "C12.R6", vc, vc.node, "root case exists", "no path records the EventDataset root")
    raises = [n for n in own_nodes(vc) if isinstance(n, ast.Raise)]
    run.check(len(raises) >= 1, "C12.R6", vc, vc.node, "raise on a second root exists", "no raise for a second root")
    # driver: raise when none found, return ds
    ff = ctx.analysis(fe)
    for s, n in ff.returns():
        fx = Facts(ff, s)
        rt_ = strip_sites(ff.term_of(s.value, n)) if s.value is not None else ("const", None)
        ok = rt_[0] == "attr" and rt_[2] in root_attrs and fx.compare_const(rt_, [ast.IsNot], None)
        if not ok and closure_lists and isinstance(s.value, ast.Subscript) and isinstance(s.value.value, ast.Name) and s.value.value.id in closure_lists and isinstance(s.value.slice, ast.Constant) and s.value.slice.value == 0:
            from ..lib import known_empty as _ke

            ok = _ke(fx.atoms, s.value.value.id) is False
        if not ok and rt_[0] == "index" and rt_[2] == 0 and rt_[1][0] == "attr" and rt_[1][2] in root_attrs:
            # the list form: the first recorded root, known to exist
            from ..lib import term_known_empty as _tke

            ok = _tke(ff, fx.atoms, rt_[1]) is False
        run.check(ok, "C12.R6", fe, s, "find_EventDataset raises when no root was found", "find_EventDataset may return None when the query has no root")
    visits = [c for c in calls_in(fe) if isinstance(c.func, ast.Attribute) and c.func.attr == "visit" and c.args and strip_sites(ff.term_of(c.args[0])) == ("param", fe.pos_params[0])]
    run.check(len(visits) == 1, "C12.R6", fe, fe.node, "the finder visits the whole query", "the finder is not applied to the query argument")


def _stmt_ancestors(n):
    from ..model import ancestors

    for a in ancestors(n):
        if isinstance(a, (ast.FunctionDef, ast.AsyncFunctionDef)):
            return
        if isinstance(a, ast.stmt):
            yield a


def _expr_ancestors(n):
    from ..model import ancestors

    for a in ancestors(n):
        if isinstance(a, ast.stmt):
            return
        yield a


def _is_not_hasattr(test: ast.AST, attr: str) -> bool:
    if isinstance(test, ast.UnaryOp) and isinstance(test.op, ast.Not) and isinstance(test.operand, ast.Call):
        c = test.operand
        if isinstance(c.func, ast.Name) and c.func.id == "hasattr" and len(c.args) == 2:
            a1 = c.args[1]
            return (isinstance(a1, ast.Name) and a1.id == "executor_attr_name") or (isinstance(a1, ast.Constant) and a1.value == attr)
    return False
