"""C19 - aggregate shortcuts lower to equivalent folds (func_adl/ast/aggregate_shortcuts.py)."""
from __future__ import annotations

import ast

from ..absint import fold_equals
from ..lib import Facts, len_eq, name_call, own_nodes
from ..model import AnalysisError
from ..report import Run
from ..terms import TermCtx, show, strip_sites

EXPLANATION = (
    "every path of aggregate_node_transformer.visit_Call either returns Aggregate(<visited single argument>, 0, <fold>) under the "
    "guards 'callee is a Name', 'exactly one positional argument', 'no keywords' and 'name in {len, Count, Sum, Max, Min}', or "
    "generic_visit(node); the fold literals are interpreted over an integer grid covering all orderings and equal acc+1, acc+v, "
    "max(acc, v), min(acc, v); seed is the constant 0 and the argument order is (sequence, seed, fold). By induction over the "
    "sequence the fold equals len/sum/max-with-0/min-with-0."
    " (R4, as of round 10) further visit_<Kind> handlers - methods or class-level aliases - must hand back their node with everything below it visited."
)
NOT_DECIDED = "the induction over the sequence is stated, not mechanised; behaviour of the backend's Aggregate."

SPEC = {
    "len": lambda acc, v: acc + 1,
    "Count": lambda acc, v: acc + 1,
    "Sum": lambda acc, v: acc + v,
    "Max": lambda acc, v: acc if acc > v else v,
    "Min": lambda acc, v: acc if acc < v else v,
}


def check(run: Run) -> None:
    m = run.model
    cls = m.find_class("aggregate_node_transformer", in_module="func_adl.ast.aggregate_shortcuts")
    if not m.is_transformer(cls):
        raise AnalysisError("aggregate_node_transformer is no longer an ast.NodeTransformer")
    fi = cls.methods.get("visit_Call")
    if fi is None:
        raise AnalysisError("anchor vanished: aggregate_node_transformer.visit_Call")
    from ..normalise import unrolled

    fi = unrolled(m, fi)  # a first-match loop over a literal (name, fold) table is read as the if-chain it abbreviates
    run.rule("C19.R1", "dispatch: Aggregate is produced only for a Call whose callee is an ast.Name with id in {len, Count, Sum, Max, Min}; all five are covered")
    run.rule("C19.R2", "every lowering branch is guarded by len(node.args) == 1 and by the absence of keywords")
    run.rule("C19.R3", "fold literal == acc+1 / acc+v / max / min on the integer grid (all orderings); seed is Constant(0); Aggregate(seq, seed, fold)")
    run.rule("C19.R4", "the sequence argument is visited; every other path returns generic_visit(node)")
    # the parsed fold is handed on as it is: nothing in the module edits it (a parameter renamed without its body ..)
    for g_ in [f_ for f_ in m.funcs.values() if f_.module is fi.module and not isinstance(f_.node, ast.Lambda)]:
        parsed = set()
        for n_ in own_nodes(g_):
            if isinstance(n_, ast.Assign) and len(n_.targets) == 1 and isinstance(n_.targets[0], ast.Name) and any(isinstance(c_, ast.Call) and ast.unparse(c_.func) in ("ast.parse", "lambda_unwrap", "parse_as_ast") for c_ in ast.walk(n_.value)):
                parsed.add(n_.targets[0].id)
        for _ in range(3):
            for n_ in own_nodes(g_):
                if isinstance(n_, (ast.For, ast.comprehension)) and any(isinstance(x_, ast.Name) and x_.id in parsed for x_ in ast.walk(n_.iter)):
                    parsed |= {x_.id for x_ in ast.walk(n_.target) if isinstance(x_, ast.Name)}
                if isinstance(n_, ast.Assign) and len(n_.targets) == 1 and isinstance(n_.targets[0], ast.Name) and isinstance(n_.value, (ast.Attribute, ast.Subscript)) and any(isinstance(x_, ast.Name) and x_.id in parsed for x_ in ast.walk(n_.value)):
                    parsed.add(n_.targets[0].id)
        for n_ in own_nodes(g_):
            tgts = n_.targets if isinstance(n_, ast.Assign) else ([n_.target] if isinstance(n_, (ast.AugAssign, ast.AnnAssign)) else [])
            for t_ in tgts:
                if isinstance(t_, (ast.Attribute, ast.Subscript)):
                    b_ = t_
                    while isinstance(b_, (ast.Attribute, ast.Subscript)):
                        b_ = b_.value
                    if isinstance(b_, ast.Name) and b_.id in parsed:
                        run.fail("C19.R3", g_, n_, f"{g_.name} edits the fold lambda after it was parsed ({ast.unparse(t_)[:50]} is assigned): what reaches Aggregate is no longer the fold the literal spells - a parameter renamed without its body leaves the body's `v` / `acc` referring to an outer variable (lambda v: Sum(v) becomes Aggregate(v, 0, lambda acc, v_agg: acc + v))", "hand the parsed literal on as it is", key="fold lambda edited after parsing")
    odd = sorted(n for n in list(cls.methods) + list(cls.class_assigns) if n in ("visit", "generic_visit"))
    run.check(not odd, "C19.R4", fi, cls.node, "the traversal protocol is the stdlib's (visit / generic_visit are not overridden)", f"aggregate_node_transformer overrides {odd}: the traversal no longer reaches every node, so some shortcut calls stay un-lowered", "only visit_<Kind> handlers")
    # any further visit_<Kind> handler (a method, or a class-level alias of one) must hand back its node with everything below it visited
    from ..visitors import dispatch_entries, unvisited_in_entry

    ctx_e = TermCtx(m, max_depth=2)
    for other in dispatch_entries(m, cls):
        en = getattr(other, "entry_name", other.name)
        if en == "visit_Call":
            continue
        for s_, leaked, whole in unvisited_in_entry(ctx_e, other):
            run.fail("C19.R4", other, s_, f"{en} returns {show(leaked)} without visiting it: len / Count / Sum / Max / Min calls anywhere below such a node (in the receiver chain of a method call, in an attribute's object) are not lowered", "return self.generic_visit(node)", show(whole)[:200])
        ofa = ctx_e.analysis(other)
        nodep_o = ("param", other.pos_params[1]) if len(other.pos_params) > 1 else None
        for s_, n_ in ofa.returns():
            t_ = strip_sites(ofa.term_of(s_.value, n_)) if s_.value is not None else ("const", None)
            same = t_ == nodep_o or (t_[0] == "gvisit" and t_[1] == nodep_o)
            run.check(same, "C19.R4", other, s_, f"{en} hands back its own node", f"{en} returns {show(t_)[:100]}: a node kind other than the five shortcut calls is changed", "return self.generic_visit(node)", show(t_)[:200])
    ctx = TermCtx(m, max_depth=4)
    fa = ctx.analysis(fi)
    node_p = ("param", fi.pos_params[1])
    covered = set()
    n_fall = 0
    rets = fa.returns()
    run.floor("C19.R1", len(rets), 2, "return statements in visit_Call")
    if any(p.kind != "return" for p, _ in fa.cfg.exit.pred):
        run.fail("C19.R4", fi, fi.node, "a path falls off the end of visit_Call and returns None: the node is deleted")
    for s, n in rets:
        t = strip_sites(fa.term_of(s.value, n)) if s.value is not None else ("const", None)
        from ..terms import resolve_global_consts

        t = resolve_global_consts(m, t)  # _SUM_STEP = "lambda acc,v: acc + v" is that string
        for alt in (t[1] if t[0] == "phi" else [t]):
            nc = name_call(alt)
            if nc is None:
                ok = alt == ("gvisit", node_p) or alt == ("visit", node_p)
                run.check(ok, "C19.R4", fi, s, "non-lowering path returns generic_visit(node)", f"a non-lowering path returns {show(alt)[:120]} instead of generic_visit(node): nested shortcuts below it are not lowered / the node is changed", term=show(alt))
                n_fall += 1
                continue
            name, args, kws = nc
            fx = Facts(fa, s)
            if name != "Aggregate" or len(args) != 3:
                run.fail("C19.R3", fi, s, f"lowering builds {name}({len(args)} args), expected Aggregate(seq, seed, fold)", term=show(alt))
                continue
            seq, seed, fold = args
            # R1
            id_t = ("attr", ("attr", node_p, "func"), "id")
            names = fx.str_equals(id_t)
            table = _fold_table(m, fold, id_t, fx)
            if table is not None:
                names = set(table)
            run.check(bool(names) and names <= set(SPEC), "C19.R1", fi, s, "lowering is keyed on a shortcut name", f"lowering branch is not restricted to the shortcut names (known names here: {sorted(names)})")
            run.check(fx.isinstance_of(("attr", node_p, "func"), {"ast.Name"}), "C19.R1", fi, s, "callee is an ast.Name", "lowering branch is not guarded by 'callee is an ast.Name': method calls / computed callees may be rewritten")
            # R2
            has_arity = any(_len_fact(fa, a, pol, ("attr", node_p, "args"), 1) for a, pol in fx.atoms)
            has_nokw = any(_len_fact(fa, a, pol, ("attr", node_p, "keywords"), 0) or _falsy_fact(fa, a, pol, ("attr", node_p, "keywords")) for a, pol in fx.atoms)
            run.check(has_arity, "C19.R2", fi, s, "guarded by len(node.args) == 1", f"branch for {sorted(names)} indexes node.args[0] without the guard len(node.args) == 1: calls with another argument count are rewritten or crash")
            run.check(has_nokw, "C19.R2", fi, s, "guarded by no keywords", f"branch for {sorted(names)} is not guarded against keyword arguments: {'/'.join(sorted(names)) or 'f'}(seq, k=v) is rewritten and k=v dropped")
            # R4
            want = ("visit", ("index", ("attr", node_p, "args"), 0))
            run.check(seq == want, "C19.R4", fi, s, "sequence argument is visited", f"the sequence argument is {show(seq)[:100]}, expected self.visit(node.args[0]): shortcuts nested inside it are not lowered", term=show(seq))
            # R3
            sd = dict(seed[2]).get("value") if seed[0] == "new" and seed[1] == "Constant" else None
            run.check(sd == ("const", 0) and type(sd[1]) is int, "C19.R3", fi, s, "seed is Constant(0)", f"seed is {show(seed)[:80]}, expected the constant 0")
            src = _fold_source(fold)
            if src is None and table is None:
                run.fail("C19.R3", fi, s, f"fold is not a parsed lambda literal: {show(fold)[:120]}")
                continue
            for nm in sorted(names & set(SPEC)):
                if table is not None:
                    src = table[nm]
                ok, why = fold_equals(src, SPEC[nm])
                run.check(ok, "C19.R3", fi, s, f"fold for {nm} {src!r} matches its specification on the grid", f"fold for {nm} is {src!r}: {why}")
                covered.add(nm)
    run.check(covered == set(SPEC), "C19.R1", fi, fi.node, "all five shortcut names are lowered", f"shortcut names without a lowering branch: {sorted(set(SPEC) - covered)}")
    run.check(n_fall >= 1, "C19.R4", fi, fi.node, "a fall-through generic_visit path exists", "no fall-through path: other calls are not traversed")


def _len_fact(fa, atom, pol, subject, n) -> bool:
    le = len_eq(atom)
    if le is None:
        return False
    subj, op, k = le
    if strip_sites(fa.term_of(subj)) != subject:
        return False
    if pol:
        return (op == "Eq" and k == n) or (n == 0 and op == "LtE" and k == 0) or (n == 0 and op == "Lt" and k == 1)
    return (op == "NotEq" and k == n) or (n == 0 and op == "Gt" and k == 0) or (n == 0 and op == "GtE" and k == 1)


def _falsy_fact(fa, atom, pol, subject) -> bool:
    if pol:
        return False
    try:
        return strip_sites(fa.term_of(atom)) == subject
    except AnalysisError:
        return False


def _fold_table(m, fold, id_t, fx):
    """fold = ast.parse(TABLE.get(<callee name>)).body[0].value under `.. is not None`  (or TABLE[<callee name>] under
    `<callee name> in TABLE`) with TABLE a module-level {name: "lambda .."} literal  ->  that dict."""
    t = fold
    if not (t[0] == "attr" and t[2] == "value" and t[1][0] == "index" and t[1][2] == 0 and t[1][1][0] == "attr" and t[1][1][2] == "body"):
        return None
    p = t[1][1][1]
    if not (p[0] == "app" and p[1] == ("global", "ast.parse") and len(p[2]) == 1):
        return None
    key = p[2][0]
    table = None
    if key[0] == "ifexp":
        # a helper that maps the callee name to the fold text by an if-chain (returning None for other names)
        consts = set()

        def cond_val(c, name):
            if c[0] == "op" and c[1] in ("Compare:Eq", "Compare:NotEq") and len(c[2]) == 2 and id_t in c[2]:
                other = c[2][1] if c[2][0] == id_t else c[2][0]
                if other[0] == "const" and isinstance(other[1], str):
                    consts.add(other[1])
                    return (name == other[1]) == (c[1] == "Compare:Eq")
                return None
            if c[0] == "op" and c[1] == "Compare:In" and len(c[2]) == 2 and c[2][0] == id_t and c[2][1][0] in ("tuple", "list", "set") and all(x[0] == "const" and isinstance(x[1], str) for x in c[2][1][1]):
                consts.update(x[1] for x in c[2][1][1])
                return name in {x[1] for x in c[2][1][1]}
            if c[0] == "op" and c[1] in ("Or", "And"):
                vals = [cond_val(x, name) for x in c[2]]
                if any(v is None for v in vals):
                    return None
                return any(vals) if c[1] == "Or" else all(vals)
            if c[0] == "op" and c[1] == "Not" and len(c[2]) == 1:
                v = cond_val(c[2][0], name)
                return None if v is None else not v
            return None

        def ev(t_, name):
            while t_[0] == "ifexp":
                v = cond_val(t_[1], name)
                if v is None:
                    return ("?",)
                t_ = t_[2] if v else t_[3]
            return t_

        ev(key, "\0")  # collects the constants the chain compares with
        out_ = {}
        for nm in sorted(consts):
            r_ = ev(key, nm)
            if r_ == ("?",):
                return None
            if r_[0] == "const" and isinstance(r_[1], str):
                out_[nm] = r_[1]
            elif r_ != ("const", None):
                return None
        if ev(key, "\0") != ("const", None) or not fx.compare_const(key, [ast.IsNot], None):
            return None  # other names must map to None, and None must be excluded where the fold is built
        return out_ or None
    if key[0] == "app" and key[1][0] == "global" and key[1][1].endswith(".get") and key[2] == (id_t,):
        table = key[1][1][: -len(".get")]
        if not fx.compare_const(key, [ast.IsNot], None):
            return None
    elif key[0] == "subscript" and key[1][0] == "global" and key[2] == id_t:
        table = key[1][1]
        guarded = any(pol and isinstance(a, ast.Compare) and len(a.ops) == 1 and isinstance(a.ops[0], ast.In) and fx._term(a.left) == id_t and fx._term(a.comparators[0]) == key[1] for a, pol in fx.atoms)
        if not guarded:
            return None
    if table is None:
        return None
    modname, _, var = table.rpartition(".")
    try:
        mod = m.module(modname)
    except Exception:
        return None
    lit = mod.assigns.get(var)
    if not isinstance(lit, ast.Dict) or not lit.keys:
        return None
    out = {}
    for k, v in zip(lit.keys, lit.values):
        if not (isinstance(k, ast.Constant) and isinstance(k.value, str) and isinstance(v, ast.Constant) and isinstance(v.value, str)):
            return None
        out[k.value] = v.value
    # the table must not be written anywhere in the package
    for f in m.funcs.values():
        for n in own_nodes(f):
            if isinstance(n, ast.Name) and n.id == var and isinstance(n.ctx, (ast.Store, ast.Del)):
                return None
            if isinstance(n, ast.Subscript) and isinstance(n.ctx, (ast.Store, ast.Del)) and isinstance(n.value, ast.Name) and n.value.id == var:
                return None
    return out


def _fold_source(fold):
    # ast.parse(<const str>).body[0].value
    t = fold
    if t[0] == "attr" and t[2] == "value" and t[1][0] == "index" and t[1][2] == 0 and t[1][1][0] == "attr" and t[1][1][2] == "body":
        p = t[1][1][1]
        if p[0] == "app" and p[1] == ("global", "ast.parse") and p[2] and p[2][0][0] == "const" and isinstance(p[2][0][1], str):
            return p[2][0][1]
    return None


def shortcut_names(m) -> set:
    """the callee names aggregate_node_transformer.visit_Call lowers (read from its guards or its table) - used by C17.R5"""
    cls = m.find_class("aggregate_node_transformer", in_module="func_adl.ast.aggregate_shortcuts")
    fi = cls.methods.get("visit_Call")
    if fi is None:
        raise AnalysisError("anchor vanished: aggregate_node_transformer.visit_Call")
    from ..normalise import unrolled

    fi = unrolled(m, fi)
    ctx = TermCtx(m, max_depth=4)
    fa = ctx.analysis(fi)
    node_p = ("param", fi.pos_params[1])
    id_t = ("attr", ("attr", node_p, "func"), "id")
    out = set()
    for s_, n_ in fa.returns():
        t = strip_sites(fa.term_of(s_.value, n_)) if s_.value is not None else ("const", None)
        for alt in (t[1] if t[0] == "phi" else [t]):
            nc = name_call(alt)
            if nc is None or nc[0] != "Aggregate" or len(nc[1]) != 3:
                continue
            fx = Facts(fa, s_)
            table = _fold_table(m, nc[1][2], id_t, fx)
            out |= set(table) if table is not None else fx.str_equals(id_t)
    return out
