"""C16 - query-level metadata accumulates, is inherited, never reaches a backend."""
from __future__ import annotations

import ast

from ..lib import Facts, calls_in, own_nodes, stmt_of
from ..model import AnalysisError
from ..report import Run
from ..terms import TermCtx, contains, show, strip_sites, unphi_terms

EXPLANATION = (
    "QMetaData stores _q_metadata only on the top node of a fresh copy.copy of the current AST (R1); the stored dictionary data-depends on "
    "the replaced node's own _q_metadata, so keys set by an immediately preceding call survive the node replacement (R2); every key of the "
    "argument is considered (the per-key loop has no early exit) and a key is skipped only when the inherited value equals the new one "
    "(R5); lookup descends exactly when the key is absent from the node's dictionary - key membership, not truthiness - and returns the "
    "recorded value or None (R3); _q_metadata is not a field of any ast node class and QMetaData constructs no AST node, so ast.dump "
    "(fields only), calc_ast_hash and the AST handed to executors cannot see it (R4)."
    " (R6) no operation of a stream edits nodes of a query AST in place (C11.R2 re-evaluated): the nodes that carry _q_metadata and the child lists their copies share are never rewritten."
)
NOT_DECIDED = "that ast.dump / copy.copy behave as documented (trusted stdlib)."

ATTR = "_q_metadata"


def check(run: Run) -> None:
    m = run.model
    run.rule("C16.R1", "_q_metadata is stored only on the top node of a fresh copy.copy of the stream's current AST")
    run.rule("C16.R2", "the stored dictionary merges the replaced node's own _q_metadata")
    run.rule("C16.R3", "lookup: found iff key in node._q_metadata (membership); otherwise descend; returns recorded value or None")
    run.rule("C16.R4", "_q_metadata is no _fields member; QMetaData builds no AST node; both outcomes return clone_with_new_ast of a field-identical AST")
    run.rule("C16.R5", "per-key loop over the argument has no early exit; a key is skipped only if the inherited value equals the new value")
    ctx = TermCtx(m, max_depth=3)
    os_cls = m.find_class("ObjectStream", in_module="func_adl.object_stream")
    q = os_cls.methods.get("QMetaData")
    if q is None:
        raise AnalysisError("anchor vanished: ObjectStream.QMetaData")
    from ..lib import view as _view_q

    q0 = q
    q = _view_q(m, q, hoist_tests=True, comp_loops=True)  # the pending entries may be kept by a small private object, the steps made by private helpers, the per-key loop written as a comprehension
    fa = ctx.analysis(q)
    selfp = ("param", q.pos_params[0])
    mdp = ("param", q.pos_params[1])
    cur = ("attr", selfp, "_q_ast")

    # ---------------- R1 / R2: every store of _q_metadata in the package
    n_stores = 0
    from ..lib import unit as _unit_q

    # private helpers of QMetaData whose statements stand in its view are read there, not a second time on their own
    called_in_view = {(c_.func.id if isinstance(c_.func, ast.Name) else c_.func.attr) for c_ in calls_in(q) if isinstance(c_.func, (ast.Name, ast.Attribute))}
    inlined = {g_.qual for g_ in _unit_q(m, q0) if g_ is not q0 and g_.name not in called_in_view} if q is not q0 else set()
    for fi in [q if f_ is q0 else f_ for f_ in m.funcs.values() if f_.qual not in inlined]:
        for n in own_nodes(fi):
            tgt = None
            val = None
            if isinstance(n, ast.Assign):
                for tg in n.targets:
                    if isinstance(tg, ast.Attribute) and tg.attr == ATTR:
                        tgt, val = tg.value, n.value
            elif isinstance(n, ast.Call) and isinstance(n.func, ast.Name) and n.func.id == "setattr" and len(n.args) == 3 and isinstance(n.args[1], ast.Constant) and n.args[1].value == ATTR:
                tgt, val = n.args[0], n.args[2]
            if tgt is None:
                continue
            n_stores += 1
            f2 = ctx.analysis(fi)
            t = strip_sites(f2.term_of(tgt))
            # the store may sit in a private helper QMetaData hands its pieces to: read it with the actual arguments
            bind = {}
            actual_ast = {}
            in_q = fi is q
            if fi is not q:
                from ..lib import call_sites_of, unit
                from ..terms import subst

                sites = [(c_, call, skip) for c_, call, skip in call_sites_of(m, fi) if c_ is q]
                if not sites and q is not q0:
                    # QMetaData is read in its view: the call of the helper is the one that stands there
                    vc_ = [c_ for c_ in calls_in(q) if isinstance(c_.func, ast.Attribute) and c_.func.attr == fi.name and isinstance(c_.func.value, ast.Name) and q.pos_params and c_.func.value.id == q.pos_params[0]]
                    if len(vc_) == 1 and all(c0_ is q0 for c0_, _a, _b in call_sites_of(m, fi)):
                        sites = [(q, vc_[0], 0 if "staticmethod" in fi.decorators else 1)]
                if any(f_ is fi for f_ in unit(m, q)) and len(sites) == 1 and len(call_sites_of(m, fi)) == 1:
                    _c, call, skip = sites[0]
                    for p_, a_ in zip(fi.pos_params[skip:], call.args):
                        bind[("param", p_)] = strip_sites(fa.term_of(a_))
                        actual_ast[p_] = a_
                    for k_ in call.keywords:
                        if k_.arg is not None:
                            bind[("param", k_.arg)] = strip_sites(fa.term_of(k_.value))
                            actual_ast[k_.arg] = k_.value
                    if fi.pos_params and skip:
                        bind[("param", fi.pos_params[0])] = selfp
                    t = subst(t, bind)
                    in_q = True
            base = t[1] if t[0] == "upd" else t
            fresh_copy = base == ("app", ("global", "copy.copy"), (cur,), ()) and in_q
            run.check(fresh_copy, "C16.R1", fi, n, "_q_metadata stored on copy.copy(self._q_ast)", f"_q_metadata is attached to {show(t)[:100]}: " + ("the node is shared with the parent stream and its other children, which now see this metadata" if cur in unphi_terms(base) or base == cur else "not a fresh shallow copy of the stream's current top node"), "copy.copy(self.query_ast)", show(t))
            if in_q:
                v = strip_sites(f2.term_of(val))
                if bind:
                    v = subst(v, bind)
                dep_old = contains(v, lambda s: s == ("attr", cur, ATTR))
                nothing_carried = False
                if not dep_old:
                    # .. unless this store stands where the replaced node is known to carry nothing
                    for a_, pol_ in Facts(f2, n).atoms:
                        if (not pol_) and isinstance(a_, ast.Call) and isinstance(a_.func, ast.Name) and a_.func.id == "hasattr" and len(a_.args) == 2 and isinstance(a_.args[1], ast.Constant) and a_.args[1].value == ATTR and f2.cfg.has_node(a_.args[0]):
                            at_ = strip_sites(f2.term_of(a_.args[0]))
                            if bind:
                                at_ = subst(at_, bind)
                            if at_ == cur:
                                dep_old = nothing_carried = True
                run.check(dep_old, "C16.R2", fi, n, "stored dictionary depends on the replaced node's _q_metadata", "the dictionary stored on the copied node is built from the new keys only: metadata carried by the node it replaces (set by the preceding QMetaData call) is dropped", "{**getattr(base_ast, '_q_metadata', {}), **q_metadata}", show(v))
                if dep_old and v[0] == "dict" and not nothing_carried:
                    # .. all of it: spread whole, or filtered by nothing but the keys that are stored again
                    inh = ("attr", cur, ATTR)
                    spreads = [val_ for k_, val_ in v[1] if k_ == ("const", "**")]
                    whole = any({x_ for x_ in unphi_terms(val_) if x_ != ("dict", ())} == {inh} for val_ in spreads)
                    part_ok = False
                    for i_, val_ in enumerate(spreads):
                        if val_[0] == "comp" and contains(val_, lambda s_: s_ == inh) and len(val_[3]) == 1:
                            conds_ = val_[3][0][1]
                            later = spreads[i_ + 1:]
                            part_ok = part_ok or all(c_[0] == "op" and c_[1] == "Compare:NotIn" and len(c_[2]) == 2 and c_[2][1] in later for c_ in conds_)
                    run.check(whole or part_ok, "C16.R2", fi, n, "everything the replaced node carried is kept (unless stored again)", "the metadata carried by the replaced node is filtered before it is copied to the new node, by something other than the keys that are stored again: a key passed once more with the value it already has is neither carried over nor re-added and disappears from the path", "{**getattr(base_ast, '_q_metadata', {}), **q_metadata}", show(v), key="inherited query metadata filtered")
                owners_ = _metadata_loops(m, ctx, q, mdp)
                lo_ = owners_[0][0] if len(owners_) == 1 else None
                if fi is q:
                    dep_new = _depends_on_loop_store(q, fa, val, lo_)
                else:
                    # in the helper: the value mentions a parameter whose actual argument, in QMetaData, holds the new keys
                    dep_new = any(isinstance(x, ast.Name) and x.id in actual_ast and _depends_on_loop_store(q, fa, actual_ast[x.id], lo_) for x in ast.walk(val))
                run.check(dep_new, "C16.R2", fi, n, "stored dictionary contains the new keys", "the stored dictionary does not include the keys being set")
    run.floor("C16.R1", n_stores, 1, "_q_metadata stores")

    # returns of QMetaData
    for s, n in fa.returns():
        t = strip_sites(fa.term_of(s.value, n))
        for alt in unphi_terms(t):
            base = alt[1] if alt[0] == "upd" else alt
            flds = dict(alt[2]) if alt[0] == "upd" else {}
            ok_clone = base == ("app", ("global", "copy.copy"), (selfp,), ())
            qa = flds.get("_q_ast")
            qa_base = qa[1] if qa is not None and qa[0] == "upd" else qa
            ok_ast = qa_base in (cur, ("app", ("global", "copy.copy"), (cur,), ()))
            ok_type = flds.get("_item_type") == ("attr", selfp, "_item_type")
            run.check(ok_clone and ok_ast and ok_type, "C16.R4", q, s, "returns a clone whose AST is the current AST or a shallow copy of it, same item type", f"QMetaData returns {show(alt)[:140]}: the query seen by executors / dump / hash is no longer identical to the chain without QMetaData", term=show(alt))
    new_nodes = [c for c in calls_in(q) if strip_sites(fa.term_of(c))[0] == "new"]
    run.check(not new_nodes, "C16.R4", q, stmt_of(new_nodes[0]) if new_nodes else q.node, "QMetaData constructs no AST node", "QMetaData builds an AST node: query metadata becomes visible to backends")
    import ast as _ast

    in_fields = [c for c in dir(_ast) if isinstance(getattr(_ast, c), type) and ATTR in getattr(getattr(_ast, c), "_fields", ())]
    run.check(not in_fields, "C16.R4", q, q.node, "_q_metadata is not a _fields member of any ast class", f"_q_metadata is a field of {in_fields}")

    # ---------------- R5 per-key loop (in QMetaData or in a private helper it hands `metadata` to)
    loops = _metadata_loops(m, ctx, q, mdp)
    run.check(len(loops) == 1, "C16.R5", q, q.node, "one loop over metadata.items()", f"{len(loops)} loops over metadata.items()")
    for g_, lp in loops:
        early = [x for x in ast.walk(lp) if isinstance(x, (ast.Break, ast.Return))]
        for x in early:
            run.fail("C16.R5", g_, x, "the per-key loop can stop early: keys after this one in the same QMetaData call are silently dropped", "continue")
        if not early:
            run.ok("C16.R5", g_, "per-key loop has no break/return")
        _check_skip_condition(run, g_, ctx.analysis(g_), lp, selfp)

    # ---------------- R3 lookup
    lk = m.find_func("lookup_query_metadata", in_module="func_adl.ast.meta_data")
    from ..lib import used_visitor

    finders = [used_visitor(m, ctx, lk)]
    if len(finders) != 1 or "generic_visit" not in finders[0].methods:
        raise AnalysisError("lookup_query_metadata no longer contains one visitor overriding generic_visit")
    fcls = finders[0]
    extra = sorted(n for n in fcls.methods if n.startswith("visit"))
    run.check(not extra, "C16.R3", fcls.methods["generic_visit"], fcls.node, "the finder overrides generic_visit only: every node kind goes through the metadata test", f"the finder also defines {extra}: nodes of that kind never reach generic_visit, so _q_metadata attached to them is invisible to the lookup (e.g. QMetaData right after MetaData)", "no visit_<Kind> methods")
    from ..lib import view as _view_g

    gv = _view_g(m, fcls.methods["generic_visit"], hoist_tests=True)  # the metadata test may be a private helper that answers found / not found
    fg = ctx.analysis(gv)
    gnode = ("param", gv.pos_params[1])
    gself = ("param", gv.pos_params[0])
    dct = ("attr", gnode, ATTR)
    from ..lib import carried_param_terms

    keys = carried_param_terms(m, ctx, lk, fcls, gv, lk.pos_params[1])
    found_stores = [n for n in own_nodes(gv) if isinstance(n, ast.Assign) and any(isinstance(tg, ast.Attribute) and tg.attr == "_found" for tg in n.targets)]
    closure_list = None
    if not found_stores:
        # what was found is appended to a list of the enclosing function: occurrences.append(q_metadata[name]) .. and the
        # lookup answers with the last one (a later find replaces an earlier one, as with the attribute)
        apps_ = [n for n in own_nodes(gv) if isinstance(n, ast.Expr) and isinstance(n.value, ast.Call) and isinstance(n.value.func, ast.Attribute) and n.value.func.attr == "append" and isinstance(n.value.func.value, ast.Name) and len(n.value.args) == 1 and fg.cfg.has_node(n) and strip_sites(fg.term_of(n.value.func.value))[0] == "free"]
        if apps_ and len({a_.value.func.value.id for a_ in apps_}) == 1:
            closure_list = apps_[0].value.func.value.id
            found_stores = [ast.copy_location(ast.Assign(targets=[ast.Name(id="_", ctx=ast.Store())], value=a_.value.args[0], type_comment=None), a_) for a_ in apps_]
            for fs_, a_ in zip(found_stores, apps_):
                fs_._parent = getattr(a_, "_parent", None)  # type: ignore
                fs_._stands_for = a_  # type: ignore
    if not found_stores and not any(isinstance(n_, ast.Attribute) and n_.attr == "_found" for f_ in fcls.methods.values() for n_ in own_nodes(f_)):
        raise AnalysisError("the finder of lookup_query_metadata keeps what it found somewhere else than in an attribute of its own (a list of the enclosing function, ..): which occurrence wins cannot be read")
    run.check(len(found_stores) >= 1, "C16.R3", gv, gv.node, "the found value is recorded", "lookup never records a value")
    for st in found_stores:
        at_ = getattr(st, "_stands_for", st)
        v = strip_sites(fg.term_of(st.value))
        key = next((k_ for k_ in keys if any(a == ("subscript", dct, k_) for a in unphi_terms(v))), keys[0])
        ok_v = any(a == ("subscript", dct, key) for a in unphi_terms(v)) or v == ("subscript", dct, key)
        run.check(ok_v, "C16.R3", gv, at_, "recorded value is node._q_metadata[key]", f"recorded value is {show(v)[:100]}", term=show(v))
        run.check(_member_fact(fg, at_, dct, key, True), "C16.R3", gv, at_, "value recorded under the fact 'key in node._q_metadata'", "the value is recorded under a condition other than key membership (e.g. truthiness of the stored value): a key set to a falsy value does not stop the search and an older value is returned", "if metadata_name in q_metadata")
    desc = [c for c in calls_in(gv) if isinstance(c.func, ast.Attribute) and c.func.attr == "generic_visit" and isinstance(c.func.value, ast.Call)]
    run.check(len(desc) == 1 and strip_sites(fg.term_of(desc[0].args[-1])) == gnode, "C16.R3", gv, gv.node, "descends with the base generic_visit(node)", "lookup does not descend into the node's children with the base generic_visit")
    if len(desc) == 1:
        # exactly one of {record, descend} on every path
        rec_nodes = {fg.cfg.node_of(getattr(s, "_stands_for", s)) for s in found_stores}
        dn = fg.cfg.node_of(desc[0])
        kinds = set()
        for p in fg.cfg.paths():
            kinds.add((sum(1 for x in p if x in rec_nodes), sum(1 for x in p if x is dn)))
        run.check(kinds <= {(1, 0), (0, 1)}, "C16.R3", gv, gv.node, "every path either records the value or descends, never both or neither", f"paths (records, descends) = {sorted(kinds)}: the search does not stop at the first node defining the key, or stops without a value")
    fl = ctx.analysis(lk)
    rt = strip_sites(fl.return_term())
    fprop = fcls.methods.get("found")
    ok_rt = rt[0] == "attr" and rt[2] in ("_found", "found")
    if closure_list is not None:
        # return occurrences[-1] if occurrences else None
        rets_ = [s_ for s_, _n in fl.returns()]
        def _last(e_):
            return isinstance(e_, ast.Subscript) and isinstance(e_.value, ast.Name) and e_.value.id == closure_list and ((isinstance(e_.slice, ast.UnaryOp) and isinstance(e_.slice.op, ast.USub) and isinstance(e_.slice.operand, ast.Constant) and e_.slice.operand.value == 1) or (isinstance(e_.slice, ast.Constant) and e_.slice.value == -1))
        from ..lib import known_empty as _ke
        ok_rt = bool(rets_) and all((_last(r_.value) and _ke(Facts(fl, r_).atoms, closure_list) is False) or (isinstance(r_.value, ast.Constant) and r_.value.value is None and _ke(Facts(fl, r_).atoms, closure_list) is True) for r_ in rets_) and any(_last(r_.value) for r_ in rets_)
    run.check(ok_rt, "C16.R3", lk, lk.node, "lookup returns the recorded value (None if never set)", f"lookup returns {show(rt)[:100]}", term=show(rt))
    init = fcls.methods.get("__init__")
    if init is not None and closure_list is None:
        none_init = any(isinstance(n, ast.Assign) and any(isinstance(tg, ast.Attribute) and tg.attr == "_found" for tg in n.targets) and isinstance(n.value, ast.Constant) and n.value.value is None for n in own_nodes(init))
        run.check(none_init, "C16.R3", init, init.node, "_found starts as None", "_found is not initialised to None")
    visits = [c for c in calls_in(lk) if isinstance(c.func, ast.Attribute) and c.func.attr == "visit"]
    ok_v = len(visits) == 1 and strip_sites(fl.term_of(visits[0].args[0])) == ("attr", ("param", lk.pos_params[0]), "_q_ast")
    run.check(ok_v, "C16.R3", lk, lk.node, "search starts at the stream's own query AST", "lookup does not start from q.query_ast")

    # the dictionaries hang on nodes of the streams' query ASTs, and the copy QMetaData makes shares its child lists with the
    # node it replaces: anything that edits a stream's nodes or their lists in place (execution, derivation) drops or
    # moves metadata that other streams still rely on
    run.rule("C16.R6", "no operation of a stream edits nodes of a query AST in place (C11.R2 re-evaluated): the nodes that carry _q_metadata, and the child lists their copies share, are never rewritten behind another stream's back")
    from ..report import run_stage

    run_stage(run, "c11", only={"C11.R2"})


def _metadata_loops(m, ctx, q, mdp):
    """[(function, loop)] for loops over <metadata>.items() in QMetaData or a private helper that receives metadata"""
    from ..lib import call_sites_of, unit

    fa = ctx.analysis(q)
    out = []
    for g_ in unit(m, q):
        ga = ctx.analysis(g_)
        want = mdp
        if g_ is not q:
            want = None
            for c_, call, skip in call_sites_of(m, g_):
                if c_ is q:
                    for p_, a in zip(g_.pos_params[skip:], call.args):
                        if strip_sites(fa.term_of(a)) == mdp:
                            want = ("param", p_)
                    for k in call.keywords:
                        if k.arg and strip_sites(fa.term_of(k.value)) == mdp:
                            want = ("param", k.arg)
        if want is None:
            continue
        for n in own_nodes(g_):
            if isinstance(n, ast.For) and strip_sites(ga.term_of(n.iter, ga.cfg.node_of(n))) == ("app", ("attr", want, "items"), (), ()):
                out.append((g_, n))
    return out


def _member_fact(fa, at_stmt, dct, key, want: bool) -> bool:
    fx = Facts(fa, at_stmt)
    for a, pol in fx.atoms:
        if isinstance(a, ast.Compare) and len(a.ops) == 1 and isinstance(a.ops[0], (ast.In, ast.NotIn)):
            is_in = isinstance(a.ops[0], ast.In) == pol
            if is_in == want and strip_sites(fa.term_of(a.left)) == key:
                ct = strip_sites(fa.term_of(a.comparators[0]))
                # getattr(node, "_q_metadata", None) reads as node._q_metadata | None; membership in None cannot hold
                if ct == dct or {x for x in unphi_terms(ct) if x != ("const", None)} == {dct}:
                    return True
    return False


def _depends_on_loop_store(q, fa, val: ast.AST, loop_owner=None) -> bool:
    """the value data-depends on the dict that the per-key loop fills (q_metadata[k] = v) - directly, through
    temporaries, or through the result of the private helper that contains the loop and returns that dict."""
    filled = set()
    for n in own_nodes(q):
        if isinstance(n, ast.Assign):
            for tg in n.targets:
                if isinstance(tg, ast.Subscript) and isinstance(tg.value, ast.Name):
                    filled.add(tg.value.id)
    helper_returns_filled = False
    if loop_owner is not None and loop_owner is not q:
        hf = set()
        for n in own_nodes(loop_owner):
            if isinstance(n, ast.Assign):
                for tg in n.targets:
                    if isinstance(tg, ast.Subscript) and isinstance(tg.value, ast.Name):
                        hf.add(tg.value.id)
        rets = [n for n in own_nodes(loop_owner) if isinstance(n, ast.Return)]
        helper_returns_filled = bool(rets) and all(isinstance(r.value, ast.Name) and r.value.id in hf for r in rets)

    def mentions(e) -> bool:
        for x in ast.walk(e):
            if isinstance(x, ast.Name) and x.id in filled:
                return True
            if helper_returns_filled and isinstance(x, ast.Call):
                nm = x.func.id if isinstance(x.func, ast.Name) else (x.func.attr if isinstance(x.func, ast.Attribute) else None)
                if nm == loop_owner.name:
                    return True
        return False

    for _ in range(4):  # temporaries
        grew = False
        for n in own_nodes(q):
            if isinstance(n, ast.Assign) and len(n.targets) == 1 and isinstance(n.targets[0], ast.Name) and n.targets[0].id not in filled and mentions(n.value):
                filled.add(n.targets[0].id)
                grew = True
            # merged.update(q_metadata) / merged |= q_metadata: the receiver now holds the new keys too
            recv = arg = None
            if isinstance(n, ast.Call) and isinstance(n.func, ast.Attribute) and n.func.attr == "update" and isinstance(n.func.value, ast.Name) and len(n.args) == 1:
                recv, arg = n.func.value.id, n.args[0]
            elif isinstance(n, ast.AugAssign) and isinstance(n.op, ast.BitOr) and isinstance(n.target, ast.Name):
                recv, arg = n.target.id, n.value
            if recv is not None and recv not in filled and mentions(arg):
                filled.add(recv)
                grew = True
        if not grew:
            break
    return mentions(val)


def _check_skip_condition(run, q, fa, lp: ast.For, selfp) -> None:
    """paths through the loop body that do not store q_metadata[k] = v must know found == v."""
    stores = [n for n in ast.walk(lp) if isinstance(n, ast.Assign) and any(isinstance(tg, ast.Subscript) for tg in n.targets)]
    if len(stores) < 1:
        run.fail("C16.R5", q, lp, "no store into the new-keys dictionary inside the loop")
        return
    k_ok = isinstance(lp.target, ast.Tuple) and len(lp.target.elts) == 2 and all(isinstance(e, ast.Name) for e in lp.target.elts)
    if not k_ok:
        run.fail("C16.R5", q, lp, "loop target is not (key, value)")
        return
    kv, vv = lp.target.elts[0].id, lp.target.elts[1].id  # type: ignore
    for st in stores:
        tg = st.targets[0]
        ok_store = isinstance(tg.slice, ast.Name) and tg.slice.id == kv and isinstance(st.value, ast.Name) and st.value.id == vv  # type: ignore
        run.check(ok_store, "C16.R5", q, st, "loop stores new[key] = value", "the per-key store does not record the given value under the given key")
    cfg = fa.cfg
    head = cfg.node_of(lp)
    store_nodes = {cfg.node_of(st) for st in stores}
    bad_paths = 0
    all_paths = cfg.body_paths(head, lambda c: _in_loop(c, lp))
    n_paths = len(all_paths)
    from ..lib import expand_atoms

    for pth, facts in all_paths:
        if not (store_nodes & set(pth)) and not _knows_equal(fa, facts, kv, vv, selfp) and not _knows_equal(fa, expand_atoms(fa, list(facts)), kv, vv, selfp):
            bad_paths += 1
    run.notes["qmetadata_loop_paths"] = n_paths
    run.check(bad_paths == 0 and n_paths > 0, "C16.R5", q, lp, "a key is skipped only when the inherited value is known equal to the new one", f"{bad_paths} path(s) through the per-key loop skip the key without knowing that the value already visible on this path equals the new value: a new or changed key can be dropped")


def _in_loop(cn, lp: ast.For) -> bool:
    a = cn.stmt if cn.stmt is not None else cn.ast
    if a is None:
        return False
    return any(x is a for x in ast.walk(lp)) and a is not lp


def _knows_equal(fa, facts, kv, vv, selfp) -> bool:
    """facts imply: lookup(self, key) is not None and lookup(self, key) == value."""
    eq = False
    # read with the lookup kept as a call: "the value the lookup gave" whatever the lookup is made of
    ctx_o = fa.ctx.__dict__.get("_lookup_opaque_ctx")
    if ctx_o is None:
        ctx_o = TermCtx(fa.model, max_depth=1, opaque={"lookup_query_metadata"})
        fa.ctx.__dict__["_lookup_opaque_ctx"] = ctx_o
    fa = ctx_o.analysis(fa.fi)
    for a, pol in facts:
        if isinstance(a, ast.Compare) and len(a.ops) == 1:
            op = type(a.ops[0])
            names = {x.id for x in ast.walk(a) if isinstance(x, ast.Name)}
            if vv in names:
                if (op is ast.NotEq and not pol) or (op is ast.Eq and pol):
                    other = a.left if not (isinstance(a.left, ast.Name) and a.left.id == vv) else a.comparators[0]
                    try:
                        t = strip_sites(fa.term_of(other))
                    except AnalysisError:
                        continue
                    if _is_lookup(t, kv, selfp):
                        eq = True
    return eq


def _is_lookup(t, kv, selfp) -> bool:
    for a in unphi_terms(t):
        # the inlined lookup returns finder._found; accept any term produced by lookup_query_metadata(self, key)
        if a[0] == "app" and a[1][0] == "global" and a[1][1].endswith("lookup_query_metadata"):
            return True
        if a[0] == "attr" and a[2] == "_found":
            return True
    return False
