"""C07 - typed call sites are normalised to full positional form (type_based_replacement.py)."""
from __future__ import annotations

import ast

from ..lib import call_sites_of, Facts, calls_in, own_nodes, stmt_of
from ..model import AnalysisError, FuncInfo
from ..report import Run
from ..terms import TermCtx, contains, show, strip_sites, unphi_terms

EXPLANATION = (
    "(R1) the per-parameter loop of _fill_in_default_arguments compares the number of positional arguments with a slot index that is "
    "advanced exactly once per non-self parameter on every path (so every declared parameter, not just the first, is normalised); (R2) a "
    "missing slot is taken from the keyword of that name - which is removed from the remaining keywords, and only it - else from "
    "as_literal(param.default), else ValueError; the rebuilt call is a copy carrying the new args and the reduced keywords; (R3) the rebuilt "
    "call keeps a back-link (_old_ast) to the node it replaces and the patch-back transfers the new arguments, callee and keywords to that "
    "node; (R4) calls resolved to methods defined on ObjectStream are exempt from filling; (R5) when the type environment of a lambda is "
    "built, the lambda's own parameter binding is the last writer over the inherited known_types, in a fresh dict."
    " (R3, second half) what is stored in _old_ast is the replaced node or *its* own back-link, never read from the new node; (R6) type introspection sees inherited declarations; (R7) dictionary literals are typed whenever their keys can be dataclass fields (shared with C08/C10), otherwise calls reached through their fields are not normalised."
    " (R9/R10) whether a type is a sequence is decided from its bases, not from its element type, and the result of a nested collection operator derives from the call of the collection method on the stand-in stream (the nested lambda is followed whatever the item type)."
    " (R2, as of D49) the record of last resort carries the call normalised against the definition that was found; (R3, as of D51) the patch-back copies the whole argument list."
    " (R13, as of D58) the collection class's operator is called without arguments only when the call site has no keyword either, and the search for a lambda among the arguments that decides full_type_resolution covers keyword values; (R14, as of D59) the refusal 'argument is required' is not reached for a *args / **kwargs parameter (R1's path count exempts exactly those paths)."
)
NOT_DECIDED = "agreement with inspect.Signature.bind as an executed oracle over all signatures and call shapes."


def check(run: Run) -> None:
    m = run.model
    mod = "func_adl.type_based_replacement"
    run.rule("C07.R1", "slot index advanced exactly once per non-self parameter on every loop-body path (or enumerate over the non-self parameters)")
    run.rule("C07.R2", "keyword -> slot and removed (only that keyword); default via as_literal; otherwise ValueError; rebuilt call = copy with new args and reduced keywords")
    run.rule("C07.R3", "rebuilt call has _old_ast = original; fixup_ast_from_modifications copies extra args, func and keywords back")
    run.rule("C07.R4", "methods defined on ObjectStream (stream operators) are exempt from argument filling")
    run.rule("C07.R5", "lambda parameter binding is applied after the inherited known_types (inner scope wins), in a new dict")
    ctx = TermCtx(m, max_depth=2, opaque={"as_literal", "_find_keyword", "resolve_type_vars", "get_type_hints"})
    from ..lib import view as _view

    fd = _view(m, m.find_func("_fill_in_default_arguments", in_module=mod), keep=("_find_keyword",))
    fa = ctx.analysis(fd)
    cfg = fa.cfg
    callp = ("param", fd.pos_params[1])

    # ---------------- R1
    # the filling loop lives in _fill_in_default_arguments or in a private helper it calls
    from ..lib import call_sites_of, unit
    from ..terms import subst  # noqa: F401

    fd0, fa0, callp0 = fd, fa, callp
    from ..lib import unit_loops

    ploops = []
    def _over_parameters(t) -> bool:
        """the iterable is the signature's parameters, possibly listed, enumerated, filtered or made conditional"""
        if t[0] in ("phi",):
            return any(_over_parameters(a) for a in t[1] if a != ("list", ()))
        if t[0] == "ifexp":
            return any(_over_parameters(a) for a in (t[2], t[3]) if a != ("list", ()))
        if t[0] == "app" and t[1][0] == "global" and t[1][1] in ("builtins.list", "builtins.tuple", "builtins.enumerate", "builtins.iter") and len(t[2]) >= 1:
            return _over_parameters(t[2][0])
        if t[0] == "comp" and len(t[3]) == 1 and t[2] == ("elem", t[3][0][0]):
            return _over_parameters(t[3][0][0])
        if t[0] == "app" and t[1][0] == "attr" and t[1][2] == "values" and not t[2]:
            return _over_parameters(t[1][1])
        if _skip_form(t) is not None:
            return _over_parameters(_skip_form(t)[0])
        return t[0] == "attr" and t[2] == "parameters"

    def _skip_form(t):
        """islice(<parameters>, <n>, None): the first n are passed over, every later one is visited"""
        if t[0] == "app" and t[1] == ("global", "itertools.islice") and len(t[2]) in (3, 4) and not t[3] and t[2][2] == ("const", None) and (len(t[2]) == 3 or t[2][3] in (("const", 1), ("const", None))):
            return t[2][0], t[2][1]
        return None

    for g_, lp_, it in unit_loops(ctx, m, fd0):  # iterables seen from _fill_in_default_arguments (helper parameters bound)
        if _over_parameters(it):
            ploops.append((g_, lp_, it))
    if len(ploops) != 1:
        raise AnalysisError(f"expected one loop over the signature's parameters in _fill_in_default_arguments, found {len(ploops)}")
    fd, lp, loop_it0 = ploops[0]
    inv = None
    if fd is not fd0:
        sites_ = [(c_, call_, sk_) for c_, call_, sk_ in call_sites_of(m, fd) if c_ is fd0]
        if len(sites_) != 1:
            raise AnalysisError(f"{fd.name} is not called exactly once from _fill_in_default_arguments")
        inv = {strip_sites(fa0.term_of(a)): ("param", p_) for p_, a in zip(fd.pos_params[sites_[0][2]:], sites_[0][1].args)}
        for k_ in sites_[0][1].keywords:
            inv[strip_sites(fa0.term_of(k_.value))] = ("param", k_.arg)
        if callp0 not in inv:
            raise AnalysisError(f"{fd.name} does not receive the call node")
        callp = inv[callp0]
        fa = ctx.analysis(fd)
        cfg = fa.cfg
    head = cfg.node_of(lp)
    # the slot test: len(<args>) <= IDX in some spelling; `missing_pol` is the truth value that means "slot IDX is not filled yet"
    slot_tests = []
    strict = {}
    for n in ast.walk(lp):
        if isinstance(n, ast.Compare) and len(n.ops) == 1:
            l, r = n.left, n.comparators[0]
            op = type(n.ops[0])
            if isinstance(l, ast.Call) and isinstance(l.func, ast.Name) and l.func.id == "len" and isinstance(r, ast.Name) and op in (ast.LtE, ast.Lt, ast.Eq, ast.Gt, ast.GtE):
                slot_tests.append((n, r.id, l.args[0]))
                strict[id(n)] = (op in (ast.LtE, ast.Gt), op in (ast.LtE, ast.Lt, ast.Eq))
            elif isinstance(r, ast.Call) and isinstance(r.func, ast.Name) and r.func.id == "len" and isinstance(l, ast.Name) and op in (ast.GtE, ast.Gt, ast.Lt, ast.LtE):
                slot_tests.append((n, l.id, r.args[0]))
                strict[id(n)] = (op in (ast.GtE, ast.Lt), op in (ast.GtE, ast.Gt))
    if not slot_tests and _skip_form(loop_it0) is not None:
        # skip-count form: the parameters the call fills by position are passed over up front (islice from
        # len(<positional arguments>)), and every later parameter adds exactly one argument or raises, so the
        # next parameter is always the next open slot
        inner_, start_ = _skip_form(loop_it0)
        ok_start = start_[0] == "app" and start_[1] == ("global", "builtins.len") and len(start_[2]) == 1 and contains(start_[2][0], lambda s_: s_ == ("attr", callp0, "args"))
        run.check(ok_start, "C07.R1", fd, lp, "as many parameters are passed over as the call has positional arguments", f"the loop passes over {show(start_)[:60]} parameters: positional slots and declared parameters are out of step")
        filt = contains(inner_, lambda s_: s_[0] == "op" and s_[1] in ("Compare:NotEq",) and ("const", "self") in s_[2] and any(x[0] == "attr" and x[2] == "name" for x in s_[2] if isinstance(x, tuple)))
        run.check(filt, "C07.R1", fd, lp, "the parameters counted exclude self", "the skip count runs over all parameters including self: off by one for methods")
        lens_ = [] if ok_start else None
        lens_ = lens_ if lens_ is None else [c_ for c_ in ast.walk(fd.node) if isinstance(c_, ast.Call) and isinstance(c_.func, ast.Name) and c_.func.id == "len" and len(c_.args) == 1 and isinstance(c_.args[0], ast.Name) and fa.cfg.has_node(c_) and strip_sites(fa.term_of(c_)) == start_]
        if lens_ is None:
            lens_ = [c_ for c_ in ast.walk(fd.node) if isinstance(c_, ast.Call) and isinstance(c_.func, ast.Name) and c_.func.id == "len" and len(c_.args) == 1 and isinstance(c_.args[0], ast.Name) and any(c_ is x for x in ast.walk(lp.iter))] or [c_ for c_ in ast.walk(fd.node) if isinstance(c_, ast.Call) and isinstance(c_.func, ast.Name) and c_.func.id == "len" and len(c_.args) == 1 and isinstance(c_.args[0], ast.Name)][:1]
        if len({c_.args[0].id for c_ in lens_}) != 1:
            raise AnalysisError("the skip count of the filling loop is not len(<one local list>) in a form this rule can read")
        arr_name = lens_[0].args[0].id
        stores_a = [x for x in own_nodes(fd) if isinstance(x, ast.Name) and x.id == arr_name and isinstance(x.ctx, ast.Store)]
        if len(stores_a) != 1 and ok_start:
            raise AnalysisError(f"the positional list {arr_name} is bound more than once: skip-count form not readable")
        app_nodes = [cfg.node_of(stmt_of(c_)) for c_ in ast.walk(lp) if isinstance(c_, ast.Call) and isinstance(c_.func, ast.Attribute) and c_.func.attr == "append" and isinstance(c_.func.value, ast.Name) and c_.func.value.id == arr_name]
        other_w = [c_ for c_ in ast.walk(lp) if isinstance(c_, ast.Call) and isinstance(c_.func, ast.Attribute) and isinstance(c_.func.value, ast.Name) and c_.func.value.id == arr_name and c_.func.attr in ("extend", "insert", "pop", "remove", "clear")]
        paths = cfg.body_paths(head, lambda c: c.stmt is not None and any(x is c.stmt for x in ast.walk(lp)) and c.stmt is not lp)
        bad = []
        for pth, _facts in paths:
            if any(isinstance(getattr(x, "stmt", None), ast.Raise) for x in pth):
                continue
            cnt = sum(1 for x in pth if any(x is a_ for a_ in app_nodes))
            if cnt != 1:
                bad.append(cnt)
        run.notes["fill_loop_paths"] = len(paths)
        run.check(not bad and not other_w and len(paths) >= 2, "C07.R1", fd, lp, "every parameter visited adds exactly one positional argument (or raises)", f"{len(bad)} loop-body path(s) add {sorted(set(bad))} arguments for one parameter: the next parameter visited is no longer the next open slot")
        # nothing in the loop may skip a parameter that is visited
        skips_ = [x for x in ast.walk(lp) if isinstance(x, (ast.Continue, ast.Break)) and not (isinstance(x, ast.Continue) and any(_variadic_fact(a, pol) is True for a, pol in Facts(fa, x).atoms))]
        run.check(not skips_, "C07.R1", fd, skips_[0] if skips_ else lp, "no visited parameter is skipped (*args / **kwargs apart)", "the filling loop skips or stops at some parameter although its slot is open")
        slot_tests = None
    if slot_tests is not None and not slot_tests:
        raise AnalysisError("the filling loop of _fill_in_default_arguments has no test of the form len(<positional arguments>) <= <slot index> that this rule can read (the arguments may be kept in an object that is handed to other functions)")
    if slot_tests is not None:
        run.check(len(slot_tests) == 1, "C07.R1", fd, lp, "one 'is slot i already filled' test in the loop", f"{len(slot_tests)} slot tests found")
    if slot_tests is not None and len(slot_tests) == 1:
        test, idx_name, arr = slot_tests[0]
        strict_ok, missing_pol = strict[id(test)]
        run.check(strict_ok, "C07.R1", fd, stmt_of(test), "slot i is missing iff len(args) <= i", f"slot test is '{ast.unparse(test)}': off by one")
        # the keyword / default filling happens exactly on the "missing" side of the test
        for c_ in [c for c in ast.walk(lp) if isinstance(c, ast.Call) and isinstance(c.func, ast.Name) and c.func.id == "_find_keyword"]:
            side = [pol for a, pol in Facts(fa, c_, expand=False).atoms if ast.dump(a) == ast.dump(test)]
            if isinstance(test.ops[0], (ast.NotEq,)):
                side = []
            run.check(side == [missing_pol], "C07.R1", fd, stmt_of(c_), "keywords / defaults are consulted exactly when the slot is missing", f"the filling branch runs when '{ast.unparse(test)}' is {side}, expected {missing_pol}: filled slots are overwritten or missing ones skipped")
        arr_t = strip_sites(fa.term_of(arr))
        run.check(contains(arr_t, lambda s: s == ("attr", callp, "args")), "C07.R1", fd, stmt_of(test), "the test counts the call's positional arguments", f"slot test counts {show(arr_t)[:60]}")
        incs = [n for n in ast.walk(lp) if isinstance(n, ast.AugAssign) and isinstance(n.target, ast.Name) and n.target.id == idx_name]
        enum_idx = isinstance(lp.iter, ast.Call) and isinstance(lp.iter.func, ast.Name) and lp.iter.func.id == "enumerate" and isinstance(lp.target, ast.Tuple) and isinstance(lp.target.elts[0], ast.Name) and lp.target.elts[0].id == idx_name
        if enum_idx:
            it_all = loop_it0  # the iterable as seen from _fill_in_default_arguments
            # the enumerated sequence excludes the parameter called "self": a filter condition name != "self" on it
            filt = contains(it_all, lambda s_: s_[0] == "op" and s_[1] in ("Compare:NotEq",) and ("const", "self") in s_[2] and any(x[0] == "attr" and x[2] == "name" for x in s_[2] if isinstance(x, tuple)))
            run.check(filt, "C07.R1", fd, lp, "enumerate runs over the non-self parameters", "slot index comes from enumerate over all parameters including self: off by one for methods")
        else:
            ok_inc = len(incs) >= 1 and all(isinstance(i_.op, ast.Add) and isinstance(i_.value, ast.Constant) and i_.value.value == 1 for i_ in incs)
            run.check(ok_inc, "C07.R1", fd, incs[0] if incs else lp, "the slot index is advanced by one inside the loop", f"the slot index '{idx_name}' is compared but " + ("never advanced" if not incs else "not advanced by exactly one") + ": only the first declared parameter is ever normalised (later keywords stay keywords, later defaults are not filled, missing required arguments are not reported)", f"{idx_name} += 1 once per non-self parameter")
            if ok_inc:
                inc_nodes = [cfg.node_of(i_) for i_ in incs]
                inits = [n for n in own_nodes(fd) if isinstance(n, ast.Assign) and any(isinstance(t, ast.Name) and t.id == idx_name for t in n.targets)]
                run.check(len(inits) == 1 and isinstance(inits[0].value, ast.Constant) and inits[0].value.value == 0 and not any(x is inits[0] for x in ast.walk(lp)), "C07.R1", fd, inits[0] if inits else lp, "index starts at 0 before the loop", "slot index is not initialised to 0 before the loop (or is reset inside it)")
                bad = []
                paths = cfg.body_paths(head, lambda c: c.stmt is not None and any(x is c.stmt for x in ast.walk(lp)) and c.stmt is not lp)
                for pth, facts in paths:
                    is_self = any(_self_fact(a, pol) is True for a, pol in facts)
                    non_self = any(_self_fact(a, pol) is False for a, pol in facts)
                    cnt = sum(1 for x in pth if any(x is i_ for i_ in inc_nodes))
                    want = 0 if (is_self and not non_self) or any(_variadic_fact(a, pol) is True for a, pol in facts) else 1
                    if cnt != want:
                        bad.append((cnt, want))
                run.notes["fill_loop_paths"] = len(paths)
                run.check(not bad and len(paths) >= 3, "C07.R1", fd, incs[0], "index advanced exactly once per non-self parameter on every path", f"{len(bad)} loop-body path(s) advance the slot index {sorted(set(bad))} (got, wanted) times: positional slots and declared parameters get out of step")

    # ---------------- R2
    kw_calls = [c for c in calls_in(fd) if isinstance(c.func, ast.Name) and c.func.id == "_find_keyword"]
    if not kw_calls:
        raise AnalysisError("_fill_in_default_arguments (with its private helpers) does not call _find_keyword itself: the keywords of the call are kept in an object that is handed on - how a keyword is matched to a slot and removed cannot be read from this shape")
    run.check(len(kw_calls) == 1, "C07.R2", fd, fd.node, "keywords consulted through _find_keyword once per missing slot", f"{len(kw_calls)} _find_keyword calls")
    for c in kw_calls:
        a0 = strip_sites(fa.term_of(c.args[0]))
        a1 = strip_sites(fa.term_of(c.args[1]))
        run.check(a1[0] == "attr" and a1[2] == "name", "C07.R2", fd, stmt_of(c), "keyword looked up by the parameter's name", f"keyword looked up by {show(a1)[:60]}")
        # the reduced list is threaded: keywords = result[1]
        st = stmt_of(c)
        ok_thread = isinstance(st, ast.Assign) and isinstance(st.targets[0], ast.Tuple) and len(st.targets[0].elts) == 2 and isinstance(c.args[0], ast.Name) and isinstance(st.targets[0].elts[1], ast.Name) and st.targets[0].elts[1].id == c.args[0].id
        if not ok_thread and isinstance(c.args[0], ast.Name) and fa.cfg.has_node(c):
            # result kept whole, the list taken from it afterwards: found = _find_keyword(keywords, name); keywords = found[1]
            ct = strip_sites(fa.term_of(c))
            for n2 in own_nodes(fd):
                if isinstance(n2, ast.Assign) and len(n2.targets) == 1 and isinstance(n2.targets[0], ast.Name) and n2.targets[0].id == c.args[0].id and fa.cfg.has_node(n2) and fa.cfg.dominates(fa.cfg.node_of(st), fa.cfg.node_of(n2)):
                    v2 = n2.value
                    whole = isinstance(st, ast.Assign) and len(st.targets) == 1 and isinstance(st.targets[0], ast.Name) and st.value is c
                    if strip_sites(fa.term_of(v2)) == ("index", ct, 1) or (whole and isinstance(v2, ast.Subscript) and isinstance(v2.value, ast.Name) and v2.value.id == st.targets[0].id and isinstance(v2.slice, ast.Constant) and v2.slice.value == 1 and sum(1 for x in own_nodes(fd) if isinstance(x, ast.Name) and x.id == v2.value.id and isinstance(x.ctx, ast.Store)) == 1):
                        ok_thread = True
        run.check(ok_thread, "C07.R2", fd, st, "the reduced keyword list replaces the current one", "the keyword list returned by _find_keyword is not threaded through the loop: a keyword used for a slot stays in the call")
    lits = [c for c in calls_in(fd) if isinstance(c.func, ast.Name) and c.func.id == "as_literal"]
    run.check(len(lits) == 1 and ast.unparse(lits[0].args[0]).endswith(".default"), "C07.R2", fd, fd.node, "missing slot with a default gets as_literal(param.default)", "defaults are not filled with as_literal(param.default)")
    for c in lits:
        fx = Facts(fa, c)
        ok = any(isinstance(a, ast.Compare) and isinstance(a.ops[0], (ast.IsNot, ast.Is)) and "default" in ast.unparse(a.left) and "empty" in ast.unparse(a.comparators[0]) and (isinstance(a.ops[0], ast.IsNot) == pol) for a, pol in fx.atoms)
        run.check(ok, "C07.R2", fd, stmt_of(c), "default used only if the parameter has one (default is not empty)", "a default is filled without the 'param.default is not param.empty' test")
    raises = [n for n in ast.walk(lp) if isinstance(n, ast.Raise)]
    ok_r = len(raises) == 1 and isinstance(raises[0].exc, ast.Call) and ast.unparse(raises[0].exc.func) == "ValueError"
    run.check(ok_r, "C07.R2", fd, raises[0] if raises else lp, "a missing required argument raises ValueError", "omitting a parameter that has no default does not raise ValueError")
    # (R14, D59) *args / **kwargs are never "required": python accepts the call that leaves them out
    run.rule("C07.R14", "the refusal 'argument is required' is not reached for a *args / **kwargs parameter of the declaration (a call python accepts)")
    for r_ in raises:
        spared = any(_variadic_fact(a, pol) is False for a, pol in Facts(fa, r_).atoms) or contains(loop_it0, lambda s_: s_[0] == "attr" and s_[2] == "kind")
        run.check(spared, "C07.R14", fd, r_, "variadic parameters are passed over before a value is demanded", "every parameter of the signature without a default is demanded, *args and **kwargs included: a method declared va(self, a=1, *rest) can not be called as t.va() ('Argument rest is required') although python accepts the call", "if param.kind in (param.VAR_POSITIONAL, param.VAR_KEYWORD): continue", key="variadic parameter demanded as a required argument")
    # appends into the positional array
    apps = [c for c in ast.walk(lp) if isinstance(c, ast.Call) and isinstance(c.func, ast.Attribute) and c.func.attr == "append"]
    app_alts = []
    for c_ in apps:
        if c_.args and fa.cfg.has_node(c_):
            app_alts += unphi_terms(strip_sites(fa.term_of(c_.args[0])))
    has_kw = any(a[0] == "index" and a[2] == 0 and a[1][0] == "app" and a[1][1][0] == "global" and a[1][1][1].endswith("_find_keyword") for a in app_alts)
    has_dflt = any(a[0] == "app" and a[1][0] == "global" and a[1][1].endswith("as_literal") for a in app_alts)
    run.check(has_kw and has_dflt and 1 <= len(apps) <= 2, "C07.R2", fd, lp, "keyword value and default are appended to the positional arguments", f"{len(apps)} appends in the filling loop; appended values: {[show(a)[:40] for a in app_alts]}")
    # rebuilt call
    L, faL = fd, fa
    fd, fa, callp = fd0, fa0, callp0
    cfg = fa.cfg
    rt = strip_sites(fa.return_term())
    from ..lib import tuple_component

    comp0 = tuple_component(rt, 0, 2)
    call_alts = unphi_terms(comp0) if comp0 is not None else []
    rebuilt = [a for a in call_alts if a[0] == "upd"]
    run.check(callp in call_alts and len(rebuilt) == 1, "C07.R2", fd, fd.node, "returns the original call or one rebuilt copy", f"_fill_in_default_arguments returns {show(rt)[:140]}")
    for a in rebuilt:
        d = dict(a[2])
        run.check(a[1] == ("app", ("global", "copy.copy"), (callp,), ()), "C07.R2", fd, fd.node, "rebuilt call is a copy.copy of the call", f"rebuilt call is based on {show(a[1])[:60]}: the original node is edited in place")
        args_ok = d.get("args") is not None and contains(d["args"], lambda s: s == ("attr", callp, "args"))
        kw_ok = d.get("keywords") is not None and contains(d["keywords"], lambda s: s == ("attr", callp, "keywords"))
        run.check(args_ok, "C07.R2", fd, fd.node, "rebuilt call carries the filled positional list", "rebuilt call does not carry the new positional arguments")
        run.check(kw_ok, "C07.R2", fd, fd.node, "rebuilt call carries the reduced keywords", "rebuilt call does not carry the reduced keyword list: keywords moved to positional slots are emitted twice")
        run.check(d.get("_old_ast") == callp, "C07.R3", fd, fd.node, "rebuilt call links back to the node it replaces", "the rebuilt call has no _old_ast back-link: changes inside nested lambdas cannot be patched into the lambda that is emitted")
    _check_find_keyword(run, m, mod)

    # ---------------- R3 patch-back
    check_patch_back(run, ctx, m, mod, "C07.R3")

    # ---------------- R4
    pm = _view(m, m.find_func("process_method_call", in_module=mod), keep=("_fill_in_default_arguments", "type_follow_in_callbacks", "process_method_callbacks", "get_method_and_class", "_find_keyword"))
    ctx_pm = TermCtx(m, max_depth=1, opaque={"as_literal", "_find_keyword", "resolve_type_vars", "get_type_hints", "_fill_in_default_arguments", "type_follow_in_callbacks", "process_method_callbacks", "get_method_and_class"})
    from ..lib import site_owner

    pm0 = pm
    pm, pm_inv = site_owner(m, ctx_pm, pm0, "_fill_in_default_arguments")
    pm_node = pm_inv.get(("param", pm0.pos_params[1]), ("param", pm0.pos_params[1])) if pm is not pm0 else ("param", pm0.pos_params[1])
    fp = ctx_pm.analysis(pm)
    sites = [c for c in calls_in(pm) if isinstance(c.func, ast.Name) and c.func.id == "_fill_in_default_arguments"]
    run.check(len(sites) == 1, "C07.R4", pm, pm.node, "one filling site for method calls", f"{len(sites)} _fill_in_default_arguments sites in process_method_call")
    for c in sites:
        exempt = False
        flag = None
        for k in c.keywords:
            flag = k.value
        if len(c.args) >= 3:
            flag = c.args[2]
        if flag is not None:
            t = strip_sites(fp.term_of(flag))
            exempt = t[0] == "op" and t[1] == "Compare:IsNot" and t[2][0][0] == "attr" and t[2][0][2] == "method_class" and t[2][1][0] == "global" and t[2][1][1].endswith("ObjectStream")
            # the callee must honour the flag
            fpar = None
            if c.keywords:
                fpar = c.keywords[-1].arg
            elif len(fd.pos_params) >= 3:
                fpar = fd.pos_params[2]
            fpar0 = fpar
            if fpar is not None and inv is not None:
                fpar = inv.get(("param", fpar), (None, None))[1]
            it = strip_sites(faL.term_of(lp.iter, faL.cfg.node_of(lp)))
            if it[0] == "app" and it[1] == ("global", "builtins.enumerate") and len(it[2]) == 1:
                it = it[2][0]
            if _skip_form(it) is not None:
                it = _skip_form(it)[0]  # passing over the first n of no parameters leaves none
            while it[0] == "comp" and len(it[3]) == 1 and it[2] == ("elem", it[3][0][0]):
                it = it[3][0][0]  # a filter over the parameters (p for p in parameters if p.name != "self") is empty when they are
            if fpar is None and fpar0 is not None:
                # the flag is consumed in _fill_in_default_arguments itself, which hands the helper an empty list when it is false
                it0 = loop_it0[2][0] if loop_it0[0] == "app" and loop_it0[1] == ("global", "builtins.enumerate") and len(loop_it0[2]) == 1 else loop_it0
                if it0[0] == "ifexp" and it0[1] == ("param", fpar0) and it0[3] == ("list", ()):
                    it, fpar = it0, fpar0
            honoured = fpar is not None and (any(a == ("list", ()) for a in unphi_terms(it)) or it[0] == "ifexp") and contains(it, lambda s: s == ("param", fpar)) or (fpar is not None and any(isinstance(a, ast.Name) and a.id == fpar and pol for a, pol in Facts(faL, lp).atoms))
            if not honoured and fpar is not None and isinstance(lp.iter, ast.Name) and any(a == ("list", ()) for a in unphi_terms(it)):
                # statement form: parameters = [] is the definition made when the flag is false, the other one when it is true
                defs_ = [n_ for n_ in own_nodes(L) if isinstance(n_, ast.Assign) and len(n_.targets) == 1 and isinstance(n_.targets[0], ast.Name) and n_.targets[0].id == lp.iter.id]
                ok_defs = len(defs_) == 2
                for d_ in defs_:
                    empty = strip_sites(faL.term_of(d_.value, faL.cfg.node_of(d_))) == ("list", ())
                    flag_true = any(isinstance(a, ast.Name) and a.id == fpar and pol for a, pol in Facts(faL, d_).atoms)
                    flag_false = any(isinstance(a, ast.Name) and a.id == fpar and not pol for a, pol in Facts(faL, d_).atoms)
                    ok_defs = ok_defs and ((empty and flag_false) or (not empty and flag_true))
                honoured = ok_defs
            # ifexp(flag, params, [])
            if it[0] == "ifexp":
                honoured = it[1] == ("param", fpar) and it[3] == ("list", ())
            exempt = exempt and honoured
        else:
            fx = Facts(fp, c)
            exempt = any(isinstance(a, ast.Compare) and isinstance(a.ops[0], (ast.IsNot, ast.Is)) and "method_class" in ast.unparse(a.left) and ast.unparse(a.comparators[0]).endswith("ObjectStream") and (isinstance(a.ops[0], ast.IsNot) == pol) for a, pol in fx.atoms)
        run.check(exempt, "C07.R4", pm, stmt_of(c), "methods defined on ObjectStream are not given defaults", "calls resolved to the library's own stream operators (methods defined on ObjectStream) are normalised like user methods: their internal known_types={} parameter is materialised in the emitted query", "skip filling when base_obj.method_class is ObjectStream")
        a0 = strip_sites(fp.term_of(c.args[0]))
        run.check(a0[0] == "attr" and a0[2] == "method", "C07.R2", pm, stmt_of(c), "the signature used is the resolved method's", f"filling uses {show(a0)[:60]} as the signature")
    # the normalised node (not the call as written) is what type following / callbacks continue with - wherever in
    # process_method_call's unit the continuation and the candidate records are written
    from ..lib import known_empty, unit as _unit

    ctx_u = TermCtx(m, max_depth=2, opaque=set(ctx_pm.opaque))

    def _is_filled(t) -> bool:
        alts = unphi_terms(t)
        return bool(alts) and all(a_[0] == "index" and a_[2] == 0 and a_[1][0] == "app" and a_[1][1][0] == "global" and a_[1][1][1].endswith("_fill_in_default_arguments") for a_ in alts)

    u_fns = [g_ for g_ in _unit(m, pm0) if g_ is pm0 or g_.name.startswith("_")]  # process_method_call and what was split off it
    users = [(g_, c) for g_ in u_fns for c in calls_in(g_) if isinstance(c.func, ast.Attribute) and c.func.attr == "type_follow_in_callbacks"]
    run.check(len(users) == 1, "C07.R2", pm0, pm0.node, "one continuation of type following with the normalised call", f"{len(users)} type_follow_in_callbacks sites")
    for g_, c in users:
        fg_ = ctx_u.analysis(g_)
        a2 = strip_sites(fg_.term_of(c.args[2])) if len(c.args) > 2 and fg_.cfg.has_node(c) else None
        run.check(a2 is not None and _is_filled(a2), "C07.R2", g_, stmt_of(c), "collection operators are followed on the normalised call", f"type following of collection-class methods continues with {show(a2)[:60] if a2 else '?'} instead of the normalised call: defaults and keyword order of e.g. a typed Select are lost")
    infos = [(g_, c) for g_ in u_fns for c in calls_in(g_) if isinstance(c.func, ast.Name) and c.func.id == "_MethodTypeReturnInfo"]
    for g_, c in infos:
        kw = {k.arg: k.value for k in c.keywords}
        if "node" in kw:
            fg_ = ctx_u.analysis(g_)
            if not fg_.cfg.has_node(c):
                continue
            nt = strip_sites(fg_.term_of(kw["node"]))
            # the raw call only when no definition was found: the record is made where the result list is known to be empty
            # (in the function that appends it, or at the call of the helper that builds it)
            raw_ok = False
            if not _is_filled(nt):
                holders = [(g_, c)]
                if g_ is not pm0:
                    holders += [(c_, call) for c_, call, _sk in call_sites_of(m, g_) if any(c_ is u for u in u_fns)]
                for h_, where in holders:
                    fh_ = ctx_u.analysis(h_)
                    res_lists = {x.func.value.id for x in calls_in(h_) if isinstance(x.func, ast.Attribute) and x.func.attr == "append" and isinstance(x.func.value, ast.Name) and any(y is where for a_ in x.args for y in ast.walk(a_))}
                    at_ = where
                    st_w = stmt_of(where)
                    if not res_lists and isinstance(st_w, ast.Assign) and st_w.value is where and len(st_w.targets) == 1 and isinstance(st_w.targets[0], ast.Name):
                        # the record is named first and appended in a following statement of the same block
                        tmp_ = st_w.targets[0].id
                        from ..model import parent as _par2

                        blk_ = next((getattr(_par2(st_w), f_) for f_ in ("body", "orelse", "finalbody") if isinstance(getattr(_par2(st_w), f_, None), list) and any(y is st_w for y in getattr(_par2(st_w), f_))), [])
                        nxt_ = blk_[[i for i, y in enumerate(blk_) if y is st_w][0] + 1:][:1] if blk_ else []
                        apps_ = [x.value for x in nxt_ if isinstance(x, ast.Expr) and isinstance(x.value, ast.Call) and isinstance(x.value.func, ast.Attribute) and x.value.func.attr == "append" and isinstance(x.value.func.value, ast.Name) and len(x.value.args) == 1 and isinstance(x.value.args[0], ast.Name) and x.value.args[0].id == tmp_]
                        if len(apps_) == 1:
                            res_lists = {apps_[0].func.value.id}
                            at_ = apps_[0]
                    if fh_.cfg.has_node(at_) and any(known_empty(Facts(fh_, at_).atoms, nm) is True for nm in res_lists):
                        raw_ok = True
                    if not raw_ok and not res_lists and isinstance(st_w, ast.Assign) and st_w.value is where and len(st_w.targets) == 1 and isinstance(st_w.targets[0], ast.Name):
                        # latest-result slot instead of a list: the record goes into a variable that is known to be None
                        # here (nothing recorded so far), directly or through a name made in the statement before
                        from ..model import parent as _par3

                        blk3 = next((getattr(_par3(st_w), f_) for f_ in ("body", "orelse", "finalbody") if isinstance(getattr(_par3(st_w), f_, None), list) and any(y is st_w for y in getattr(_par3(st_w), f_))), [])
                        nxt3 = blk3[[i for i, y in enumerate(blk3) if y is st_w][0] + 1:][:1] if blk3 else []
                        slot3 = [st_w] + [x for x in nxt3 if isinstance(x, ast.Assign) and len(x.targets) == 1 and isinstance(x.targets[0], ast.Name) and isinstance(x.value, ast.Name) and x.value.id == st_w.targets[0].id]
                        for s3 in slot3:
                            if fh_.cfg.has_node(s3) and any(pol and isinstance(a, ast.Compare) and len(a.ops) == 1 and isinstance(a.ops[0], ast.Is) and isinstance(a.left, ast.Name) and a.left.id == s3.targets[0].id and isinstance(a.comparators[0], ast.Constant) and a.comparators[0].value is None for a, pol in Facts(fh_, s3).atoms):
                                raw_ok = True
            # "nothing could be typed" is not "no definition was found": where a definition exists its declared arguments are
            # known, and the record of last resort carries the call normalised against it (the raw call only beside it, for
            # the case that there is no definition at all)
            def _leaves(t_):
                if t_[0] == "ifexp":
                    return _leaves(t_[2]) + _leaves(t_[3])
                if t_[0] == "phi":
                    return [y_ for x_ in t_[1] for y_ in _leaves(x_)]
                return [t_]

            nts = [nt]
            if g_ is not pm0 and nt[0] == "param" and nt[1] in g_.pos_params:
                # the record is made by a private helper: what it carries is what its call sites hand it
                nts = []
                for c_, call, sk_ in call_sites_of(m, m.funcs.get(g_.qual, g_)):
                    if not any(c_ is u or c_.name == u.name for u in u_fns):
                        continue
                    k_ = g_.pos_params[sk_:].index(nt[1]) if nt[1] in g_.pos_params[sk_:] else None
                    actual = call.args[k_] if k_ is not None and k_ < len(call.args) else next((kw_.value for kw_ in call.keywords if kw_.arg == nt[1]), None)
                    fc_ = ctx_u.analysis(c_)
                    if actual is not None and fc_.cfg.has_node(actual):
                        nts.append(strip_sites(fc_.term_of(actual)))
                nts = nts or [nt]
            some_filled = any(_is_filled(x_) for t0_ in nts for x_ in _leaves(t0_))
            if not some_filled and any(x_[0] == "index" and x_[1] in (("list", ()), ("app", ("global", "builtins.list"), (), ())) for t0_ in nts for x_ in _leaves(t0_)):
                # the normalised calls are collected in a list (empty at first, appended to per candidate) and the first is
                # taken: what the list holds is what is appended to it
                fgl_ = ctx_u.analysis(g_)
                for ap_ in [c2 for c2 in calls_in(g_) if isinstance(c2.func, ast.Attribute) and c2.func.attr == "append" and isinstance(c2.func.value, ast.Name) and len(c2.args) == 1 and fgl_.cfg.has_node(c2)]:
                    if strip_sites(fgl_.term_of(ap_.func.value)) in (("list", ()), ("app", ("global", "builtins.list"), (), ())) and _is_filled(strip_sites(fgl_.term_of(ap_.args[0]))):
                        some_filled = True
            if raw_ok and not _is_filled(nt) and not some_filled:
                run.fail("C07.R2", g_, stmt_of(c), "when no candidate can be typed the record of last resort carries the call as written, although a definition of the method was found and normalised against: e.coll() for def coll(self, n: int = 3) -> <an annotation that cannot be resolved> stays e.coll() instead of e.coll(3), and keywords stay keywords", "node=<the normalised call of the first candidate> (the raw call only if there is no candidate)", show(nt)[:200], key="normalised call dropped when the return type is unknown")
            else:
                run.check(_is_filled(nt) or raw_ok or some_filled, "C07.R2", g_, stmt_of(c), "candidate results carry the normalised call (the raw call only when no definition was found)", f"a candidate result carries {show(nt)[:60]} instead of the normalised call")

    # the candidate loop ends at the first fully resolved candidate, whichever way that candidate was resolved: the test that
    # leaves the loop is reached on every pass through the loop body
    run.rule("C07.R8", "the loop over method candidates tests 'fully resolved -> stop' after every candidate (a less specific candidate must not overwrite a resolved one)")
    n_brk = 0
    for g_ in u_fns:
        fg_ = ctx_u.analysis(g_)
        for lp_ in [x for x in own_nodes(g_) if isinstance(x, ast.For)]:
            brks = [b for b in ast.walk(lp_) if isinstance(b, ast.Break)]
            if not brks or not any(isinstance(x, ast.Attribute) and x.attr == "full_type_resolution" for x in ast.walk(lp_)):
                continue
            for b in brks:
                from ..model import parent as _par

                gov = _par(b)
                if not isinstance(gov, ast.If) or not any(isinstance(x, ast.Attribute) and x.attr == "full_type_resolution" for x in ast.walk(gov.test)):
                    continue
                n_brk += 1
                first = next((st_ for st_ in lp_.body if fg_.cfg.has_node(st_)), None)
                every_pass = first is not None and (_par(gov) is lp_ or fg_.cfg.postdominates(fg_.cfg.node_of(gov), fg_.cfg.node_of(first)))
                run.check(every_pass, "C07.R8", g_, gov, "the stop test is made on every pass through the candidate loop", "the test that ends the candidate loop once a candidate is fully resolved is only reached on some paths through the loop body (e.g. only after call-back following): a candidate resolved from its annotations alone does not end the loop, and the next, less specific candidate (the collection class's own Count / First) normalises the call instead", "if len(return_results) > 0 and return_results[-1].full_type_resolution: break  # at loop-body level", key="candidate loop does not stop at a resolved candidate")
    run.floor("C07.R8", n_brk, 1, "stop tests in the candidate loop")

    pf = m.find_func("process_function_call", in_module=mod)
    fsites = [c for c in calls_in(pf) if isinstance(c.func, ast.Name) and c.func.id == "_fill_in_default_arguments"]
    run.check(len(fsites) == 1 and ast.unparse(fsites[0].args[0]).endswith(".function"), "C07.R2", pf, pf.node, "registered functions are normalised against their declared signature", "process_function_call no longer normalises against func_info.function")

    # ---------------- R5
    check_env_merge(run, m, "C07.R5")

    # ---------------- R6
    check_inherited_lookup(run, m, "C07.R6")
    # a typed call reached through a field of a dictionary literal is only normalised if the literal was typed
    from ..lib import used_visitor
    from .c10 import check_dict_typing

    run.rule("C07.R7", "dictionary literals are typed whenever their keys can be dataclass fields (shared with C08.R7 / C10.R3)")
    tctx = TermCtx(m, max_depth=1, opaque={"lookup_type", "remap_by_types"})
    check_dict_typing(run, tctx, m, used_visitor(m, tctx, m.find_func("remap_by_types", in_module=mod), True), "C07.R7")
    # calls inside lambdas handed to the operators of a sequence are only normalised if the sequence is recognised as one and the lambda is followed
    from .c08 import check_iterable_test, check_nested_lambda_followed

    check_iterable_test(run, m, "C07.R9")
    check_nested_lambda_followed(run, m, used_visitor(m, tctx, m.find_func("remap_by_types", in_module=mod), True), "C07.R10")
    # "omitting a parameter that has no default raises ValueError": nothing on the way may catch it
    from .c10 import check_refusals_propagate

    check_refusals_propagate(run, m, "C07.R11")
    run.rule("C07.R12", "the three operators hand remap_from_lambda the types of the enclosing lambdas' variables (known_types) - a nested operator's lambda is followed knowing them (C01.R1-R3 re-evaluated)")
    from ..report import Relabel as _Rl
    from .c01 import check_plumbing as _plumb

    _plumb(_Rl(run, "C07.R12"), m)
    check_keyword_operands(run, m, used_visitor(m, tctx, m.find_func("remap_by_types", in_module=mod), True), "C07.R13")


def check_keyword_operands(run: Run, m, tt, rule: str) -> None:
    """A stream operator inside a lambda may be given its lambda by keyword (e.Jets().Select(f=lambda j: ..)): python
    accepts the call, so the arguments have to come out as written and the lambda has to be followed (D58). Two places
    decide on the *positional* arguments of the call; both must look at the keywords as well:
      (a) the operator of the collection class is called without arguments only when the call has no keyword either
          (else: TypeError, missing 1 required positional argument);
      (b) the search for a lambda among the arguments, which decides whether the annotation alone types the call."""
    from ..lib import view

    run.rule(rule, "a lambda given by keyword to a stream operator inside a lambda is seen: the no-argument call of the operator and the search for lambda arguments both consider the call's keywords")
    so = tt.methods.get("process_method_call_on_stream_obj")
    pm = tt.methods.get("process_method_call")
    if so is None or pm is None:
        raise AnalysisError("anchor vanished: type_transformer.process_method_call_on_stream_obj / process_method_call")
    so = view(m, so)
    fa = TermCtx(m, max_depth=1).analysis(so)
    # the bound operator: <name> = getattr(<collection object>, <method name>, ..)
    bound = {n.targets[0].id for n in own_nodes(so) if isinstance(n, ast.Assign) and len(n.targets) == 1 and isinstance(n.targets[0], ast.Name) and isinstance(n.value, ast.Call) and isinstance(n.value.func, ast.Name) and n.value.func.id == "getattr"}
    calls = [c for c in own_nodes(so) if isinstance(c, ast.Call) and ((isinstance(c.func, ast.Name) and c.func.id in bound) or (isinstance(c.func, ast.Call) and isinstance(c.func.func, ast.Name) and c.func.func.id == "getattr")) and fa.cfg.has_node(c)]
    run.floor(rule, len(calls), 1, "calls of the collection class's operator in process_method_call_on_stream_obj")
    bare = [c for c in calls if not c.args and not c.keywords]
    for c in bare:
        fx_c = Facts(fa, c)

        def _mentions_keywords(a):
            if any(isinstance(x, ast.Attribute) and x.attr == "keywords" for x in ast.walk(a)):
                return True
            # n_given = len(call.args) + len(call.keywords); if n_given == 0: ..
            for x in ast.walk(a):
                if isinstance(x, ast.Name) and isinstance(x.ctx, ast.Load):
                    try:
                        t_ = fx_c._term(x)
                    except Exception:  # noqa: BLE001 - a name the term engine cannot place
                        continue
                    if contains(t_, lambda q: q[0] == "attr" and q[2] == "keywords"):
                        return True
            return False

        knows = any(_mentions_keywords(a) for a, _pol in fx_c.atoms)
        # where the guard is arithmetic on the two counts, it is evaluated: it may hold for no call with a keyword
        if knows:
            admits = _counts_admitted(so, [(a, pol) for a, pol in fx_c.atoms])
            if admits is not None:
                knows = not any(nk > 0 for _na, nk in admits)
        run.check(knows, rule, so, stmt_of(c), "the operator is called without arguments only when the call site has no keyword argument", "the collection class's operator is called with no arguments whenever the call site has no *positional* argument: e.Jets().Select(f=lambda j: j.pt()) dies with TypeError (missing 1 required positional argument) instead of keeping the arguments as written", "if len(call_node.args) + len(call_node.keywords) == 0: r = call_method()", key="keyword operand of a nested stream operator dropped")
    pm = view(m, pm)
    n = 0
    binds = {}
    for x in own_nodes(pm):
        if isinstance(x, ast.Assign) and len(x.targets) == 1 and isinstance(x.targets[0], ast.Name):
            binds.setdefault(x.targets[0].id, []).append(x.value)
    parents = {}
    for x in ast.walk(pm.node):
        for ch in ast.iter_child_nodes(x):
            parents[id(ch)] = x

    def _attrs(e, depth=0):
        out = {x.attr for x in ast.walk(e) if isinstance(x, ast.Attribute)}
        if depth < 3:
            for x in ast.walk(e):
                if isinstance(x, ast.Name) and isinstance(x.ctx, ast.Load) and len(binds.get(x.id, [])) == 1:
                    out |= _attrs(binds[x.id][0], depth + 1)
                    # .. and what is added to it afterwards: c.append(kw.value) in `for kw in node.keywords`, c.extend(..), c += ..
                    for y in ast.walk(pm.node):
                        grown = None
                        if isinstance(y, ast.Call) and isinstance(y.func, ast.Attribute) and y.func.attr in ("append", "extend", "insert") and isinstance(y.func.value, ast.Name) and y.func.value.id == x.id:
                            grown = y
                        elif isinstance(y, ast.AugAssign) and isinstance(y.target, ast.Name) and y.target.id == x.id:
                            grown = y
                        if grown is None:
                            continue
                        for a_ in (grown.args if isinstance(grown, ast.Call) else [grown.value]):
                            out |= _attrs(a_, depth + 1)
                        up_ = grown
                        while id(up_) in parents:
                            up_ = parents[id(up_)]
                            if isinstance(up_, ast.For):
                                out |= _attrs(up_.iter, depth + 1)
        return out

    fed = [k for k in ast.walk(pm.node) if isinstance(k, ast.keyword) and k.arg == "full_type_resolution"]
    for t_ in [c for c in own_nodes(pm) if isinstance(c, ast.Call) and isinstance(c.func, ast.Name) and c.func.id == "isinstance" and len(c.args) == 2 and ast.unparse(c.args[1]).endswith("Lambda") and isinstance(c.args[0], ast.Name)]:
        var = t_.args[0].id
        # what is searched: the iterable of the comprehension clause / for loop that binds the tested name
        searched, flag_names, direct, up = None, set(), False, t_
        while id(up) in parents:
            up = parents[id(up)]
            if searched is None and isinstance(up, (ast.GeneratorExp, ast.ListComp, ast.SetComp)):
                for g in up.generators:
                    if isinstance(g.target, ast.Name) and g.target.id == var:
                        searched = g.iter
            if searched is None and isinstance(up, ast.For) and isinstance(up.target, ast.Name) and up.target.id == var:
                searched = up.iter
            if isinstance(up, ast.If) and any(x is t_ for x in ast.walk(up.test)):
                flag_names |= {tg.id for s_ in ast.walk(up) if isinstance(s_, ast.Assign) for tg in s_.targets if isinstance(tg, ast.Name)}
            if isinstance(up, (ast.Assign, ast.AnnAssign)):
                flag_names |= {tg.id for tg in (up.targets if isinstance(up, ast.Assign) else [up.target]) if isinstance(tg, ast.Name)}
            if isinstance(up, ast.keyword) and up.arg == "full_type_resolution":
                direct = True
        if searched is None:
            continue
        attrs = _attrs(searched)
        if "args" not in attrs:
            continue
        exprs_ = [searched] + [binds[x.id][0] for x in ast.walk(searched) if isinstance(x, ast.Name) and len(binds.get(x.id, [])) == 1]
        filt_ = [g for e_ in exprs_ for c_ in ast.walk(e_) if isinstance(c_, (ast.ListComp, ast.GeneratorExp)) for g in c_.generators if g.ifs and any(isinstance(y, ast.Attribute) and y.attr == "keywords" for y in ast.walk(g.iter))]
        if filt_:
            # a filter that looks at the keyword's *name* only leaves out keywords whatever their value is - a lambda too
            by_name_only = all(isinstance(g.target, ast.Name) and not any(isinstance(y, ast.Attribute) and y.attr == "value" for f_ in g.ifs for y in ast.walk(f_)) and any(isinstance(y, ast.Attribute) and y.attr == "arg" and isinstance(y.value, ast.Name) and y.value.id == g.target.id for f_ in g.ifs for y in ast.walk(f_)) for g in filt_)
            if by_name_only:
                n += 1
                run.fail(rule, pm, stmt_of(t_), f"only the keyword values that pass a test on the keyword's name ({ast.unparse(filt_[0].ifs[0])[:60]}) are searched for a lambda: a lambda given under another name is not counted, the annotation alone types the call and the lambda is never followed", "search every keyword value", key="keyword lambda not counted as a lambda argument")
                continue
            raise AnalysisError("process_method_call searches only some of the call's keyword values for a lambda (a filtered comprehension over .keywords): which ones cannot be decided here")
        # only the search that decides `full_type_resolution` (another one merely words a warning)
        if not (direct or any(isinstance(x, ast.Name) and x.id in flag_names for k in fed for x in ast.walk(k.value))):
            continue
        n += 1
        run.check("keywords" in attrs, rule, pm, stmt_of(t_), "the search for a lambda argument covers keyword values", "only the positional arguments of the call are searched for a lambda: with e.Jets().Where(filter=lambda j: ..) the annotation of Where alone is taken as the full answer, the filter is never followed (calls in it keep their omitted parameters) and what comes after it is typed from ObjectStream[Jet] instead of Iterable[Jet] (Count() -> Any)", "any(isinstance(a, ast.Lambda) for a in node.args + [kw.value for kw in node.keywords])", key="keyword lambda not counted as a lambda argument")
    run.floor(rule, n, 1, "searches for a lambda among a call's arguments in process_method_call")


def _counts_admitted(fi, atoms):
    """the (number of positional arguments, number of keywords) pairs in 0..2 x 0..2 for which all atoms hold; None when
    an atom that speaks of the counts is outside the evaluated language (len of .args / .keywords, names bound once to
    such expressions, + - comparisons, and/or/not)"""
    binds = {}
    for n in own_nodes(fi):
        if isinstance(n, ast.Assign) and len(n.targets) == 1:
            tg = n.targets[0]
            if isinstance(tg, ast.Name):
                binds.setdefault(tg.id, []).append(n.value)
            elif isinstance(tg, ast.Tuple) and isinstance(n.value, ast.Tuple) and len(tg.elts) == len(n.value.elts):
                for t_, v_ in zip(tg.elts, n.value.elts):
                    if isinstance(t_, ast.Name):
                        binds.setdefault(t_.id, []).append(v_)

    class _No(Exception):
        pass

    def ev(e, na, nk, depth=0):
        if depth > 6:
            raise _No
        if isinstance(e, ast.Constant) and isinstance(e.value, (int, bool)):
            return e.value
        if isinstance(e, ast.Call) and isinstance(e.func, ast.Name) and e.func.id == "len" and len(e.args) == 1 and isinstance(e.args[0], ast.Attribute) and e.args[0].attr in ("args", "keywords"):
            return na if e.args[0].attr == "args" else nk
        if isinstance(e, ast.Attribute) and e.attr in ("args", "keywords"):
            return [None] * (na if e.attr == "args" else nk)  # truthiness of the list
        if isinstance(e, ast.Name) and len(binds.get(e.id, [])) == 1:
            return ev(binds[e.id][0], na, nk, depth + 1)
        if isinstance(e, ast.BinOp) and isinstance(e.op, (ast.Add, ast.Sub)):
            l, r = ev(e.left, na, nk, depth + 1), ev(e.right, na, nk, depth + 1)
            if isinstance(l, list) or isinstance(r, list):
                raise _No
            return l + r if isinstance(e.op, ast.Add) else l - r
        if isinstance(e, ast.UnaryOp) and isinstance(e.op, ast.Not):
            return not ev(e.operand, na, nk, depth + 1)
        if isinstance(e, ast.BoolOp):
            vs = [bool(ev(v, na, nk, depth + 1)) for v in e.values]
            return all(vs) if isinstance(e.op, ast.And) else any(vs)
        if isinstance(e, ast.Compare) and len(e.ops) == 1:
            l, r = ev(e.left, na, nk, depth + 1), ev(e.comparators[0], na, nk, depth + 1)
            if isinstance(l, list) or isinstance(r, list):
                raise _No
            o = e.ops[0]
            for k_, f_ in ((ast.Eq, lambda: l == r), (ast.NotEq, lambda: l != r), (ast.Lt, lambda: l < r), (ast.LtE, lambda: l <= r), (ast.Gt, lambda: l > r), (ast.GtE, lambda: l >= r)):
                if isinstance(o, k_):
                    return f_()
        raise _No

    def speaks(a):
        for x in ast.walk(a):
            if isinstance(x, ast.Attribute) and x.attr in ("args", "keywords"):
                return True
            if isinstance(x, ast.Name) and len(binds.get(x.id, [])) == 1 and any(isinstance(y, ast.Attribute) and y.attr in ("args", "keywords") for y in ast.walk(binds[x.id][0])):
                return True
        return False

    rel = [(a, pol) for a, pol in atoms if speaks(a)]
    if not rel:
        return None
    out = []
    for na in range(3):
        for nk in range(3):
            try:
                if all(bool(ev(a, na, nk)) == pol for a, pol in rel):
                    out.append((na, nk))
            except _No:
                return None
    return out


def _variadic_fact(a: ast.AST, pol: bool):
    """True: this path is for a `*args` / `**kwargs` parameter; False: for another kind; None: unrelated."""
    if isinstance(a, ast.BoolOp) and isinstance(a.op, ast.Or) and pol:
        # kind is VAR_POSITIONAL or kind is VAR_KEYWORD
        subs = [_variadic_fact(v, True) for v in a.values]
        return True if subs and all(x is True for x in subs) else None
    if isinstance(a, ast.BoolOp) and isinstance(a.op, ast.And) and not pol:
        # not (kind is not VAR_POSITIONAL and kind is not VAR_KEYWORD)
        subs = [_variadic_fact(v, False) for v in a.values]
        return True if subs and all(x is True for x in subs) else None
    if isinstance(a, ast.Compare) and len(a.ops) == 1 and isinstance(a.left, ast.Attribute) and a.left.attr == "kind":
        c0 = a.comparators[0]
        names = [x.attr if isinstance(x, ast.Attribute) else getattr(x, "id", None) for x in (c0.elts if isinstance(c0, (ast.Tuple, ast.List, ast.Set)) else [c0])]
        if names and all(n_ in ("VAR_POSITIONAL", "VAR_KEYWORD") for n_ in names):
            if isinstance(a.ops[0], (ast.In, ast.Eq, ast.Is)):
                return pol
            if isinstance(a.ops[0], (ast.NotIn, ast.NotEq, ast.IsNot)):
                return not pol
        if names and all(n_ in ("POSITIONAL_ONLY", "POSITIONAL_OR_KEYWORD", "KEYWORD_ONLY") for n_ in names) and {"POSITIONAL_ONLY", "POSITIONAL_OR_KEYWORD", "KEYWORD_ONLY"} <= set(names):
            if isinstance(a.ops[0], ast.In):
                return not pol
            if isinstance(a.ops[0], ast.NotIn):
                return pol
    return None


def _self_fact(a: ast.AST, pol: bool):
    """True: this path is for the `self` parameter; False: non-self; None: unrelated."""
    if isinstance(a, ast.Compare) and len(a.ops) == 1 and isinstance(a.comparators[0], ast.Constant) and a.comparators[0].value == "self":
        if isinstance(a.ops[0], ast.NotEq):
            return not pol
        if isinstance(a.ops[0], ast.Eq):
            return pol
    return None


def _check_find_keyword(run: Run, m, mod: str) -> None:
    fk = m.find_func("_find_keyword", in_module=mod)
    ctx = TermCtx(m, max_depth=1)
    fa = ctx.analysis(fk)
    kws, name = ("param", fk.pos_params[0]), ("param", fk.pos_params[1])
    found = 0
    for s, n in fa.returns():
        t = strip_sites(fa.term_of(s.value, n))
        if t[0] != "tuple" or len(t[1]) != 2:
            run.fail("C07.R2", fk, s, f"_find_keyword returns {show(t)[:80]}, expected (value, remaining keywords)")
            continue
        val, rest = t[1]
        if val == ("const", None):
            run.check(rest == kws, "C07.R2", fk, s, "not found: keywords returned unchanged", f"when the name is not found the keywords become {show(rest)[:60]}")
            continue
        found += 1
        fx = Facts(fa, s)
        ok_match = any(pol and isinstance(a, ast.Compare) and isinstance(a.ops[0], ast.Eq) and {ast.unparse(a.left).split(".")[-1], ast.unparse(a.comparators[0]).split(".")[-1]} >= {"arg"} and name in (strip_sites(fa.term_of(a.left)), strip_sites(fa.term_of(a.comparators[0]))) for a, pol in fx.atoms)
        if not ok_match and val[0] == "attr":
            # found = next((k for k in keywords if k.arg == name), None): the first keyword satisfying the condition
            sel = val[1]
            if sel[0] == "app" and sel[1] == ("global", "builtins.next") and len(sel[2]) == 2 and sel[2][1] == ("const", None):
                g = sel[2][0]
                if g[0] == "comp" and g[1] in ("GeneratorExp", "ListComp") and g[2] == ("elem", kws) and len(g[3]) == 1 and g[3][0][0] == kws and len(g[3][0][1]) == 1:
                    c_ = g[3][0][1][0]
                    arg_t = ("attr", ("elem", kws), "arg")
                    ok_match = c_[0] == "op" and c_[1] == "Compare:Eq" and set(c_[2]) == {arg_t, name} and fx.compare_const(sel, [ast.IsNot], None)
        if not ok_match and val[0] == "attr" and isinstance(s.value, ast.Tuple) and isinstance(s.value.elts[0], ast.Attribute) and isinstance(s.value.elts[0].value, ast.Name):
            # found = None; for kw in keywords: if kw.arg == name: found = kw; break  ...  return found.value, ..
            var = s.value.elts[0].value.id
            defs_ = [n_ for n_ in own_nodes(fk) if isinstance(n_, ast.Assign) and len(n_.targets) == 1 and isinstance(n_.targets[0], ast.Name) and n_.targets[0].id == var]
            sel = [d_ for d_ in defs_ if not (isinstance(d_.value, ast.Constant) and d_.value.value is None)]
            if len(sel) == 1 and len(defs_) <= 2 and strip_sites(fa.term_of(sel[0].value, fa.cfg.node_of(sel[0]))) == ("elem", kws):
                fxd = Facts(fa, sel[0])
                ok_match = any(pol and isinstance(a, ast.Compare) and isinstance(a.ops[0], ast.Eq) and {ast.unparse(a.left).split(".")[-1], ast.unparse(a.comparators[0]).split(".")[-1]} >= {"arg"} and name in (strip_sites(fa.term_of(a.left)), strip_sites(fa.term_of(a.comparators[0]))) for a, pol in fxd.atoms) and fx.compare_const(strip_sites(fa.term_of(s.value.elts[0].value)), [ast.IsNot], None) or False
                if not ok_match:
                    ok_match = any(pol and isinstance(a, ast.Compare) and isinstance(a.ops[0], ast.Eq) and {ast.unparse(a.left).split(".")[-1], ast.unparse(a.comparators[0]).split(".")[-1]} >= {"arg"} and name in (strip_sites(fa.term_of(a.left)), strip_sites(fa.term_of(a.comparators[0]))) for a, pol in fxd.atoms) and any(isinstance(a, ast.Compare) and isinstance(a.left, ast.Name) and a.left.id == var and isinstance(a.comparators[0], ast.Constant) and a.comparators[0].value is None and ((isinstance(a.ops[0], ast.Is) and not pol) or (isinstance(a.ops[0], ast.IsNot) and pol)) for a, pol in fx.atoms)
        run.check(ok_match, "C07.R2", fk, s, "value returned for the keyword whose arg equals the name", "the returned value is not selected by kw.arg == name")
        run.check(val[0] == "attr" and val[2] == "value", "C07.R2", fk, s, "returns the keyword's value", f"returns {show(val)[:60]}")
        # the remainder: all keywords but the matched one
        ok_rest = False
        why = show(rest)[:100]
        if rest == ("app", ("global", "builtins.list"), (kws,), ()):
            # list(keywords) followed by exactly one .remove(kw)
            rem = [c for c in calls_in(fk) if isinstance(c.func, ast.Attribute) and c.func.attr == "remove"]
            others = [c for c in calls_in(fk) if isinstance(c.func, ast.Attribute) and c.func.attr in ("pop", "clear", "__delitem__")] + [x for x in own_nodes(fk) if isinstance(x, ast.Delete)]
            ok_rest = len(rem) == 1 and not others and strip_sites(fa.term_of(rem[0].func.value)) == rest and strip_sites(fa.term_of(rem[0].args[0])) == val[1] and fa.cfg.dominates(fa.cfg.node_of(rem[0]), n)
            dels = [x for x in own_nodes(fk) if isinstance(x, ast.Delete)]
            if not ok_rest and not rem and len(dels) == 1 and len(dels[0].targets) == 1 and isinstance(dels[0].targets[0], ast.Subscript) and not [c for c in calls_in(fk) if isinstance(c.func, ast.Attribute) and c.func.attr in ("pop", "clear", "__delitem__")]:
                # del copy[i] where (i, kw) were found together: position and keyword are the two halves of one search result
                tg = dels[0].targets[0]
                it_ = strip_sites(fa.term_of(tg.slice))
                ok_rest = strip_sites(fa.term_of(tg.value)) == rest and it_[0] == "index" and it_[2] == 0 and val[1] == ("index", it_[1], 1) and contains(it_[1], lambda q: q[0] == "app" and q[1] == ("global", "builtins.enumerate") and q[2] == (kws,)) and fa.cfg.dominates(fa.cfg.node_of(dels[0]), n)
            why = "list(keywords) without exactly one .remove(<matched keyword>) before the return"
        elif rest[0] == "comp" and len(rest[3]) == 1 and rest[3][0][0] == kws and len(rest[3][0][1]) == 1:
            cond = rest[3][0][1][0]
            ok_rest = cond[0] == "op" and cond[1] in ("Compare:IsNot", "Compare:NotEq") and rest[2] == ("elem", kws)
            why = f"filter {show(cond)[:60]}"
        elif rest[0] == "concat" and rest[1][0] == "slice" and rest[2][0] == "slice" and rest[1][1] == kws and rest[2][1] == kws and rest[1][2] is None and rest[2][3] is None:
            ok_rest = True  # keywords[:i] + keywords[i+1:]
            hi, lo = rest[1][3], rest[2][2]
            ok_rest = lo == ("op", "Add", (hi, ("const", 1)))
        run.check(ok_rest, "C07.R2", fk, s, "remaining keywords = all keywords except the matched one", f"the remaining keywords are computed as {why}: keywords other than the matched one are dropped (or the matched one is kept), so with several keywords in non-declaration order later parameters are wrongly reported missing or get defaults", "new_kw = list(keywords); new_kw.remove(kw)", show(rest))
    run.check(found == 1, "C07.R2", fk, fk.node, "one 'found' return", f"{found} found-returns in _find_keyword")


def check_env_merge(run: Run, m, rule: str) -> None:
    """remap_from_lambda: {inherited known_types} then {parameter: item type}; parameter wins; new dict."""
    from ..lib import view as _view

    rl = _view(m, m.find_func("remap_from_lambda", in_module="func_adl.type_based_replacement"), keep=("remap_by_types",))
    ctx = TermCtx(m, max_depth=1, opaque={"remap_by_types"})
    fa = ctx.analysis(rl)
    kt = ("param", rl.pos_params[2])
    calls = [c for c in calls_in(rl) if isinstance(c.func, ast.Name) and c.func.id == "remap_by_types"]
    if len(calls) != 1 or len(calls[0].args) < 2:
        raise AnalysisError("remap_from_lambda no longer calls remap_by_types(stream, env, body) once")
    env_e = calls[0].args[1]
    order = _merge_order(fa, rl, env_e, kt)
    if order is None:
        t = strip_sites(fa.term_of(env_e))
        if t == kt:
            run.fail(rule, rl, stmt_of(calls[0]), "the inherited known_types dict is handed on (and extended in place) instead of a new environment: the parameter binding leaks into the caller's dict - for top-level operators that is the shared default argument, so names bound in one query are visible in later, unrelated queries", "known_types | {var_name: orig_type}", show(t))
            return
        raise AnalysisError(f"unrecognised construction of the type environment in remap_from_lambda: {show(t)[:120]}")
    run.check("param" in order and "inherited" in order, rule, rl, stmt_of(calls[0]), "environment merges the inherited types and the parameter binding", f"environment is built from {order}")
    if "param" in order and "inherited" in order:
        last_p = max(i for i, x in enumerate(order) if x == "param")
        last_i = max(i for i, x in enumerate(order) if x == "inherited")
        run.check(last_p > last_i, rule, rl, stmt_of(calls[0]), "the lambda's own parameter is the last writer (inner scope wins)", "the inherited known_types are applied after the lambda's own parameter binding: a nested lambda that re-uses the name of an enclosing lambda's parameter is followed with the *outer* type (no defaults filled, callbacks and item type wrong)", "known_types | {var_name: orig_type}")
    # the binding itself: {l_func.args.args[0].arg: o_stream.item_type}
    st = strip_sites(fa.term_of(env_e))
    bind_ok = contains(st, lambda s: s[0] == "dict" and len(s[1]) >= 1 and any(k[0] == "attr" and k[2] == "arg" and v[0] == "attr" and v[2] == "_item_type" for k, v in s[1]))
    run.check(bind_ok, rule, rl, stmt_of(calls[0]), "binding is {parameter name: stream item type}", f"the parameter binding is not {{l_func.args.args[0].arg: o_stream.item_type}}: {show(st)[:100]}")
    body_ok = strip_sites(fa.term_of(calls[0].args[2])) == ("attr", ("param", rl.pos_params[1]), "body") if len(calls[0].args) > 2 else False
    run.check(body_ok, rule, rl, stmt_of(calls[0]), "the lambda's body is what is followed", "remap_by_types is not applied to l_func.body")


def _merge_order(fa, fi: FuncInfo, e: ast.AST, kt):
    """['inherited', 'param'] style write order of a dict-merge expression; None if not a merge."""
    def kind(x: ast.AST):
        t = strip_sites(fa.term_of(x))
        if t == kt:
            return "inherited"
        if t[0] == "dict":
            return "param"
        return "other"

    if isinstance(e, ast.BinOp) and isinstance(e.op, ast.BitOr):
        l = _merge_order(fa, fi, e.left, kt) or [kind(e.left)]
        r = _merge_order(fa, fi, e.right, kt) or [kind(e.right)]
        return l + r
    if isinstance(e, ast.Dict) and any(k is None for k in e.keys):
        out = []
        for k, v in zip(e.keys, e.values):
            out.append(kind(v) if k is None else "param")
        return out
    if isinstance(e, ast.Name):
        # d = dict(known_types); d[var] = type   /  d.update(..)
        defs = [n for n in own_nodes(fi) if isinstance(n, ast.Assign) and len(n.targets) == 1 and isinstance(n.targets[0], ast.Name) and n.targets[0].id == e.id]
        if len(defs) == 1:
            v = defs[0].value
            base = None
            if isinstance(v, ast.Call) and isinstance(v.func, ast.Name) and v.func.id == "dict" and len(v.args) == 1:
                base = [kind(v.args[0])]
            elif isinstance(v, ast.Call) and isinstance(v.func, ast.Attribute) and v.func.attr == "copy":
                base = [kind(v.func.value)]
            elif isinstance(v, (ast.BinOp, ast.Dict)):
                base = _merge_order(fa, fi, v, kt)
            if base is None:
                return None
            later = []
            for n in own_nodes(fi):
                if isinstance(n, ast.Assign) and isinstance(n.targets[0], ast.Subscript) and isinstance(n.targets[0].value, ast.Name) and n.targets[0].value.id == e.id and n.lineno > defs[0].lineno:
                    later.append((n.lineno, "param"))
                if isinstance(n, ast.Call) and isinstance(n.func, ast.Attribute) and n.func.attr == "update" and isinstance(n.func.value, ast.Name) and n.func.value.id == e.id and n.lineno > defs[0].lineno:
                    later.append((n.lineno, kind(n.args[0]) if n.args else "other"))
            return base + [k for _l, k in sorted(later)]
    return None


def check_backlink_values(run: Run, ctx, m, mod: str, rule: str) -> None:
    """Every `X._old_ast = V` in the type follower: V names the node X replaces - a different node than X - and when
    the link is taken over from an earlier replacement (getattr(R, "_old_ast", R)) it is taken from the *replaced*
    node R, with R itself as the fall-back; reading it from the new node finds nothing and the chain to the user's
    call is cut."""
    n_st = 0
    for fi in list(m.funcs.values()):  # wherever in the package the link is written (the helper may have been moved)
        fa = None
        for n in own_nodes(fi):
            if not (isinstance(n, ast.Assign) and len(n.targets) == 1 and isinstance(n.targets[0], ast.Attribute) and n.targets[0].attr == "_old_ast"):
                continue
            fa = fa or ctx.analysis(fi)
            if not fa.cfg.has_node(n):
                continue
            n_st += 1
            tgt = strip_sites(fa.term_of(n.targets[0].value))
            tgt = tgt[1] if tgt[0] == "upd" else tgt
            val = strip_sites(fa.term_of(n.value))
            alts = list(unphi_terms(val))
            # the link is written whatever the new node carries already: a node a callback made as a deep copy of the one
            # it was handed has the *copy* of that node's link - to a node that is not in the user's lambda
            fxn = Facts(fa, n)
            for a_, _pol in fxn.atoms:
                for x_ in ast.walk(a_):
                    subj = None
                    if isinstance(x_, ast.Call) and isinstance(x_.func, ast.Name) and x_.func.id in ("hasattr", "getattr") and len(x_.args) >= 2 and isinstance(x_.args[1], ast.Constant) and x_.args[1].value == "_old_ast":
                        subj = x_.args[0]
                    elif isinstance(x_, ast.Attribute) and x_.attr == "_old_ast":
                        subj = x_.value
                    if subj is not None and strip_sites(fxn._term(subj)) == tgt:
                        run.fail(rule, fi, n, f"the back-link of {show(tgt)[:40]} is written only when that node does not carry one already ({ast.unparse(a_)[:80]}): a replacement a callback made by copy.deepcopy of the call it was handed carries the copied link, which points at a copy - the patch-back then edits an orphan and the user's nested lambda keeps the call as written", "new_node._old_ast = getattr(replaced_node, '_old_ast', replaced_node) unconditionally", key="back-link kept from a copied node")
            for alt in alts:
                # getattr(R, "_old_ast", R) reads as the alternatives R._old_ast | R
                if alt[0] == "attr" and alt[2] == "_old_ast":
                    src = alt[1]
                    others = [a for a in alts if not (a[0] == "attr" and a[2] == "_old_ast")]
                    run.check(src in others, rule, fi, n, "an inherited back-link is read from the replaced node, which is also the fall-back", f"the back-link is taken over from {show(src)[:60]} but otherwise is {', '.join(show(o)[:40] for o in others) or 'nothing'}: the link of the node that was replaced is not carried over, so a rewrite of a call site that was already replaced once (defaults filled in, then a callback) is not patched into the emitted lambda", 'getattr(replaced, "_old_ast", replaced)', show(val), key="back-link read from another node than its fall-back")
                    root = src
                else:
                    root = alt
                run.check(root != tgt, rule, fi, n, "a node's back-link points at another node", f"{show(tgt)[:60]}._old_ast is (read from) the node itself: the chain back to the user's call is cut", "", show(val), key="back-link points at the node itself")
    run.floor(rule, n_st, 2, "_old_ast back-link stores in the package")
    _check_backlink_chain(run, ctx, m, mod, rule)


def _check_backlink_chain(run: Run, ctx, m, mod: str, rule: str) -> None:
    """A back-link written for a node that replaces a node which may itself be a replacement (a call whose defaults
    were filled in, a call an earlier callback handed back) is that node's own link when it has one - so every link
    leads to the user's call in one step, which is all the patch-back follows.  Links that point at the replaced
    replacement make chains; they are accepted only when the patch-back walks `_old_ast` in a loop."""
    def makes_link(t, depth=0) -> bool:
        """may the node `t` carry a back-link?"""
        if not isinstance(t, tuple) or not t:
            return False
        if t[0] == "phi":
            return any(makes_link(a, depth) for a in t[1])
        if t[0] == "upd":
            return any(f_ == "_old_ast" for f_, _v in t[2]) or makes_link(t[1], depth)
        if t[0] == "index" and isinstance(t[1], tuple) and t[1] and t[1][0] == "app":
            callee = t[1][1]
            if callee[0] == "global" and callee[1].endswith("_fill_in_default_arguments"):
                return True
            if callee[0] in ("attr", "elem", "param", "phi", "index", "app"):
                return True  # what a callback (a callable that is data) handed back: linked by the caller afterwards
        return False

    def param_may_link(fi, pname, depth=0) -> bool:
        if depth > 3:
            return True
        sites = call_sites_of(m, fi)
        for caller, call, skip in sites:
            ps = fi.pos_params[skip:]
            if pname not in ps:
                continue
            k_ = ps.index(pname)
            actual = call.args[k_] if k_ < len(call.args) else next((kw.value for kw in call.keywords if kw.arg == pname), None)
            if actual is None:
                continue
            cfa = ctx.analysis(caller)
            if not cfa.cfg.has_node(actual):
                continue
            for alt in unphi_terms(strip_sites(cfa.term_of(actual))):
                if makes_link(alt):
                    return True
                if alt[0] == "attr" and alt[2] == "node" and caller.name == "process_method_call":
                    return True  # the candidate record's node: the call after default filling
                if alt[0] == "param" and alt[1] in caller.params and param_may_link(caller, alt[1], depth + 1):
                    return True
        return False

    raw_chain = []
    for fi in list(m.funcs.values()):
        if fi.module.name != mod:
            continue
        fa = None
        for n in own_nodes(fi):
            if not (isinstance(n, ast.Assign) and len(n.targets) == 1 and isinstance(n.targets[0], ast.Attribute) and n.targets[0].attr == "_old_ast"):
                continue
            fa = fa or ctx.analysis(fi)
            if not fa.cfg.has_node(n):
                continue
            alts = list(unphi_terms(strip_sites(fa.term_of(n.value))))
            if any(a[0] == "attr" and a[2] == "_old_ast" for a in alts):
                continue  # takes over the replaced node's link
            for a in alts:
                if makes_link(a) or (a[0] == "param" and a[1] in fi.params and param_may_link(fi, a[1])):
                    raw_chain.append((fi, n, a))
    if not raw_chain:
        run.ok(rule, None, "every back-link written for a replacement of a replacement is the replaced node's own link")
        return
    fx_fn = m.find_func("fixup_ast_from_modifications", in_module=mod)
    walks = any(isinstance(w, ast.While) and "_old_ast" in ast.unparse(w) for g in m.funcs.values() if g is fx_fn or (g.parent_func is not None and g.parent_func is fx_fn) or g.qual.startswith(fx_fn.qual + ".") for w in ast.walk(g.node))
    for fi, n, a in raw_chain:
        run.check(walks, rule, fi, n, "chains of back-links are walked to their end by the patch-back", f"the back-link points at the replaced node {show(a)[:50]}, which may itself be a replacement (defaults filled in, or handed back by an earlier callback), and the patch-back follows a fixed number of links: with defaults filled in and two rewriting callbacks the rewrite is patched into a copy that is not part of the user's lambda, and the emitted query keeps the un-rewritten call", 'getattr(replaced, "_old_ast", replaced)', key="back-link chains longer than the patch-back follows")


def check_patch_back(run: Run, ctx, m, mod: str, rule: str) -> None:
    """fixup_ast_from_modifications: what a processed copy of a call gained is copied back, unconditionally, to the
    call it replaces (also used by C09.R6: a callback's rewrite of a call that is the body of a nested lambda)."""
    check_backlink_values(run, ctx, m, mod, rule)
    fx_fn = m.find_func("fixup_ast_from_modifications", in_module=mod)
    from ..lib import used_visitor

    fixers = [c for c in [used_visitor(m, ctx, fx_fn)] if "visit_Call" in c.methods]
    if len(fixers) != 1:
        raise AnalysisError("fixup_ast_from_modifications no longer contains one visitor with visit_Call")
    vc = fixers[0].methods["visit_Call"]
    from ..normalise import unrolled

    vc = unrolled(m, vc)  # the copies may be made by a private procedure visit_Call calls
    fv = ctx.analysis(vc)
    nodep = ("param", vc.pos_params[1])
    old = ("attr", nodep, "_old_ast")
    stores = {}
    for n in own_nodes(vc):
        if isinstance(n, ast.Assign) and isinstance(n.targets[0], ast.Attribute) and fv.cfg.has_node(n):
            tt = strip_sites(fv.term_of(n.targets[0].value))
            tt = tt[1] if tt[0] == "upd" else tt
            if old in unphi_terms(tt):
                stores[n.targets[0].attr] = strip_sites(fv.term_of(n.value))
    run.check(stores.get("func") == ("attr", nodep, "func"), rule, vc, vc.node, "patch-back copies the callee", "patch-back does not copy node.func to the original call")
    run.check(stores.get("keywords") == ("attr", nodep, "keywords"), rule, vc, vc.node, "patch-back copies the reduced keywords", "patch-back does not copy the reduced keyword list to the original call: a call that is the body of a nested lambda keeps keywords that were already moved to positional slots (j.pt(2, mode=1) -> j.pt(2, 5.0, 1, mode=1))", "orig_ast.keywords = node.keywords")
    app = [c for c in calls_in(vc) if isinstance(c.func, ast.Attribute) and c.func.attr in ("append", "extend")]
    ok_app = False
    for c in app:
        tt = strip_sites(fv.term_of(c.func.value))
        ok_app = ok_app or any(a == ("attr", old, "args") for a in unphi_terms(tt))
    # all of them: a callback may have replaced an argument the user wrote, not only added some behind it
    whole = stores.get("args")
    ok_whole = whole is not None and (whole == ("attr", nodep, "args") or (whole[0] == "app" and whole[1] in (("global", "builtins.list"), ("global", "copy.copy")) and whole[2] == (("attr", nodep, "args"),)))
    if ok_app and not ok_whole:
        run.fail(rule, vc, vc.node, "patch-back only appends the arguments that were added behind the user's own: an argument the user wrote and a callback replaced (m.scale(1) rewritten to m.scale(99)) keeps its old value when the call is the whole body of a nested lambda - the emitted query does not contain the rewrite the callback returned", "orig_ast.args = list(node.args)", key="patch-back appends instead of copying the arguments")
    else:
        run.check(ok_whole, rule, vc, vc.node, "patch-back copies the positional arguments", "patch-back does not copy the processed call's arguments to the original call")
    gv = [c for c in calls_in(vc) if isinstance(c.func, ast.Attribute) and c.func.attr == "generic_visit"]
    run.check(len(gv) == 1, rule, vc, vc.node, "patch-back descends into nested calls", "patch-back does not traverse nested calls")

    # the copies are made whenever there is an original to patch: no further condition
    for n in own_nodes(vc):
        if isinstance(n, ast.Assign) and isinstance(n.targets[0], ast.Attribute) and n.targets[0].attr in ("func", "keywords") and fv.cfg.has_node(n):
            tt = strip_sites(fv.term_of(n.targets[0].value))
            tt = tt[1] if tt[0] == "upd" else tt
            if old not in unphi_terms(tt):
                continue
            extra = []
            for a, pol in Facts(fv, n, expand=False).atoms:
                about_orig = False
                for x in ast.walk(a):
                    if isinstance(x, (ast.Name, ast.Attribute, ast.Call)) and fv.cfg.has_node(x):
                        try:
                            tx = strip_sites(fv.term_of(x))
                        except AnalysisError:
                            continue
                        if old in unphi_terms(tx) or tx == old:
                            about_orig = True
                is_none_test = isinstance(a, ast.Compare) and len(a.ops) == 1 and isinstance(a.comparators[0], ast.Constant) and a.comparators[0].value is None and isinstance(a.left, ast.Name)
                # "there is an original" may also be said with hasattr(node, "_old_ast")
                is_has_test = pol and isinstance(a, ast.Call) and isinstance(a.func, ast.Name) and a.func.id == "hasattr" and len(a.args) == 2 and isinstance(a.args[1], ast.Constant) and a.args[1].value == "_old_ast" and fv.cfg.has_node(a.args[0]) and strip_sites(fv.term_of(a.args[0])) == nodep
                if not ((about_orig and is_none_test) or is_has_test):
                    extra.append(ast.unparse(a))
            run.check(not extra, rule, vc, n, f"the {n.targets[0].attr} of the processed call is copied back whenever there is an original", f"patch-back of .{n.targets[0].attr} happens only when {' and '.join(extra)[:140]}: other rewrites of a call that is the whole body of a nested lambda (a callback renaming the method, keywords moved to positional slots) are lost in the emitted query", f"orig_ast.{n.targets[0].attr} = node.{n.targets[0].attr} unconditionally")


def check_inherited_lookup(run: Run, m, rule: str) -> None:
    """what a class declares is looked up with inheritance in view (hasattr / getattr / __mro__ / get_type_hints):
    an object's own __dict__ (or vars()) does not contain what its base classes declare."""
    run.rule(rule, "type introspection sees inherited declarations: no lookup in an object's own __dict__ / vars() in util_types / type_based_replacement")
    n_fn = 0
    for fi in [f for f in m.funcs.values() if f.module.name in ("func_adl.util_types", "func_adl.type_based_replacement")]:
        n_fn += 1
        for n in own_nodes(fi):
            base = None
            if isinstance(n, ast.Attribute) and n.attr == "__dict__":
                base = n.value
            elif isinstance(n, ast.Call) and isinstance(n.func, ast.Name) and n.func.id == "vars" and n.args:
                base = n.args[0]
            elif isinstance(n, ast.Call) and isinstance(n.func, ast.Name) and n.func.id == "getattr" and len(n.args) >= 2 and isinstance(n.args[1], ast.Constant) and n.args[1].value == "__dict__":
                base = n.args[0]
            if base is None:
                continue
            is_module = isinstance(base, ast.Name) and base.id in fi.module.imports and base.id not in fi.params
            run.check(is_module, rule, fi, stmt_of(n), "__dict__ is read from a module only", f"{fi.name} looks into the own __dict__ of {ast.unparse(base)}: declarations inherited from a base class (generic bases, annotations, callbacks) are not in it, so a class that derives plainly from a typed collection / model class is no longer followed", "hasattr(..) / getattr(..) / cls.__mro__")
    run.floor(rule, n_fn, 20, "functions of the type-introspection modules")
