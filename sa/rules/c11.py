"""C11 - streams are immutable values (object_stream.py, meta_data.py, type_based_replacement.py, event_dataset.py)."""
from __future__ import annotations

import ast

from ..effects import effects_for, loc_show
from ..lib import own_nodes
from ..model import AnalysisError
from ..report import Run
from ..terms import TermCtx, show, strip_sites

EXPLANATION = (
    "over the whole call graph (with visitor dispatch and the in-place semantics of ast.NodeTransformer.generic_visit), no mutation "
    "primitive - attribute store, list/dict mutator, item store, in-place generic_visit - ever has as its target a location reached "
    "through a stream's _q_ast (R2), for every history of derive/execute operations; the fields _q_ast/_item_type are written only on "
    "self in ObjectStream.__init__ and on a fresh copy.copy(self) in clone_with_new_ast, and no stream method stores attributes on self "
    "(R1); mutable default arguments are never mutated (R3); (R7) a lambda supplied as an ast object becomes part of the new stream's query and "
    "is patched in place while it is followed, so the operators must work on their own copy of it."
)
NOT_DECIDED = "behaviour of user callbacks and executors (assumed not to mutate stream ASTs)."

STREAM_FIELDS = {"_q_ast", "_item_type"}


def check(run: Run) -> None:
    m = run.model
    eff = effects_for(m)
    run.rule("C11.R1", "_q_ast/_item_type stored only on self in ObjectStream.__init__ and on copy.copy(self) in clone_with_new_ast; no other stream method stores on self")
    run.rule("C11.R2", "no mutation primitive anywhere in the call graph targets a location reached through <x>._q_ast")
    run.rule("C11.R3", "parameters with a mutable default ({} / [] / module-level list) are never the target of a mutation primitive")
    os_cls = m.find_class("ObjectStream", in_module="func_adl.object_stream")
    stream_classes = [os_cls] + m.subclasses(os_cls)
    run.notes["transformer_kinds"] = dict(eff.kind)
    run.notes["stream_classes"] = [c.qual for c in stream_classes]

    # ---------------- R1
    ctx = TermCtx(m, max_depth=3)
    n_stores = 0
    for fi in m.funcs.values():
        for n in own_nodes(fi):
            tg_attr = None
            if isinstance(n, ast.Assign):
                for tg in n.targets:
                    if isinstance(tg, ast.Attribute) and tg.attr in STREAM_FIELDS:
                        tg_attr = tg
            elif isinstance(n, ast.Call) and isinstance(n.func, ast.Name) and n.func.id == "setattr" and len(n.args) == 3 and isinstance(n.args[1], ast.Constant) and n.args[1].value in STREAM_FIELDS:
                tg_attr = ast.Attribute(value=n.args[0], attr=n.args[1].value)
            if tg_attr is None:
                continue
            n_stores += 1
            fa = ctx.analysis(fi)
            t = strip_sites(fa.term_of(tg_attr.value)) if fa.cfg.has_node(tg_attr.value) else ("top", "?")
            base = t[1] if t[0] == "upd" else t
            in_init = fi.name == "__init__" and fi.cls in stream_classes and base == ("param", fi.pos_params[0])
            in_clone = base[0] == "app" and base[1] == ("global", "copy.copy") and base[2] == (("param", fi.pos_params[0]),) and fi.cls in stream_classes
            run.check(in_init or in_clone, "C11.R1", fi, n, f"store to .{tg_attr.attr} is in __init__ on self or on copy.copy(self)", f"stream field .{tg_attr.attr} is written on {show(t)[:80]}: an existing stream's query/type changes in place", "self in ObjectStream.__init__, or a copy.copy(self) in clone_with_new_ast", show(t))
    run.floor("C11.R1", n_stores, 4, "stores to _q_ast/_item_type")
    n_meth = 0
    for c in stream_classes:
        for name, fi in c.methods.items():
            if name == "__init__":
                continue
            n_meth += 1
            selfp = ("param", fi.pos_params[0]) if fi.pos_params else None
            bad = [x for x in eff.summary.get(fi.qual, []) if x.loc[0] == selfp and x.loc[1] is None and not x.loc[2]]
            for x in bad:
                run.fail("C11.R1", fi, x.stmt, f"stream method stores state on the stream object itself ({x.kind}){' via ' + x.via if x.via else ''}: a previously created stream is no longer an immutable value", "derive a new stream with clone_with_new_ast")
            if not bad:
                run.ok("C11.R1", fi, "method does not store attributes on self")
    run.floor("C11.R1", n_meth, 12, "stream methods")

    # ---------------- R2
    n_sites = 0
    n_prims = 0
    for q, muts in eff.summary.items():
        fi = m.funcs[q]
        n_prims += len(eff.direct.get(q, []))
        for x in muts:
            if x.loc[1] == "_q_ast" or (x.loc[1] == "query_ast"):
                if x.loc[0][0] == "unknown":
                    # the nested dummy stream of process_method_call_on_stream_obj: an object created by an
                    # unresolved (user class) call, not a stream the caller can hold; recorded, not judged
                    run.notes.setdefault("unknown_rooted_mutations", []).append(f"{fi.qual}: {x.kind} on {loc_show(x.loc)}")
                    continue
                n_sites += 1
                run.fail(
                    "C11.R2",
                    fi,
                    x.stmt,
                    f"{x.kind} on {loc_show(x.loc)}{' via ' + x.via if x.via else ''}: nodes of a stream's query AST are shared with its ancestors and descendants, so their queries change behind the user's back",
                    "work on a copy (copy.deepcopy, or a copy-on-write transformer), or build new nodes",
                )
    run.notes["mutation_primitives_enumerated"] = n_prims
    run.floor("C11.R2", n_prims, 60, "direct mutation primitives in the package")
    # positive record: what the public entry points do mutate (and that none of it is the stream)
    for c in stream_classes:
        for name, fi in c.methods.items():
            roots = sorted({loc_show(x.loc) for x in eff.summary.get(fi.qual, [])})
            selfp = fi.pos_params[0] if fi.pos_params else "self"
            if not any(r.startswith(f"{selfp}._q_ast") for r in roots):
                run.ok("C11.R2", fi, "no mutated location is reached through the stream's _q_ast", "mutated: " + (", ".join(roots) or "nothing"))

    # ---------------- R4: no memoised function hands out AST nodes (they would be shared between streams and then patched in place)
    from ..lib import memoised_functions, returns_ast

    run.rule("C11.R4", "no memoisation (lru_cache / cache) of functions that return AST nodes: a cached node is shared by every stream built from it and in-place passes change them all")
    mctx = TermCtx(m, max_depth=2)
    memo = memoised_functions(m)
    for mf, deco in memo:
        if returns_ast(mctx, mf):
            run.fail("C11.R4", mf, mf.node, f"{mf.name} is memoised with @{deco} and returns AST nodes: the same node objects end up in the queries of several streams, and the in-place passes (type following fix-ups, sugar lowering) applied while deriving one stream change the query of the others", "return a fresh tree on every call")
        else:
            run.ok("C11.R4", mf, f"memoised function {mf.name} does not return AST nodes")
    run.notes["memoised_functions"] = [f.qual for f, _d in memo]
    if not memo:
        run.ok("C11.R4", None, "no memoised functions in the package")

    # ---------------- R3
    n_mut_defaults = 0
    for fi in m.funcs.values():
        a = fi.node.args
        pos = a.posonlyargs + a.args
        pairs = list(zip(pos[len(pos) - len(a.defaults):], a.defaults)) + [(k, d) for k, d in zip(a.kwonlyargs, a.kw_defaults) if d is not None]
        for arg, d in pairs:
            mutable = isinstance(d, (ast.Dict, ast.List, ast.Set)) or (isinstance(d, ast.Call) and isinstance(d.func, ast.Name) and d.func.id in ("dict", "list", "set"))
            if isinstance(d, ast.Name) and isinstance(fi.module.assigns.get(d.id), (ast.List, ast.Dict, ast.Set)):
                mutable = True
            if not mutable:
                continue
            n_mut_defaults += 1
            bad = [x for x in eff.summary.get(fi.qual, []) if x.loc[0] == ("param", arg.arg)]
            for x in bad:
                run.fail("C11.R3", fi, x.stmt, f"mutable default argument '{arg.arg}' is mutated ({x.kind}{' via ' + x.via if x.via else ''}): state leaks between unrelated calls / queries", "build a new dict/list")
            if not bad:
                run.ok("C11.R3", fi, f"mutable default '{arg.arg}' is never mutated")
    run.floor("C11.R3", n_mut_defaults, 7, "parameters with mutable defaults")

    # ---------------- R5: what an executor is handed is never the stream's own AST (an executor may normalise it in place)
    run.rule("C11.R5", "the executor receives the private copy made by remove_empty_metadata(self._q_ast), on every path (C12.R3 re-evaluated)")
    from ..report import run_stage

    run_stage(run, "c12", only={"C12.R3"})

    # ---------------- R6: .. and that copy shares nothing with the stream's AST where the cleaner changes its shape
    run.rule("C11.R6", "the copy handed to the executor is the cleaner's own: what replaces a removed wrapper is taken from the copy, not from the stream's AST (C15.R3 re-evaluated)")
    run_stage(run, "c15", only={"C15.R3", "C15.R5"})

    # ---------------- R7: a lambda handed in as an ast object
    run.rule("C11.R7", "a lambda supplied as an ast is copied before the pipeline patches it in place (its nodes end up in the new stream's query; the same object may already be part of another stream)")
    pa = m.find_func("parse_as_ast", in_module="func_adl.util_ast")
    from ..lib import view as _view7

    pav = _view7(m, pa)
    fa7 = TermCtx(m, max_depth=2, identity={"lambda_unwrap"}, opaque={"_parse_source_for_lambda", "global_getclosurevars"}).analysis(pav)
    srcp = ("param", pa.pos_params[0])
    n7 = 0
    from ..terms import contains as _contains, unphi_terms as _unphi

    for s_, n_ in fa7.returns():
        if s_.value is None:
            continue
        n7 += 1
        t7 = strip_sites(fa7.term_of(s_.value, n_))
        for a7 in _unphi(t7):
            own = a7 == srcp or (a7[0] in ("attr", "index", "subscript") and _contains(a7, lambda q: q == srcp) and not _contains(a7, lambda q: q[0] == "app"))
            run.check(not own, "C11.R7", pa, s_, "the lambda that is processed is not the caller's own ast object", "parse_as_ast hands the caller's own ast.Lambda to the pipeline, which patches it in place (defaults filled in, call sites rewritten by callbacks) and builds the new stream's query from its nodes: deriving a second stream from the same lambda object changes the query of the first one", "work on a copy of the nodes", show(a7)[:200], key="caller's ast handed to the in-place pipeline")
    run.floor("C11.R7", n7, 2, "returns of parse_as_ast")
