"""C05 - captured one-line helper functions are inlined faithfully (util_ast.py)."""
from __future__ import annotations

import ast

from ..cfg import facts_false, facts_true
from ..lib import Facts, calls_in, len_eq, own_nodes, stmt_of
from ..model import AnalysisError, FuncInfo
from ..report import Run
from ..terms import TermCtx, contains, show, strip_sites, unphi_terms
from .c02 import NEED, _check_shadow_lambda, _has_evidence

EXPLANATION = (
    "(R1) the helper inliner substitutes the helper's *body node itself* (self.visit(body), not generic_visit, which skips the root, so "
    "a body that is a bare parameter is substituted); (R2) parameters of lambdas nested in the helper body shadow the helper's "
    "parameters (all five kinds, frame pushed/popped around the visit); (R3) a call is inlined only when it binds every parameter by a "
    "plain positional argument (no keywords, *args, defaults-only, keyword-only, positional-only or variadic parameters), its arguments "
    "are resolved *before* the helper's parameter map is pushed, the map is popped on the way out, lookup is innermost-first, and "
    "otherwise the call is returned intact; (R4) a def is turned into a lambda only if it has exactly one non-docstring statement, a "
    "return, and the lambda is (f.args, return value); (R5) every inlined helper is a freshly parsed AST, never a cached shared object."
    " (R6) loop variables of comprehensions in a helper body are binders (first iterable outside the frame, every iterable visited once); (R7) the helper a name denotes comes from the callable's own closure snapshot (shared with C04); (R8) the helper's source is recovered under the gates of C03, whose rule set is re-evaluated here."
    " (R10) the body of an inlined helper has been through a capture rewriter built from the helper's own closure and module; helpers already being inlined are left by name."
    " (R4, as of D46) a decorated helper is not inlined (it stays a call by name); annotations are not carried onto the lambda."
)
NOT_DECIDED = "value equality with Python's own call of the helper; capture of free names of an argument by binders inside the helper (R2e, known finding)."


def check(run: Run) -> None:
    m = run.model
    run.rule("C05.R1", "reduction returns self.visit(lambda.body): the root of the body is substituted")
    run.rule("C05.R2", "nested lambdas shadow helper parameters (five kinds, paired push/pop)")
    run.rule("C05.R2e", "substitution under a binder renames the binder or proves arguments closed (no capture)")
    run.rule("C05.R3", "inline only plain positional calls; arguments resolved before the parameter map is pushed; map popped; innermost-first lookup; else call intact")
    run.rule("C05.R4", "rewrite_func_as_lambda: exactly one non-docstring statement, a Return, else ValueError; Lambda(f.args, ret.value)")
    run.rule("C05.R5", "each inlined helper is a fresh parse (no shared cached AST)")
    run.rule("C05.R12", "the inlining guard is not stronger than designed: unused default values do not keep a fully bound helper call from being inlined (needed by C14)")
    run.rule("C05.R10", "an inlined helper's own free variables are captured from its own closure and module (D43); helpers already being inlined are left by name")
    ctx = TermCtx(m, max_depth=2, opaque={"_parse_source_for_lambda", "as_literal"}, identity={"lambda_unwrap"})
    cls = m.find_class("_resolve_called_lambdas", in_module="func_adl.util_ast")
    vc = cls.methods.get("visit_Call")
    vn = cls.methods.get("visit_Name")
    if vc is None or vn is None:
        raise AnalysisError("anchor vanished: _resolve_called_lambdas.visit_Call / visit_Name")
    fa = ctx.analysis(vc)
    cfg = fa.cfg
    nodep = ("param", vc.pos_params[1])
    selfp = ("param", vc.pos_params[0])
    body = ("attr", ("attr", nodep, "func"), "body")
    from ..lib import call_events, event_after, event_before, init_attr, reaches

    STACK = init_attr(ctx, m, cls, lambda t: t == ("list", ()), "the parameter-map stack of _resolve_called_lambdas")
    stack = ("attr", selfp, STACK)

    n_red = 0
    for s, n in fa.returns():
        t = strip_sites(fa.term_of(s.value, n))
        for a in unphi_terms(t):
            if a == ("visit", body):
                n_red += 1
                run.ok("C05.R1", vc, "reduction returns self.visit(body)")
                _guard(run, fa, vc, s, nodep)
            elif a == ("gvisit", body):
                n_red += 1
                run.fail("C05.R1", vc, s, "the helper body is entered with generic_visit: only the children of the body are substituted, so a helper whose body is a bare parameter (def ident(a): return a) leaves an unbound name", "self.visit(lambda_node.body)", show(a))
                _guard(run, fa, vc, s, nodep)
            elif a == ("gvisit", nodep):
                run.ok("C05.R3", vc, "a call that is not inlined is traversed")
            elif a == nodep:
                run.fail("C05.R3", vc, s, "a call that is not inlined is returned without visiting its children: parameters of an enclosing helper that occur in its arguments (or in the body of the un-inlinable called lambda) stay un-substituted - unbound names in the query", "return self.generic_visit(node)", show(a), key="non-inlined call returned unvisited")
            else:
                run.fail("C05.R3", vc, s, f"visit_Call returns {show(a)[:120]}: neither the substituted body nor the call itself", term=show(a))
    run.check(n_red == 1, "C05.R1", vc, vc.node, "exactly one reduction path", f"{n_red} reduction paths")
    if any(p.kind != "return" for p, _ in cfg.exit.pred):
        run.fail("C05.R3", vc, vc.node, "a path of visit_Call returns None: the call disappears from the query")

    # push / pop pairing around the body visit; arguments resolved before the push
    evs = call_events(ctx, vc, lambda nm: nm in ("append", "pop", "visit", "generic_visit"))
    pushes = [e for e in evs if e.name == "append" and e.recv == stack]
    pops = [e for e in evs if e.name == "pop" and e.recv == stack]
    bvis = [e for e in evs if e.name in ("visit", "generic_visit") and e.args and e.args[0] == body]
    ok = len(pushes) == 1 and len(pops) == 1 and len(bvis) == 1
    if ok:
        p, b, q = pushes[0], bvis[0], pops[0]
        ok = event_before(ctx, vc, p, b) and event_before(ctx, vc, b, q) and event_after(ctx, vc, q, b) and p.call is not b.call and b.call is not q.call
    from ..lib import pop_is_lifo

    for q_ in pops:
        run.check(pop_is_lifo(q_), "C05.R3", vc, stmt_of(q_.call) if q_.owner is vc else vc.node, "the parameter map removed is the newest one", f"the map at position {', '.join(show(a_) for a_ in q_.args)} of the stack is removed instead of the newest one: after an inner helper call returns, the enclosing call's parameters are no longer substituted", ".pop()")
    run.check(ok, "C05.R3", vc, vc.node, "parameter map pushed before and popped after the body is visited, on every path", "the helper's parameter map is not pushed before / popped after the visit of its body on every path: bindings leak into the rest of the query or are missing in the body")
    if len(pushes) == 1:
        push = pushes[0]
        at_push = stmt_of(push.call) if push.owner is vc else vc.node
        # the pushed map: parameter name -> resolved argument, complete before the push
        mt = push.args[0] if push.args else ("top", "?")
        complete = mt[0] == "comp" and mt[1] == "DictComp"
        args_t = ("attr", nodep, "args")

        def _is_arg_elem(t):
            """one of the call's arguments: node.args[i], an element of node.args, or the argument half of zip(params, node.args)"""
            if t[0] in ("subscript", "index", "elem") and t[1] == args_t:
                return True
            if t[0] == "index" and t[1][0] == "elem" and t[1][1][0] == "app" and t[1][1][1] == ("global", "builtins.zip") and isinstance(t[2], int) and t[2] < len(t[1][1][2]):
                return t[1][1][2][t[2]] == args_t
            return False

        arg_visits = [e for e in evs if e.name == "visit" and e.args and _is_arg_elem(e.args[0])]
        run.check(len(arg_visits) >= 1, "C05.R3", vc, vc.node, "call arguments are resolved", "the arguments of an inlined call are never visited (helpers called in arguments stay un-inlined and outer substitutions are not applied)")
        for e in arg_visits:
            if e.site is not push.site:
                late = reaches(cfg, push.site, e.site)
            elif e.owner is push.owner:
                oc = ctx.analysis(e.owner).cfg
                late = reaches(oc, oc.node_of(push.call), oc.node_of(e.call)) or (oc.node_of(push.call) is oc.node_of(e.call) and not _inside(e.call, push.call))
            else:
                late = True
            run.check(not late, "C05.R3", vc, stmt_of(e.call) if e.owner is vc else vc.node, "argument resolved before the helper's parameter map is pushed", "an argument of the inlined call is resolved after the helper's parameter map has been pushed: a later argument that mentions the name of an earlier parameter is rewritten against the helper's bindings instead of the caller's (sub(10, a) -> 10 - 10)", "build the complete map first, then push it")
        if complete:
            key_t, val_t = mt[2][1][0], mt[2][1][1]
            ok_k = key_t[0] == "attr" and key_t[2] == "arg" and contains(key_t, lambda s: s == ("attr", ("attr", ("attr", nodep, "func"), "args"), "args"))
            ok_v = val_t[0] == "visit" and contains(val_t, lambda s: s == ("attr", nodep, "args"))
            same_index = _same_index(key_t, val_t)
            # .. or the two halves of one zip(<parameters>, <arguments>) element
            zs = [z for z in _walk(mt) if z[0] == "app" and z[1] == ("global", "builtins.zip") and len(z[2]) == 2]
            for z in zs:
                if key_t == ("attr", ("index", ("elem", z), 0), "arg") and val_t == ("visit", ("index", ("elem", z), 1)) and z[2] == (("attr", ("attr", ("attr", nodep, "func"), "args"), "args"), args_t) and len(mt[3]) == 1 and mt[3][0][0] == z and not mt[3][0][1]:
                    same_index = True
            run.check(ok_k and ok_v and same_index, "C05.R3", vc, at_push, "map binds the i-th parameter name to the visited i-th argument", f"parameter map is {show(mt)[:160]}: parameters and arguments are not paired positionally")
    # visit_Name: innermost first, shadow entries leave the node
    fn = ctx.analysis(vn)
    loops = [n for n in own_nodes(vn) if isinstance(n, ast.For)]
    ok_rev = len(loops) == 1 and isinstance(loops[0].iter, ast.Call) and isinstance(loops[0].iter.func, ast.Name) and loops[0].iter.func.id == "reversed" and strip_sites(fn.term_of(loops[0].iter.args[0], fn.cfg.node_of(loops[0]))) == ("attr", ("param", vn.pos_params[0]), STACK)
    if not ok_rev and not loops:
        # the same search written as next((m for m in reversed(self._arg_map_list) if node.id in m), None)
        for c_ in calls_in(vn):
            if isinstance(c_.func, ast.Name) and c_.func.id == "next" and c_.args and isinstance(c_.args[0], ast.GeneratorExp) and len(c_.args[0].generators) == 1 and fn.cfg.has_node(c_):
                it_ = c_.args[0].generators[0].iter
                if isinstance(it_, ast.Call) and isinstance(it_.func, ast.Name) and it_.func.id == "reversed" and len(it_.args) == 1 and strip_sites(fn.term_of(it_.args[0], fn.cfg.node_of(c_))) == ("attr", ("param", vn.pos_params[0]), STACK):
                    ok_rev = True
    run.check(ok_rev, "C05.R3", vn, loops[0] if loops else vn.node, "visit_Name searches the maps innermost-first", "helper parameter lookup is not innermost-first: with nested helpers that re-use a parameter name the outer binding wins")
    rt = strip_sites(fn.return_term())
    nn = ("param", vn.pos_params[1])
    run.check(nn in unphi_terms(rt), "C05.R3", vn, vn.node, "unmapped names are left alone", "visit_Name never returns the name unchanged")
    # the search ends at the innermost map that *has* the name, whatever it is bound to: a shadow entry (name -> None,
    # pushed for a nested lambda's or a comprehension's own variables) must stop it, not be skipped as "absent"
    if loops and ok_rev:
        lp_ = loops[0]
        lv_ = lp_.target.id if isinstance(lp_.target, ast.Name) else None

        def _all_return(stmts) -> bool:
            if not stmts:
                return False
            last = stmts[-1]
            if isinstance(last, (ast.Return, ast.Raise)):
                return True
            if isinstance(last, ast.If):
                return _all_return(last.body) and _all_return(last.orelse)
            return False

        stops = False
        for x_ in ast.walk(lp_):
            if isinstance(x_, ast.If) and isinstance(x_.test, ast.Compare) and len(x_.test.ops) == 1 and isinstance(x_.test.ops[0], ast.In) and isinstance(x_.test.comparators[0], ast.Name) and x_.test.comparators[0].id == lv_ and fn.cfg.has_node(x_) and strip_sites(fn.term_of(x_.test.left)) == ("attr", nn, "id"):
                stops = stops or _all_return(x_.body)
            if isinstance(x_, ast.If) and isinstance(x_.test, ast.Compare) and len(x_.test.ops) == 1 and isinstance(x_.test.ops[0], ast.NotIn) and isinstance(x_.test.comparators[0], ast.Name) and x_.test.comparators[0].id == lv_ and len(x_.body) == 1 and isinstance(x_.body[0], ast.Continue):
                # if name not in m: continue   followed by statements that all return
                body_ = lp_.body
                if x_ in body_:
                    stops = stops or _all_return(body_[body_.index(x_) + 1:])
        run.check(stops, "C05.R3", vn, lp_, "the search stops at the innermost map that has the name (membership, not value)", "the lookup of a name does not stop at the innermost frame that *contains* it: a frame that binds the name to None - the shadow frame pushed for the parameters of a nested lambda or the loop variables of a comprehension - is treated as if the name were absent, the search falls through to an outer called lambda's arguments and the hidden name is substituted", "if node.id in arg_map: replacement = arg_map[node.id]; return replacement if replacement is not None else node", key="shadow entry skipped as absent")

    # ---------------- R2
    vl = cls.methods.get("visit_Lambda")
    if vl is None:
        run.fail("C05.R2", vc, cls.node, "_resolve_called_lambdas has no visit_Lambda: a lambda nested in a helper body that re-uses a parameter name has that name replaced by the call's argument", "push a shadow frame for the lambda's own parameters")
    else:
        _check_shadow_lambda(run, ctx, m, vl, "C05")

    # ---------------- R6: loop variables of comprehensions in a helper body are binders too
    run.rule("C05.R6", "comprehension loop variables in an inlined helper hide the helper's parameters of the same name (all four forms)")
    from .c04 import check_comprehension_shadow

    check_comprehension_shadow(run, ctx, m, cls, "C05.R6")
    # .. and, like the lambdas of R2e, they can capture: a free name of a substituted argument that is spelled like a loop
    # variable refers to the loop variable afterwards unless the loop variable is renamed while substitutions are pending
    seen_h = set()
    for k_ in ("ListComp", "SetComp", "GeneratorExp", "DictComp"):
        h_ = cls.methods.get(f"visit_{k_}")
        if h_ is None and f"visit_{k_}" in cls.class_assigns and isinstance(cls.class_assigns[f"visit_{k_}"], ast.Name):
            h_ = cls.methods.get(cls.class_assigns[f"visit_{k_}"].id)
        if h_ is None or h_.qual in seen_h:
            continue
        seen_h.add(h_.qual)
        from ..lib import unit as _unit

        renames = any(isinstance(c.func, ast.Name) and c.func.id in ("arg_name", "make_args_unique") for g_ in _unit(m, h_) for c in calls_in(g_))
        run.check(renames, "C05.R2e", h_, h_.node, "loop variables are renamed (or arguments proved closed) before substituting underneath them", f"{h_.name} keeps the comprehension's own loop-variable names while substitutions are pending: a free name of a substituted argument that equals a loop variable of the helper's comprehension is captured by it", "alpha-rename the loop variables of comprehensions in inlined helpers", key="binder kept while substitutions are pending", construct=f"{h_.module.name}:{cls.name}.<comprehension handler>")

    # ---------------- R9: recovering a captured helper's source is an attempt, not an obligation
    run.rule("C05.R9", "a failure of the source scan while looking for a captured helper (any exception) leaves the call by name: the attempt is wrapped in a catch-all handler")
    from ..lib import unit as _unit9
    from ..model import ancestors as _anc9

    cap = m.find_class("_rewrite_captured_vars", in_module="func_adl.util_ast")
    vn9 = cap.methods.get("visit_Name")
    n_try = 0
    if vn9 is not None:
        from ..lib import view as _view9

        fns9 = list(_unit9(m, _view9(m, vn9))) + list(_unit9(m, vn9)) + [f_ for f_ in m.funcs.values() if f_.parent_func is vn9]
        seen9 = set()
        for f_ in fns9:
            if f_.qual in seen9:
                continue
            seen9.add(f_.qual)
            for c_ in calls_in(f_):
                if not (isinstance(c_.func, ast.Name) and c_.func.id == "_parse_source_for_lambda"):
                    continue
                n_try += 1
                tr = next((x for x in _anc9(c_) if isinstance(x, ast.Try) and any(c_ is y for b_ in x.body for y in ast.walk(b_))), None)
                catch_all = tr is not None and any(h_.type is None or (isinstance(h_.type, ast.Name) and h_.type.id in ("Exception", "BaseException")) or (isinstance(h_.type, ast.Tuple) and any(isinstance(e_, ast.Name) and e_.id in ("Exception", "BaseException") for e_ in h_.type.elts)) for h_ in tr.handlers)
                run.check(catch_all, "C05.R9", f_, stmt_of(c_), "the attempt to recover a captured helper's source is under a catch-all handler", "the source scan for a captured helper is not under a handler for every exception: the scan is a heuristic that also fails with IndexError / tokenize errors (a helper lambda whose tokens cross a DEDENT, a factory's inner lambda), and such a failure now aborts the capture of the *query* lambda instead of leaving the helper call by name", "except Exception: return None", key="helper source recovery not under a catch-all")
    run.floor("C05.R9", n_try, 1, "source-recovery attempts for captured helpers")

    # ---------------- R8: the helper's body is recovered from source by the same scan as the operator's own lambda
    run.rule("C05.R8", "the source of an inlined helper is recovered under the gates of C03 (rule set of C03 re-evaluated): a neighbouring lambda must never be inlined in its place")
    from ..report import run_stage

    run_stage(run, "c03")
    run.rule("C05.R11", "the capture rewriter every helper body goes through respects binders (C04.R1 re-evaluated): names bound by enclosing lambdas / comprehensions are not replaced by same-named captured values")
    run_stage(run, "c04", only={"C04.R1"})

    # ---------------- R7: which function a helper name stands for is decided by the callable's own scopes (shared with C04.R3/R6)
    run.rule("C05.R7", "the helper that is inlined is the one the name denotes for the callable: closure before module globals, in a fresh table")
    from ..report import Relabel
    from .c04 import check_snapshot

    check_snapshot(Relabel(run, "C05.R7"), TermCtx(m, max_depth=2, opaque={"as_literal", "_parse_source_for_lambda"}), m, m.find_class("_rewrite_captured_vars", in_module="func_adl.util_ast"))

    # ---------------- R4
    check_rewrite_func(run, ctx, m, "C05.R4")

    # ---------------- R5
    rcv = m.find_class("_rewrite_captured_vars", in_module="func_adl.util_ast")
    rvn = rcv.methods.get("visit_Name")
    if rvn is None:
        raise AnalysisError("anchor vanished: _rewrite_captured_vars.visit_Name")
    from ..lib import view as _view5

    rvn = _view5(m, rvn)
    f5 = ctx.analysis(rvn)
    n_l = 0
    n_cap5 = 0
    nodep5 = ("param", rvn.pos_params[1])
    for s, n in f5.returns():
        t = strip_sites(f5.term_of(s.value, n))
        for a in unphi_terms(t):
            if a == nodep5 or a == ("const", None) or (a[0] == "new" and a[1] == "Constant") or (a[0] == "app" and a[1][0] == "global" and a[1][1].endswith("as_literal")):
                continue
            n_l += 1
            v5 = ("subscript", ("attr", ("param", rvn.pos_params[0]), "_lookup_dict"), ("attr", nodep5, "id"))

            def _is_parse(x):
                return x[0] == "app" and x[1][0] == "global" and x[1][1].endswith("_parse_source_for_lambda") and bool(x[2]) and x[2][0] == v5

            captured5 = a[0] == "tvisit" and a[1].endswith("_rewrite_captured_vars")
            if captured5:
                n_cap5 += 1
                a = a[2]  # the helper's own free variables are frozen on the way (R10)
            fresh = _is_parse(a) or (a[0] == "app" and a[1] == ("global", "copy.deepcopy") and len(a[2]) == 1 and _is_parse(a[2][0]))
            run.check(captured5, "C05.R10", rvn, s, "the inlined helper has been through a capture rewriter of its own", "the body of a captured helper is spliced in as parsed: the free variables of the helper (a cut value of its module, a variable of the function that defines it, a further helper it calls) stay in the query as bare names - unbound, or captured by a parameter of the calling lambda that happens to have the name", "_rewrite_captured_vars(global_getclosurevars(helper)).visit(parsed helper)", show(a), key="helper spliced in without capturing its own free variables")
            run.check(fresh, "C05.R5", rvn, s, "inlined helper is a fresh parse of its source", f"a helper's AST is taken from {show(a)[:100]} instead of a fresh parse: the same node object is inlined at several call sites, and the in-place substitution of one call leaks into the others", "parse the helper afresh for every occurrence (or deep-copy it)", show(a))
    run.floor("C05.R5", n_l, 1, "helper-inlining return in _rewrite_captured_vars.visit_Name")
    if n_cap5:
        check_helper_closure(run, ctx, m, rcv, "C05.R10")
    from ..lib import memoised_functions

    for mf, deco in memoised_functions(m):
        if mf.name in ("_parse_source_for_lambda", "rewrite_func_as_lambda", "_get_lambda_in_stream", "parse_as_ast"):
            run.fail("C05.R5", mf, mf.node, f"{mf.name} is memoised with @{deco}: every occurrence of a helper (and every query built from the same function object) receives the same AST object, which the in-place substitution then changes for all of them", "parse afresh for every occurrence")
    # nested function results used by visit_Name must themselves be fresh parses
    for sub in [f for f in m.funcs.values() if f.parent_func is rvn]:
        fs = ctx.analysis(sub)
        for s, n in fs.returns():
            t = strip_sites(fs.term_of(s.value, n)) if s.value is not None else ("const", None)
            for a in unphi_terms(t):
                if a[0] == "tvisit" and a[1].endswith("_rewrite_captured_vars"):
                    a = a[2]
                ok = a == ("const", None) or (a[0] == "app" and a[1][0] == "global" and a[1][1].endswith("_parse_source_for_lambda") and bool(a[2]) and a[2][0] == ("param", sub.pos_params[0]))
                run.check(ok, "C05.R5", sub, s, "helper parse wrapper returns a fresh parse or None", f"{sub.name} returns {show(a)[:100]}: a helper AST that is not freshly parsed (shared between call sites, then substituted in place)", "return _parse_source_for_lambda(x, None)", show(a))


def check_helper_closure(run: Run, ctx, m, rcv, rule: str) -> None:
    """The rewriter applied to an inlined helper is built from the *helper's* closure and module (global_getclosurevars of
    the very callable that was parsed) - not from the table of the calling lambda - and a helper that is already being
    inlined is not inlined again (a function that calls itself would never stop)."""
    from ..lib import unit

    vn = rcv.methods.get("visit_Name")
    n = 0
    ctx = TermCtx(m, max_depth=1, opaque={"global_getclosurevars", "_parse_source_for_lambda"})
    for f in unit(m, vn) + [g for g in m.funcs.values() if g.parent_func is vn]:
        fa = ctx.analysis(f)
        for c in calls_in(f):
            if not (isinstance(c.func, ast.Name) and c.func.id == rcv.name and fa.cfg.has_node(c)):
                continue
            n += 1
            a0 = strip_sites(fa.term_of(c.args[0])) if c.args else ("top", "no argument")
            parsed = [strip_sites(fa.term_of(p.args[0])) for p in calls_in(f) if isinstance(p.func, ast.Name) and p.func.id == "_parse_source_for_lambda" and p.args and fa.cfg.has_node(p)]
            ok = a0[0] == "app" and a0[1][0] == "global" and a0[1][1].endswith("global_getclosurevars") and len(a0[2]) == 1 and a0[2][0] in parsed
            run.check(ok, rule, f, stmt_of(c), "the helper's rewriter is built from global_getclosurevars(<the helper>)", f"the capture rewriter applied to an inlined helper is built from {show(a0)[:100]}, not from the closure and module of the helper that was parsed: its free variables are looked up in somebody else's scope", "_rewrite_captured_vars(global_getclosurevars(x), ..)", show(a0), key="helper rewriter not built from the helper's closure")
            # the chain of helpers being inlined is handed on, extended by this helper, and consulted before parsing
            grows = len(c.args) >= 2 or any(k.arg == "inlining" for k in c.keywords)
            run.check(grows, rule, f, stmt_of(c), "the helpers being inlined are handed on to the nested rewriter", "the nested rewriter is not told which helpers are already being inlined: a helper that calls itself (directly or through another one) is inlined without end", "self._inlining + (x,)", key="no recursion guard when inlining helpers")
    run.floor(rule, n, 1, "capture rewriters built for inlined helpers")


def _inside(a: ast.AST, b: ast.AST) -> bool:
    return any(x is a for x in ast.walk(b))


def _after(cfg, first, second) -> bool:
    """`second` can execute after `first` has executed (some path leads from first to second)."""
    seen = set()
    st = [s for s, _ in first.succ]
    while st:
        x = st.pop()
        if x is second:
            return True
        if id(x) in seen:
            continue
        seen.add(id(x))
        st.extend(s for s, _ in x.succ)
    return False


def _same_index(key_t, val_t) -> bool:
    """both are indexed by the same comprehension variable."""
    def idx(t):
        for s in _walk(t):
            if s[0] == "subscript":
                return s[2]
        return None

    a, b = idx(key_t), idx(val_t)
    return a is not None and a == b


def _walk(t):
    if isinstance(t, tuple):
        if t and isinstance(t[0], str):
            yield t
        for x in t:
            yield from _walk(x)


def _guard(run: Run, fa, vc: FuncInfo, ret_stmt, nodep) -> None:
    fx = Facts(fa, ret_stmt)
    atoms = list(fx.atoms)
    # expand boolean flag variables to the facts of their defining expression
    changed = True
    seen = set()
    while changed:
        changed = False
        for a, pol in list(atoms):
            if isinstance(a, ast.Name) and a.id not in seen:
                seen.add(a.id)
                defs = [n for n in own_nodes(vc) if isinstance(n, ast.Assign) and len(n.targets) == 1 and isinstance(n.targets[0], ast.Name) and n.targets[0].id == a.id]
                if len(defs) == 1:
                    atoms += facts_true(defs[0].value) if pol else facts_false(defs[0].value)
                    changed = True
    need = {
        "lambda": "the callee is an ast.Lambda",
        "keywords": "the call has no keyword arguments",
        "starred": "the call has no *args",
        "vararg": "the helper has no *args parameter",
        "kwonlyargs": "the helper has no keyword-only parameters",
        "kwarg": "the helper has no **kwargs parameter",
        "posonlyargs": "the helper has no positional-only parameters (they are not in args.args)",
        "arity": "the number of positional arguments equals the number of parameters",
    }
    for key, msg in need.items():
        run.check(_has_evidence(atoms, key), "C05.R3", vc, ret_stmt, f"inlined only if {msg}", f"a helper call is inlined without checking that {msg}: a parameter is left unbound or bound to the wrong argument", "return the call intact otherwise")
    # the converse: a call that binds every parameter positionally *is* inlined - default values that are not used are no
    # obstacle. A helper left as a called lambda keeps whatever it packages (tuples, dictionaries) in the query: the
    # simplifier does not reduce a called lambda that declares defaults either.
    extra = [ast.unparse(a)[:60] for a, pol in atoms if any(isinstance(x, ast.Attribute) and x.attr in ("defaults", "kw_defaults") for x in ast.walk(a))]
    run.check(not extra, "C05.R12", vc, ret_stmt, "a call binding every parameter is inlined whether or not the helper declares defaults", f"a helper that declares default values is never inlined ({extra[0] if extra else ''} is part of the guard), even when the call gives every argument: def pack(e, min_pt=30.0): return (..); pack(e, 40.0) stays a called lambda - nobody reduces it later, and the tuple it builds, with the projections t[0] / t[2] of the next stage, survives in the simplified query", "guard on the call shape and the parameter kinds only", key="helpers with defaults never inlined")


def _params_without_annotations(at, fargs) -> bool:
    """at is `f.args` re-made without annotations: a copy of it whose parameter lists are rebuilt from the names
    (ast.arg(arg=a.arg)), vararg / kwarg likewise, defaults untouched"""
    if at is None or at[0] != "upd":
        return False
    base, upd = at[1], dict(at[2])
    if base != ("app", ("global", "copy.copy"), (fargs,), ()):
        return False
    if set(upd) - {"posonlyargs", "args", "kwonlyargs", "vararg", "kwarg"} or not {"posonlyargs", "args", "kwonlyargs", "vararg", "kwarg"} <= set(upd):
        return False

    def bare(x, src) -> bool:
        return x[0] == "new" and x[1] == "arg" and {k_ for k_, v_ in x[2] if v_ != ("const", None)} == {"arg"} and dict(x[2])["arg"] == ("attr", src, "arg")

    for k in ("posonlyargs", "args", "kwonlyargs"):
        c = upd[k]
        src = ("attr", fargs, k)
        if not (c[0] == "comp" and len(c[3]) == 1 and c[3][0][0] == src and not c[3][0][1] and bare(c[2], ("elem", src))):
            return False
    for k in ("vararg", "kwarg"):
        c = upd[k]
        src = ("attr", fargs, k)
        alts = unphi_terms(c) if c[0] != "ifexp" else [c[2], c[3]]
        if not all(a == ("const", None) or bare(a, src) for a in alts) or not any(a != ("const", None) for a in alts):
            return False
    return True


def check_rewrite_func(run: Run, ctx, m, rule: str) -> None:
    """rewrite_func_as_lambda: a one-line def becomes Lambda(<the def's own arguments object>, <its return expression>)
    (also C03.R5: the def form must recover the function that was passed, parameters and defaults included)."""
    from ..lib import view as _view

    rf = _view(m, m.find_func("rewrite_func_as_lambda", in_module="func_adl.util_ast"))
    fr = ctx.analysis(rf)
    fp = ("param", rf.pos_params[0])
    rets = fr.returns()
    run.check(len(rets) == 1, rule, rf, rf.node, "one return", f"{len(rets)} returns")
    for s, n in rets:
        t = strip_sites(fr.term_of(s.value, n))
        d = dict(t[2]) if t[0] == "new" and t[1] == "Lambda" else {}
        at = d.get("args")
        fargs = ("attr", fp, "args")
        same_obj = at == fargs
        ok_args = _params_without_annotations(at, fargs)
        b = d.get("body")
        ok_body = b is not None and b[0] == "attr" and b[2] == "value" and b[1][0] == "index" and b[1][2] == 0
        if same_obj and ok_body:
            run.fail(rule, rf, s, "the lambda is given the def's own arguments object, annotations included: a lambda's parameters cannot carry annotations - the recorded lambda unparses to text that is not python (lambda x: int, s: float=2.0: x * s), and a class used as an annotation is captured as a constant that the transport gate then refuses (def f(e: Event): return e.x cannot be used at all)", "the same parameters, names and defaults, without the annotations", show(t), key="annotations of the def kept on the lambda")
        else:
            run.check(ok_args and ok_body, rule, rf, s, "result is Lambda(<f's parameters and defaults, no annotations>, <the single statement>.value)", f"rewrite_func_as_lambda returns {show(t)[:140]}", term=show(t))
        # what a decorator does to the function is not in its source: a decorated def is refused, not recorded without it
        deco = any((le_ := len_eq(a_)) is not None and strip_sites(fr.term_of(le_[0])) == ("attr", fp, "decorator_list") and ((le_[1] == "Eq" and pol_ and le_[2] == 0) or (le_[1] in ("Gt", "NotEq") and not pol_ and le_[2] == 0)) for a_, pol_ in Facts(fr, s).atoms) or any((not pol_) and isinstance(a_, ast.Attribute) and a_.attr == "decorator_list" for a_, pol_ in Facts(fr, s).atoms)
        run.check(deco, rule, rf, s, "a decorated def is refused", "a def with decorators is turned into a lambda of its undecorated body: inspect.getsource follows functools.wraps, so for @in_gev def jet_pt(j): return j.pt() the *wrapped* function is recorded - silently another function than the callable that was passed (and a function registered with @func_adl_callable that has a dummy `return` body is inlined away before the type follower sees the call)", "if f.decorator_list: raise ValueError(..)", key="decorated def recorded without its decorators")
        fx = Facts(fr, s)
        one = False
        isret = False
        for a, pol in fx.atoms:
            le = len_eq(a)
            if le is not None and ((le[1] == "NotEq" and not pol and le[2] == 1) or (le[1] == "Eq" and pol and le[2] == 1)):
                one = True
            if isinstance(a, ast.Call) and isinstance(a.func, ast.Name) and a.func.id == "isinstance" and pol and len(a.args) == 2 and ast.unparse(a.args[1]) == "ast.Return":
                isret = True
        run.check(one, rule, rf, s, "guarded by exactly one non-docstring statement", "a def with several statements is turned into a lambda of one of them")
        run.check(isret, rule, rf, s, "guarded by 'the statement is a Return'", "a def whose single statement is not a return is turned into a lambda")
    for n in own_nodes(rf):
        if isinstance(n, ast.Raise):
            exc = n.exc.func if isinstance(n.exc, ast.Call) else n.exc
            run.check(isinstance(exc, ast.Name) and exc.id == "ValueError", rule, rf, n, "refusal is a ValueError", f"refusal raises {ast.unparse(exc)}")
    # docstring filter: only constant expression statements are dropped - read off the term of the returned body
    ok_f = False
    fcomp = None
    for s_, n_ in rets:
        t_ = strip_sites(fr.term_of(s_.value, n_))
        d_ = dict(t_[2]) if t_[0] == "new" and t_[1] == "Lambda" else {}
        b_ = d_.get("body")
        if b_ is not None and b_[0] == "attr" and b_[1][0] == "index" and b_[1][1][0] == "comp":
            fcomp = b_[1][1]
    if fcomp is not None and len(fcomp[3]) == 1:
        body_t = ("attr", fp, "body")
        it_, conds_ = fcomp[3][0]
        el = ("elem", body_t)
        is_expr = ("app", ("global", "builtins.isinstance"), (el, ("global", "ast.Expr")), ())
        is_const = ("app", ("global", "builtins.isinstance"), (("attr", el, "value"), ("global", "ast.Constant")), ())
        want_c = ("op", "Not", (("op", "And", (is_expr, is_const)),))
        ok_f = it_ == body_t and fcomp[2] == el and list(conds_) == [want_c]
    run.check(ok_f, rule, rf, rf.node, "only docstring-like constant expression statements are ignored", "the statements considered are not 'f.body minus constant expression statements'")

